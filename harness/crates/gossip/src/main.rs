//! Gossip family (C10, C11, C29, message part of C13): drives the real
//! `radicle_node::service::Service` through `test::peer::Peer`, evaluates the
//! direct property oracles on the real trace, and records the same event
//! traces for coq/model/Gossip.v.
//!
//! `--prop C10|C11|C29|C13` selects whose oracle failures are reported; the
//! correspondence cases are the same for all four.
use std::collections::{BTreeMap, BTreeSet, HashMap};
use std::panic::AssertUnwindSafe;
use std::str::FromStr;

use hw_common::*;
use radicle::identity::Visibility;
use radicle::node::device::Device;
use radicle::node::{Alias, Features, UserAgent};
use radicle::storage::refs::RefsAt;
use radicle::test::arbitrary;
use radicle::test::storage::{MockRepository, MockStorage};
use radicle_crypto::test::signer::MockSigner;
use radicle_node::prelude::*;
use radicle_node::service::io::Io;
use radicle_node::service::message::*;
use radicle_node::service::policy::Scope;
use radicle_node::service::{self, Command};
use radicle_node::test::peer::{self, Peer};
use radicle_node::{Link, PROTOCOL_VERSION};

type Alice = Peer<MockStorage, MockSigner>;

const T0: u64 = 1_700_000_000_000; // fixed local time at initialisation (ms)

#[derive(Clone, Copy, Debug, PartialEq, Eq, PartialOrd, Ord)]
enum Kind {
    Inv = 0,
    Node = 1,
    Refs = 2,
}

#[derive(Clone, Debug)]
struct AnnSpec {
    node: usize, // 0 = alice, 1.. = peers
    kind: Kind,
    rid: usize, // 1-based, 0 for none
    ts: u64,
    sig: bool,
    inv: Vec<usize>,
    nonempty: bool,
    seed: bool,
    msg: Message,
}
impl AnnSpec {
    fn coq(&self) -> String {
        format!(
            "(mkAnn {} {} {} {} {} {} {} {})",
            self.node,
            match self.kind {
                Kind::Inv => "KInv",
                Kind::Node => "KNode",
                Kind::Refs => "KRefs",
            },
            self.rid,
            self.ts,
            self.sig.coq(),
            self.inv.iter().map(|x| *x as u64).collect::<Vec<_>>().coq(),
            self.nonempty.coq(),
            self.seed.coq()
        )
    }
    fn key(&self) -> (usize, Kind, usize) {
        (self.node, self.kind, self.rid)
    }
}

#[derive(Clone, Debug)]
enum Sub {
    All,
    Set(Vec<usize>),
}
impl Sub {
    fn coq(&self) -> String {
        match self {
            Sub::All => "SubAll".into(),
            Sub::Set(l) => format!("(SubSet {})", l.iter().map(|x| *x as u64).collect::<Vec<_>>().coq()),
        }
    }
}

#[derive(Clone, Debug)]
enum Ev {
    Connect(usize),
    Disconnect(usize),
    RecvAnn(usize, usize), // peer, index into pool
    RecvSub(usize, Sub, u64, u64),
    Elapse(u64),
    AnnounceRefs(usize),
    AddInventory(usize),
    Tick(u64),
    Restart,
    SetDoc(usize, bool, Vec<usize>),
}

struct Scenario {
    npeers: usize,
    nrids: usize,
    relay: bool,
    /// local repos: rid -> (public, allowed peers)
    local: BTreeMap<usize, (bool, Vec<usize>)>,
    /// repos that are private in the world but absent from local storage: rid -> allowed peers
    foreign_private: BTreeMap<usize, Vec<usize>>,
    seeded: Vec<usize>,
    own_refs: Vec<usize>,
    known0: Vec<usize>,
}

struct World {
    alice: Alice,
    signers: Vec<Device<MockSigner>>, // index 0 = alice
    nids: Vec<NodeId>,
    rids: Vec<RepoId>, // index 0 unused
}

fn addr_of(i: usize) -> Address {
    Address::from(std::net::SocketAddr::from(([8, 8, 8, i as u8 + 1], 8776)))
}

fn build_world(sc: &Scenario, seed: u64) -> World {
    let mut signers = vec![];
    for i in 0..=sc.npeers {
        let mut s = [0u8; 32];
        s[0] = i as u8 + 1;
        s[1] = 0x5a;
        signers.push(Device::mock_from_seed(s));
    }
    let nids: Vec<NodeId> = signers.iter().map(|s| *s.public_key()).collect();
    // deterministic repo ids
    let mut rids = vec![RepoId::from(radicle::git::Oid::try_from([0u8; 20].as_slice()).unwrap())];
    for i in 1..=sc.nrids {
        let mut b = [0u8; 20];
        b[0] = i as u8;
        b[19] = 0x77;
        rids.push(RepoId::from(radicle::git::Oid::try_from(b.as_slice()).unwrap()));
    }
    let mut storage = MockStorage::empty();
    for (rid, (public, allowed)) in &sc.local {
        let vis = if *public {
            Visibility::Public
        } else {
            Visibility::Private { allow: allowed.iter().map(|p| Did::from(nids[*p])).collect() }
        };
        let doc = arbitrary::gen::<radicle::identity::Doc>(1).with_edits(|d| d.visibility = vis.clone()).unwrap();
        let (blob, _) = doc.encode().unwrap();
        rids[*rid] = RepoId::from(blob);
        let repo = MockRepository::new(rids[*rid], doc);
        storage.repos.insert(rids[*rid], repo);
    }
    let mut s0 = [0u8; 32];
    s0[0] = 1;
    s0[1] = 0x5a;
    let mut cfg = service::Config::test(Alias::from_str("alice").unwrap());
    cfg.limits.rate.inbound.capacity = 1 << 30;
    cfg.limits.rate.inbound.fill_rate = 1e9;
    cfg.limits.rate.outbound.capacity = 1 << 30;
    cfg.limits.rate.outbound.fill_rate = 1e9;
    // no self-initiated outbound sessions: every session in a scenario is an explicit event
    cfg.limits.connection.outbound = 0;
    cfg.relay = if sc.relay { radicle::node::config::Relay::Always } else { radicle::node::config::Relay::Never };
    let config = peer::Config {
        config: cfg,
        local_time: LocalTime::from_millis(T0 as u128),
        signer: Device::mock_from_seed(s0),
        rng: fastrand::Rng::with_seed(seed),
        ..peer::Config::default()
    };
    let mut alice = Peer::config("alice", [7, 7, 7, 7], storage, config);
    // own sigrefs where the scenario says so (needed by AnnounceRefs)
    for rid in &sc.own_refs {
        let me = alice.id;
        let sr = {
            let repo = alice.storage().repos.get(&rids[*rid]).unwrap().clone();
            alice.signed_refs_at(arbitrary::gen::<Refs>(2), arbitrary::oid(), &repo)
        };
        alice.storage_mut().repo_mut(&rids[*rid]).remotes.insert(me, sr);
    }
    alice.initialize();
    for rid in &sc.seeded {
        alice.seed(&rids[*rid], Scope::All).unwrap();
    }
    // address book: nodes known from the start
    for p in &sc.known0 {
        use radicle::node::address::Store as _;
        let ka = radicle::node::KnownAddress::new(addr_of(*p), radicle::node::address::Source::Peer);
        alice
            .database_mut()
            .addresses_mut()
            .insert(&nids[*p], PROTOCOL_VERSION, Features::SEED, &Alias::from_str("p").unwrap(), 0,
                &UserAgent::default(), Timestamp::from(LocalTime::from_millis((T0 - 10_000_000) as u128)), Some(ka))
            .unwrap();
    }
    alice.outbox().for_each(drop);
    World { alice, signers, nids, rids }
}

fn make_ann(w: &World, rng: &mut Rng, node: usize, kind: Kind, rid: usize, ts: u64, sig: bool,
            inv: Vec<usize>, nonempty: bool, seed: bool) -> AnnSpec {
    let timestamp = Timestamp::try_from(ts).unwrap();
    let m: AnnouncementMessage = match kind {
        Kind::Node => NodeAnnouncement {
            version: PROTOCOL_VERSION,
            features: if seed { Features::SEED } else { Features::NONE },
            timestamp,
            alias: Alias::from_str("peer").unwrap(),
            addresses: vec![addr_of(node)].try_into().unwrap(),
            nonce: 0,
            agent: UserAgent::from_str("/radicle:test/").unwrap(),
        }
        .into(),
        Kind::Inv => InventoryAnnouncement {
            inventory: inv.iter().map(|r| w.rids[*r]).collect::<Vec<_>>().try_into().unwrap(),
            timestamp,
        }
        .into(),
        Kind::Refs => {
            let refs: Vec<RefsAt> = if nonempty {
                let mut b = [0u8; 20];
                b[0] = rng.below(256) as u8;
                b[1] = 1;
                vec![RefsAt { remote: w.nids[node], at: radicle::git::Oid::try_from(b.as_slice()).unwrap() }]
            } else {
                vec![]
            };
            RefsAnnouncement { rid: w.rids[rid], refs: refs.try_into().unwrap(), timestamp }.into()
        }
    };
    // a forged announcement is signed by somebody else's key
    let signer = if sig { &w.signers[node] } else { &w.signers[(node + 1) % w.signers.len()] };
    let mut a = m.signed(signer);
    a.node = w.nids[node];
    AnnSpec { node, kind, rid, ts, sig, inv, nonempty, seed, msg: Message::Announcement(a) }
}

type W5 = (u64, u64, u64, u64, u64);
fn w5s_coq(l: &[W5]) -> String {
    let v: Vec<String> = l.iter().map(|t| format!("(w5 {} {} {} {} {})", t.0, t.1, t.2, t.3, t.4)).collect();
    format!("[{}]", v.join("; "))
}

struct StepObs {
    writes: Vec<W5>,
    discs: Vec<u64>,
    invs: Vec<(u64, Vec<u64>)>,
}

fn ann_w5(w: &World, to: usize, a: &Announcement) -> W5 {
    let node = w.nids.iter().position(|n| *n == a.node).unwrap() as u64;
    let (k, rid) = match &a.message {
        AnnouncementMessage::Inventory(_) => (0, 0),
        AnnouncementMessage::Node(_) => (1, 0),
        AnnouncementMessage::Refs(r) => (2, w.rids.iter().position(|x| *x == r.rid).unwrap() as u64),
    };
    (to as u64, node, k, rid, *a.timestamp())
}

fn drain(w: &mut World, raw: &mut Vec<(usize, Announcement)>) -> StepObs {
    let mut writes = vec![];
    let mut discs = vec![];
    let mut invs: Vec<(u64, Vec<u64>)> = vec![];
    let ios: Vec<Io> = w.alice.outbox().collect();
    for io in ios {
        match io {
            Io::Write(nid, msgs) => {
                let to = w.nids.iter().position(|n| *n == nid).unwrap();
                for m in msgs {
                    if let Message::Announcement(a) = m {
                        if a.node == w.nids[0] {
                            if let AnnouncementMessage::Inventory(inv) = &a.message {
                                let mut l: Vec<u64> = inv.inventory.iter()
                                    .map(|x| w.rids.iter().position(|y| y == x).unwrap() as u64).collect();
                                l.sort();
                                invs.push((to as u64, l));
                            }
                        }
                        writes.push(ann_w5(w, to, &a));
                        raw.push((to, a));
                    }
                }
            }
            Io::Disconnect(nid, DisconnectReason::Session(e))
                if !matches!(e, service::session::Error::Timeout) =>
            {
                discs.push(w.nids.iter().position(|n| *n == nid).unwrap() as u64);
            }
            _ => {}
        }
    }
    writes.sort();
    discs.sort();
    invs.sort();
    StepObs { writes, discs, invs }
}

fn apply(w: &mut World, ev: &Ev, pool: &[AnnSpec]) {
    match ev {
        Ev::Connect(p) => {
            let (nid, addr) = (w.nids[*p], addr_of(*p));
            w.alice.connected(nid, addr, Link::Inbound);
        }
        Ev::Disconnect(p) => {
            let nid = w.nids[*p];
            w.alice.disconnected(nid, Link::Inbound, &DisconnectReason::connection());
        }
        Ev::RecvAnn(p, i) => {
            let nid = w.nids[*p];
            w.alice.receive(nid, pool[*i].msg.clone());
        }
        Ev::RecvSub(p, sub, since, until) => {
            let filter = match sub {
                Sub::All => Filter::default(),
                Sub::Set(l) => Filter::new(l.iter().map(|r| w.rids[*r])),
            };
            let nid = w.nids[*p];
            w.alice.receive(
                nid,
                Message::Subscribe(Subscribe {
                    filter,
                    since: Timestamp::try_from(*since).unwrap(),
                    until: Timestamp::try_from(*until).unwrap(),
                }),
            );
        }
        Ev::Elapse(dt) => w.alice.elapse(LocalDuration::from_millis(*dt as u128)),
        Ev::AnnounceRefs(r) => {
            let (tx, _rx) = crossbeam_channel::bounded(1);
            w.alice.command(Command::AnnounceRefs(w.rids[*r], tx));
        }
        Ev::AddInventory(r) => {
            let (tx, _rx) = crossbeam_channel::bounded(1);
            w.alice.command(Command::AddInventory(w.rids[*r], tx));
        }
        Ev::Tick(now) => {
            let m = service::Metrics::default();
            w.alice.tick(LocalTime::from_millis(*now as u128), &m);
        }
        Ev::Restart => w.alice.restart(),
        Ev::SetDoc(r, public, allowed) => {
            let vis = if *public { Visibility::Public } else {
                Visibility::Private { allow: allowed.iter().map(|p| Did::from(w.nids[*p])).collect() }
            };
            let rid = w.rids[*r];
            let repo = w.alice.storage_mut().repo_mut(&rid);
            repo.doc.doc = repo.doc.doc.clone().with_edits(|d| d.visibility = vis.clone()).unwrap();
        }
    }
}

fn ev_coq(ev: &Ev, pool: &[AnnSpec]) -> String {
    match ev {
        Ev::Connect(p) => format!("(EConnect {})", p),
        Ev::Disconnect(p) => format!("(EDisconnect {})", p),
        Ev::RecvAnn(p, i) => format!("(ERecvAnn {} {})", p, pool[*i].coq()),
        Ev::RecvSub(p, s, a, b) => format!("(ERecvSub {} {} {} {})", p, s.coq(), a, b),
        Ev::Elapse(dt) => format!("(EElapse {})", dt),
        Ev::AnnounceRefs(r) => format!("(ECmdAnnounceRefs {})", r),
        Ev::AddInventory(r) => format!("(ECmdAddInventory {})", r),
        Ev::Tick(now) => format!("(ETick {})", now),
        Ev::Restart => "ERestart".to_string(),
        Ev::SetDoc(r, p, al) => format!("(ESetDoc {} (mkDoc {} {}))", r, p.coq(), al.iter().map(|x| *x as u64).collect::<Vec<_>>().coq()),
    }
}

/// Real gossip table: (node, kind, rid, ts, relay class).
fn table(w: &mut World) -> Vec<W5> {
    let db: &mut radicle::node::Database = w.alice.database_mut().as_mut();
    let mut out = vec![];
    let stmt = db.db.prepare("SELECT node, repo, type, timestamp, relay FROM announcements").unwrap();
    for row in stmt.into_iter() {
        let row = row.unwrap();
        let node: &str = row.read::<&str, _>("node");
        let repo: &str = row.read::<&str, _>("repo");
        let ty: &str = row.read::<&str, _>("type");
        let ts: i64 = row.read::<i64, _>("timestamp");
        let relay: Option<i64> = row.read::<Option<i64>, _>("relay");
        let n = w.nids.iter().position(|x| x.to_human() == node || x.to_string() == node).unwrap() as u64;
        let r = if repo.is_empty() { 0 } else {
            w.rids.iter().position(|x| x.to_string() == repo || x.urn() == repo || x.canonical() == repo).unwrap() as u64
        };
        let k = match ty { "inventory" => 0, "node" => 1, _ => 2 };
        let rc = match relay { None => 1, Some(-1) => 0, Some(_) => 2 };
        out.push((n, k, r, ts as u64, rc));
    }
    out.sort();
    out
}

fn gen_scenario(r: &mut Rng) -> Scenario {
    let npeers = r.range(2, 4) as usize;
    let nrids = r.range(2, 5) as usize;
    let mut local = BTreeMap::new();
    let mut foreign_private = BTreeMap::new();
    for rid in 1..=nrids {
        let allowed: Vec<usize> = (1..=npeers).filter(|_| r.chance(1, 3)).collect();
        match r.below(5) {
            0 | 1 => { local.insert(rid, (true, vec![])); }
            2 | 3 => { local.insert(rid, (false, allowed)); }
            _ => { if r.bool() { foreign_private.insert(rid, allowed); } }
        }
    }
    let mut seeded: Vec<usize> = (1..=nrids).filter(|x| !local.contains_key(x) && r.chance(2, 3)).collect();
    seeded.extend(local.keys().cloned());
    seeded.sort();
    let own_refs: Vec<usize> = local.keys().cloned().filter(|_| r.chance(3, 4)).collect();
    let known0: Vec<usize> = (1..=npeers).filter(|_| r.chance(1, 2)).collect();
    Scenario { npeers, nrids, relay: r.chance(5, 6), local, foreign_private, seeded, own_refs, known0 }
}

fn scenario_coq(sc: &Scenario) -> String {
    let storage: Vec<String> = sc.local.iter().map(|(rid, (p, al))|
        format!("({}, mkDoc {} {})", rid, p.coq(), al.iter().map(|x| *x as u64).collect::<Vec<_>>().coq())).collect();
    format!("(mkCfg 0 {} [{}] {} {})", sc.relay.coq(), storage.join("; "),
        sc.seeded.iter().map(|x| *x as u64).collect::<Vec<_>>().coq(),
        sc.own_refs.iter().map(|x| *x as u64).collect::<Vec<_>>().coq())
}

enum Forced {
    Ev(Ev),
    FreshInv,
    Redeliver,
}

#[derive(Default)]
struct Oracle {
    /// every delivery: (step, peer, pool index, clock at receipt, stored by this delivery?)
    deliveries: Vec<(usize, usize, usize, u64, bool)>,
    /// own announcements in order of first appearance: (kind, rid, ts)
    own_seen: Vec<(u64, u64, u64)>,
    last_row_ts: HashMap<(u64, u64, u64), u64>,
    own_rows: HashMap<(u64, u64), u64>,
    own_max: u64,
    /// greatest own timestamp known when the cached inventory announcement was last (re)created
    inv_floor: u64,
}

fn run_case(run: &mut Run, prop: &str, id: &str, seed: u64, stream: u64, index: u64, len: usize) {
    let mut r = Rng::for_case(seed, stream, index);
    let mut sc = gen_scenario(&mut r);
    // stream 2: phased scenarios — periodic tasks (gossip 6 s, idle 30 s, sync 60 s, prune 30 min,
    // announce 60 min) are driven OUT OF PHASE with the gossip tick, with fresh inventory
    // announcements delivered (and re-delivered by other peers) in the window in between
    let mut forced: std::collections::VecDeque<Forced> = Default::default();
    if stream == 2 {
        sc.known0 = (1..=sc.npeers).collect();
        sc.relay = true;
        for p in 1..=sc.npeers { forced.push_back(Forced::Ev(Ev::Connect(p))); }
        forced.push_back(Forced::Ev(Ev::Elapse(1)));
        let rounds = r.range(1, 2);
        for _ in 0..rounds {
            let period = *r.pick(&[1_800_000u64, 1_800_000, 3_600_000, 30_000, 60_000]);
            let k = r.range(1, 5_999);
            forced.push_back(Forced::Ev(Ev::Elapse(period - k)));
            for _ in 0..r.range(1, 3) { forced.push_back(Forced::FreshInv); }
            if r.bool() { forced.push_back(Forced::Redeliver); }
            forced.push_back(Forced::Ev(Ev::Elapse(k)));
            if r.bool() { forced.push_back(Forced::Redeliver); }
            forced.push_back(Forced::Ev(Ev::Elapse(6_000)));
        }
    }
    let mut w = build_world(&sc, seed ^ index);
    let mut pool: Vec<AnnSpec> = vec![];
    let mut evs: Vec<Ev> = vec![];
    let mut obs: Vec<StepObs> = vec![];
    let mut clock = T0;
    let mut panicked: Option<String> = None;
    let mut orc = Oracle::default();
    // the node announcement (T0+1) and the initial inventory announcement (T0+2) are created
    // by Peer::config / Service::initialize before the first event
    orc.own_rows.insert((0, 0), T0 + 2);
    orc.own_max = T0 + 2;
    orc.inv_floor = T0 + 1;
    let mut tallies: BTreeSet<&'static str> = BTreeSet::new();
    let mut connected: BTreeSet<usize> = BTreeSet::new();
    // identity documents of local repositories can change during a scenario (SetDoc)
    let mut docs: BTreeMap<usize, (bool, Vec<usize>)> = sc.local.clone();
    let mut ever_public: BTreeSet<usize> = docs.iter().filter(|(_, d)| d.0).map(|(r, _)| *r).collect();
    // own announcements with a timestamp above this were created by/after a restart that
    // followed the last public -> private change
    let mut restart_floor: Option<u64> = None;
    let world_visible = |rid: usize, p: usize, docs: &BTreeMap<usize, (bool, Vec<usize>)>, sc: &Scenario| -> bool {
        if let Some((public, al)) = docs.get(&rid) { *public || al.contains(&p) }
        else if let Some(al) = sc.foreign_private.get(&rid) { al.contains(&p) }
        else { true }
    };
    run.eval();
    for step in 0..len {
        // ---- choose an event
        let ev = if let Some(f) = forced.pop_front() {
            match f {
                Forced::Ev(e) => e,
                Forced::Redeliver if !pool.is_empty() =>
                    Ev::RecvAnn(r.range(1, sc.npeers as u64) as usize, pool.len() - 1),
                Forced::Redeliver => Ev::Elapse(1),
                Forced::FreshInv => {
                    let node = r.range(1, sc.npeers as u64) as usize;
                    let p = r.range(1, sc.npeers as u64) as usize;
                    let inv: Vec<usize> = (1..=sc.nrids).filter(|_| r.chance(2, 3)).collect();
                    let ts = clock - r.below(1000);
                    let a = make_ann(&w, &mut r, node, Kind::Inv, 0, ts + step as u64, true, inv, false, false);
                    pool.push(a);
                    Ev::RecvAnn(p, pool.len() - 1)
                }
            }
        } else { match r.below(22) {
            20 => Ev::Restart,
            21 => {
                let c: Vec<usize> = docs.keys().cloned().collect();
                if c.is_empty() { Ev::Elapse(1) } else {
                    let rid = *r.pick(&c);
                    let public = !docs[&rid].0 || r.chance(1, 4);
                    let allowed: Vec<usize> = (1..=sc.npeers).filter(|_| r.chance(1, 3)).collect();
                    Ev::SetDoc(rid, public, allowed)
                }
            }
            0 | 1 => Ev::Connect(r.range(1, sc.npeers as u64) as usize),
            2 => Ev::Disconnect(r.range(1, sc.npeers as u64) as usize),
            3 | 4 => {
                let sub = if r.chance(2, 5) { Sub::All } else {
                    Sub::Set((1..=sc.nrids).filter(|_| r.bool()).collect())
                };
                let (since, until) = match r.below(6) {
                    0 => (0, u64::MAX >> 1),
                    1 => (clock - 3_600_000, u64::MAX >> 1),
                    2 => (clock + 10, clock), // inverted range
                    3 => (clock - 10_000, clock + 10_000),
                    4 => (u64::MAX >> 1, 0),
                    _ => (clock - 86_400_000, u64::MAX >> 1),
                };
                Ev::RecvSub(r.range(1, sc.npeers as u64) as usize, sub, since, until)
            }
            5 => Ev::Elapse(*r.pick(&[1, 500, 5_999, 6_000, 6_001, 30_000, 3_600_000, 4_000_000])),
            6 => if r.bool() { Ev::Elapse(*r.pick(&[0, 1, 6_000, 30_000])) } else {
                // a raw clock reading: equal, ahead, or BEHIND the service clock
                Ev::Tick((clock as i64 + *r.pick(&[-3_600_000i64, -1000, -1, 0, 1, 700, 6_000])) as u64)
            },
            7 => Ev::AnnounceRefs(r.range(1, sc.nrids as u64) as usize),
            8 => Ev::AddInventory({
                // the callers of AddInventory only pass public repositories (or unknown ones)
                let c: Vec<usize> = (1..=sc.nrids).filter(|x| docs.get(x).map(|d| d.0).unwrap_or(true)).collect();
                if c.is_empty() { 0 } else { *r.pick(&c) }
            }),
            _ => {
                let p = r.range(1, sc.npeers as u64) as usize;
                if !pool.is_empty() && r.chance(1, 3) {
                    // re-delivery of an earlier announcement (possibly by another peer)
                    Ev::RecvAnn(p, r.below(pool.len() as u64) as usize)
                } else {
                    let node = if r.chance(1, 12) { 0 } else { r.range(1, sc.npeers as u64) as usize };
                    let kind = *r.pick(&[Kind::Node, Kind::Inv, Kind::Inv, Kind::Refs, Kind::Refs, Kind::Refs]);
                    let rid = if kind == Kind::Refs { r.range(1, sc.nrids as u64) as usize } else { 0 };
                    let delta: i64 = *r.pick(&[-7_200_000, -3_600_001, -3_600_000, -60_000, -1, 0, 0, 1, 1000, 60_000,
                        3_600_000, 3_600_001, 7_200_000]);
                    let mut ts = (clock as i64 + delta) as u64;
                    if r.chance(1, 25) { ts = 0; }
                    if r.chance(1, 6) {
                        // stale/equal relative to something already sent for the same key
                        if let Some(a) = pool.iter().rev().find(|a| a.node == node && a.kind == kind && a.rid == rid) {
                            ts = if r.bool() { a.ts } else { a.ts.saturating_sub(1) };
                        }
                    }
                    let inv: Vec<usize> = if kind == Kind::Inv { (1..=sc.nrids).filter(|_| r.chance(1, 2)).collect() } else { vec![] };
                    let (c1, c2, c3) = (!r.chance(1, 10), !r.chance(1, 8), !r.chance(1, 6));
                    let a = make_ann(&w, &mut r, node, kind, rid, ts, c1, inv,
                        kind == Kind::Refs && c2, kind == Kind::Node && c3);
                    pool.push(a);
                    Ev::RecvAnn(p, pool.len() - 1)
                }
            }
        } };
        let ev = if matches!(ev, Ev::AddInventory(0)) { Ev::Elapse(1) } else { ev };
        // ---- pre-state needed by the oracle
        let pre_row_ts: Option<Option<u64>> = if let Ev::RecvAnn(_, i) = &ev {
            let k = pool[*i].key();
            Some(table(&mut w).iter().find(|t| (t.0 as usize, t.1, t.2 as usize) == (k.0, k.1 as u64, k.2)).map(|t| t.3))
        } else { None };
        let known_before: Option<bool> = if let Ev::RecvAnn(_, i) = &ev {
            use radicle::node::address::Store as _;
            Some(w.alice.database().addresses().get(&w.nids[pool[*i].node]).unwrap().is_some())
        } else { None };
        // ---- run it on the real service
        let res = catch(AssertUnwindSafe(|| apply(&mut w, &ev, &pool)));
        evs.push(ev.clone());
        if let Err(msg) = res {
            panicked = Some(msg.clone());
            if prop == "C13" {
                run.fail(id, "c13-service-panic", format!("Service panicked at step {}: {}", step, msg),
                    json!({"events": evs.iter().map(|e| ev_coq(e, &pool)).collect::<Vec<_>>()}));
            }
            break;
        }
        if let Ev::Elapse(dt) = &ev { clock += dt; }
        if let Ev::SetDoc(r0, p0, al0) = &ev {
            if docs.get(r0).map(|d| d.0).unwrap_or(false) && !*p0 { restart_floor = None; tallies.insert("repo-made-private"); }
            docs.insert(*r0, (*p0, al0.clone()));
            if *p0 { ever_public.insert(*r0); }
        }
        if let Ev::Restart = &ev {
            let tmax = table(&mut w).iter().filter(|t| t.0 == 0).map(|t| t.3).max().unwrap_or(0);
            restart_floor = Some(tmax.max(orc.own_max));
            orc.inv_floor = tmax.max(orc.own_max);
            tallies.insert("restart");
        }
        if let Ev::Tick(now) = &ev { if *now < clock { tallies.insert("clock-reading-in-the-past"); } clock = clock.max(*now); }
        match &ev { Ev::Connect(p) => { connected.insert(*p); } Ev::Disconnect(p) => { connected.remove(p); } _ => {} }
        let mut raw = vec![];
        let so = drain(&mut w, &mut raw);
        let tbl = table(&mut w);
        // ---- direct oracles
        // gossip table monotonicity (C10: replaced only by strictly newer)
        for t in &tbl {
            let k = (t.0, t.1, t.2);
            if let Some(old) = orc.last_row_ts.get(&k) {
                if t.3 < *old && prop == "C10" {
                    run.fail(id, "c10-stored-timestamp-decreased", format!("stored announcement {:?} went from t={} to t={}", k, old, t.3), json!({"step": step}));
                }
            }
            orc.last_row_ts.insert(k, t.3);
        }
        // C29: the first time an own announcement (kind, rid, ts) is observed — in the gossip table
        // or in the outbox — it must carry a timestamp greater than every timestamp the node had
        // signed before it was created.  The cached inventory announcement is created at
        // (re)initialisation and may be observed later: its floor is the greatest own timestamp
        // known at that (re)initialisation.
        {
            let mut first_seen: Vec<(u64, u64, u64)> = vec![];
            for t in tbl.iter().filter(|t| t.0 == 0) {
                let key = (t.1, t.2, t.3);
                if !orc.own_seen.contains(&key) && !first_seen.contains(&key)
                    && orc.own_rows.get(&(t.1, t.2)).map(|old| *old != t.3).unwrap_or(true) { first_seen.push(key); }
                orc.own_rows.insert((t.1, t.2), t.3);
            }
            for (to, a) in &raw {
                if a.node == w.nids[0] {
                    let w5 = ann_w5(&w, *to, a);
                    let key = (w5.2, w5.3, w5.4);
                    if w5.2 != 1 && !orc.own_seen.contains(&key) && !first_seen.contains(&key)
                        && orc.own_rows.get(&(w5.2, w5.3)).map(|old| *old != w5.4).unwrap_or(true) { first_seen.push(key); }
                }
            }
            for (kind, rid, ts) in &first_seen {
                let floor = if *kind == 0 { orc.inv_floor.min(orc.own_max) } else { orc.own_max };
                if prop == "C29" && *ts <= floor && !(*kind == 0 && *ts == T0 + 2) {
                    run.fail(id, "c29-own-timestamp-not-increasing",
                        format!("own announcement (kind {}, rid {}) created with t={} although t={} was already signed", kind, rid, ts, floor),
                        json!({"step": step}));
                }
            }
            for t in tbl.iter().filter(|t| t.0 == 0) { orc.own_max = orc.own_max.max(t.3); }
            for (_, a) in &raw { if a.node == w.nids[0] { orc.own_max = orc.own_max.max(*a.timestamp()); } }
        }
        if let Ev::RecvAnn(p, i) = &ev {
            let a = &pool[*i];
            let after = tbl.iter().find(|t| (t.0 as usize, t.1, t.2 as usize) == (a.node, a.kind as u64, a.rid)).map(|t| t.3);
            let before = pre_row_ts.unwrap();
            let stored = connected.contains(p) && a.node != 0 && after == Some(a.ts) && before != Some(a.ts);
            if connected.contains(p) {
                orc.deliveries.push((step, *p, *i, clock, stored));
            }
            if stored { tallies.insert("stored"); }
            if prop == "C10" && stored {
                if !a.sig {
                    run.fail(id, "c10-stored-forged", format!("announcement with an invalid signature was stored: {}", a.coq()), json!({"step": step}));
                }
                if a.ts > clock + 3_600_000 {
                    run.fail(id, "c10-stored-future", format!("announcement {} more than one hour ahead of local time {} was stored", a.coq(), clock), json!({"step": step}));
                }
                if let Some(b) = before { if b >= a.ts {
                    run.fail(id, "c10-stored-not-newer", format!("announcement {} replaced a stored one with t={}", a.coq(), b), json!({"step": step}));
                } }
                if a.kind != Kind::Node && known_before == Some(false) {
                    run.fail(id, "c10-stored-unknown-announcer", format!("{} from a node with no known node announcement was stored", a.coq()), json!({"step": step}));
                }
            }
            if !a.sig { tallies.insert("forged"); }
            if before.map(|b| b >= a.ts).unwrap_or(false) { tallies.insert("stale"); }
            if known_before == Some(false) && a.kind != Kind::Node { tallies.insert("unknown-announcer"); }
            if a.ts > clock + 3_600_000 { tallies.insert("future"); }
        }
        for (to, a) in &raw {
            let w5 = ann_w5(&w, *to, a);
            let (node, kind, rid, ts) = (w5.1 as usize, w5.2, w5.3 as usize, w5.4);
            if node == 0 {
                // ---- C29: our own announcements
                let key = (kind, rid as u64, ts);
                if !orc.own_seen.contains(&key) {
                    if prop == "C29" && kind != 1 {
                        // two distinct own announcements never share a timestamp
                        if orc.own_seen.iter().any(|k| k.2 == ts) {
                            run.fail(id, "c29-own-timestamp-reused",
                                format!("two different own announcements carry t={}", ts), json!({"step": step}));
                        }
                    }
                    if prop == "C29" && kind == 1 {
                        if let Some(prev) = orc.own_seen.iter().find(|k| k.0 == 1) {
                            if prev.2 != ts {
                                run.fail(id, "c29-node-announcement-changed", format!("node announcement timestamp changed {} -> {}", prev.2, ts), json!({"step": step}));
                            }
                        }
                    }
                    orc.own_seen.push(key);
                }
                if kind == 0 && prop == "C11" {
                    if let AnnouncementMessage::Inventory(inv) = &a.message {
                        for x in inv.inventory.iter() {
                            let ri = w.rids.iter().position(|y| y == x).unwrap();
                            if !docs.get(&ri).map(|d| d.0).unwrap_or(false) {
                                // known window: the repository was public and has been made private, and this
                                // announcement predates the first restart after that change
                                let after_restart = restart_floor.map(|f| ts > f).unwrap_or(false);
                                let class = if ever_public.contains(&ri) && !after_restart { "c11-inventory-lists-repo-made-private" }
                                            else { "c11-private-repo-in-inventory" };
                                run.fail(id, class, format!("own inventory announcement (t={}) lists repository {} which is not a public local repository", ts, ri), json!({"step": step}));
                            }
                        }
                    }
                }
                tallies.insert("own-announcement-sent");
            } else {
                tallies.insert("relayed-or-replayed");
                if prop == "C10" {
                    // authentic: identical to something a peer delivered with a valid signature
                    let src = orc.deliveries.iter().find(|d| { let s = &pool[d.2]; s.node == node && s.kind as u64 == kind && s.rid == rid && s.ts == ts && s.sig });
                    if src.is_none() {
                        run.fail(id, "c10-relayed-unauthentic", format!("relayed announcement {:?} was never delivered with a valid signature", w5), json!({"step": step}));
                    }
                    if *to == node {
                        run.fail(id, "c10-relayed-to-announcer", format!("announcement {:?} sent to its own announcer", w5), json!({"step": step}));
                    }
                    // echo: did `to` deliver this very announcement earlier?
                    let is_replay = matches!(&ev, Ev::RecvSub(..));
                    if !is_replay {
                        for d in orc.deliveries.iter().filter(|d| d.1 == *to) {
                            let s = &pool[d.2];
                            if s.node == node && s.kind as u64 == kind && s.rid == rid && s.ts == ts && s.sig && d.0 < step + 1 {
                                if d.4 {
                                    run.fail(id, "c10-echo-to-storing-deliverer", format!("announcement {:?} relayed back to the peer whose delivery stored it", w5), json!({"step": step}));
                                } else if !(matches!(&ev, Ev::RecvAnn(..)) && d.0 == step) {
                                    run.fail(id, "c10-echo-to-ignored-deliverer", format!("announcement {:?} relayed to peer {} which had delivered the same announcement earlier (that delivery was ignored as duplicate/stale/unknown)", w5, to), json!({"step": step}));
                                }
                            }
                        }
                    }
                }
            }
            if kind == 2 && prop == "C11" && !world_visible(rid, *to, &docs, &sc) {
                let class = if !sc.local.contains_key(&rid) { "c11-refs-leak-repo-absent-from-storage" }
                            else if node == 0 { "c11-refs-leak-own-announcement" } else { "c11-refs-leak-relayed" };
                run.fail(id, class, format!("refs announcement for private repository {} (announcer {}) sent to peer {} which may not see it", rid, node, to), json!({"step": step}));
            }
            if kind == 2 && !docs.get(&rid).map(|d| d.0).unwrap_or(true) { tallies.insert("private-refs-sent-to-allowed-peer"); }
        }
        obs.push(so);
    }
    // ---- record the correspondence case
    let steps: Vec<String> = obs.iter().map(|o| format!("(mkStep {} {} [{}])", w5s_coq(&o.writes), o.discs.coq(),
        o.invs.iter().map(|(p, l)| format!("(mkInv {} {})", p, l.coq())).collect::<Vec<_>>().join("; "))).collect();
    let expected = if panicked.is_some() { "GPanicked".to_string() } else {
        let t = table(&mut w);
        format!("(GRun [{}] {})", steps.join("; "), w5s_coq(&t))
    };
    let evs_coq: Vec<String> = evs.iter().map(|e| ev_coq(e, &pool)).collect();
    let inv0: Vec<u64> = sc.local.iter().filter(|(_, d)| d.0).map(|(r, _)| *r as u64).collect();
    let mut known0: Vec<u64> = vec![0];
    known0.extend(sc.known0.iter().map(|x| *x as u64));
    run.case(id, format!("GTrace {} {} {} {} {} [{}]", scenario_coq(&sc), T0, T0 + 1, inv0.coq(), known0.coq(), evs_coq.join("; ")), expected);
    for t in &tallies { run.tally(t); }
    if tallies.contains("stored") && tallies.contains("relayed-or-replayed") && (tallies.contains("forged") || tallies.contains("stale")) {
        run.nontrivial(format!("{}:{}", stream, index));
    }
    if index < 2 { run.sample(json!({"case_id": id, "events": evs_coq})); }
}

fn main() {
    quiet_panics();
    let prop = {
        let a: Vec<String> = std::env::args().collect();
        a.iter().position(|x| x == "--prop").map(|i| a[i + 1].clone()).unwrap_or("C10".into())
    };
    let mut run = Run::new(&prop, "model.Gossip",
        "random event traces (connect/disconnect, announcements incl. forged, stale, equal, future, zero timestamps, unknown announcers, re-deliveries by other peers, subscriptions incl. inverted ranges, clock steps around the gossip interval, own refs/inventory announcements) over 2-4 peers and 2-5 repositories (public, private with allow lists, private-but-absent). Non-trivial = the trace stored at least one announcement, relayed/replayed at least one, and contained a forged or stale one; distinct by case id");
    run.check_fn = "g_check_case".into();
    run.case_ty = "(gcase * gobs)".into();
    run.shard_size(60);
    let seed = run.args.seed;
    // constants
    if run.args.wants("consts") {
        run.case("consts", "GConsts".into(), format!("(GConstsAre {} {} {})",
            service::MAX_TIME_DELTA.as_millis(), service::GOSSIP_INTERVAL.as_millis(), service::ANNOUNCE_INTERVAL.as_millis()));
    }
    let n = run.args.count(110, 600);
    for i in 0..n {
        for (stream, len) in [(0u64, 14usize), (1u64, 40usize), (2u64, 26usize)] {
            let id = format!("{}:{}", stream, i);
            if !run.args.wants(&id) { continue; }
            run_case(&mut run, &prop, &id, seed, stream, i, len);
        }
    }
    run.finish();
}
