//! C30: unified diffs round-trip through their text encoding.
//!
//! Stream 0 ("trees"): random pairs of small text trees are written into a bare
//! repository, diffed with libgit2 the way radicle-cli's call sites do
//! (`rad diff`, `rad patch review`, radicle-surf `Repository::diff`, `rad id`),
//! converted with radicle-surf's `Diff::try_from`, encoded with the real
//! `to_unified_string()` and decoded again with the real `Diff::parse`
//! (libgit2 `Diff::from_buffer` + radicle-surf) — whole diff and file by file —
//! and every hunk also with the Rust `Hunk::<Modification>::decode`.  The direct
//! oracle compares files, kinds, paths, modes, hunk headers, lines and ranges
//! with the original.  Every hunk / header / file text is also shipped to the
//! Coq model (coq/model/Diff.v) for correspondence.
//! Stream 1 ("codec"): boundary and malformed inputs for the Rust decoders and
//! synthetic values for the encoders, model vs implementation.
use std::panic::AssertUnwindSafe;
use std::path::{Path, PathBuf};

use hw_common::*;
use radicle::git::raw as git2;
use radicle_cli::git::unified_diff::{Decode, Encode, Error as UdError, FileHeader, HunkHeader};
use radicle_surf::diff::{
    Copied, Diff, DiffContent, DiffFile, EofNewLine, FileDiff, FileMode, FileStats, Hunk, Hunks,
    Line, Modification, Moved,
};

const CLASS_WS: &str = "c30-line-with-trailing-whitespace";
const CLASS_MOVED: &str = "c30-renamed-file-not-decodable";
const CLASS_PATH: &str = "c30-path-needs-quoting";
const CLASS_HEADER: &str = "c30-hunk-header-roundtrip";
const CLASS_HUNK: &str = "c30-hunk-roundtrip";
const CLASS_DIFF: &str = "c30-diff-roundtrip";
const CLASS_PANIC: &str = "c30-codec-panic";

// ------------------------------------------------------------------ Coq terms

fn cq_header(h: &HunkHeader) -> String {
    format!(
        "(mkHeader {} {} {} {} {})",
        h.old_line_no,
        h.old_size,
        h.new_line_no,
        h.new_size,
        coq_bytes(&h.text)
    )
}
fn cq_modif(m: &Modification) -> String {
    match m {
        Modification::Addition(a) => format!("(MAdd {} {})", coq_bytes(a.line.as_bytes()), a.line_no),
        Modification::Deletion(d) => format!("(MDel {} {})", coq_bytes(d.line.as_bytes()), d.line_no),
        Modification::Context { line, line_no_old, line_no_new } => {
            format!("(MCtx {} {} {})", coq_bytes(line.as_bytes()), line_no_old, line_no_new)
        }
    }
}
fn cq_hunk(h: &Hunk<Modification>) -> String {
    let ls: Vec<String> = h.lines.iter().map(cq_modif).collect();
    format!(
        "(mkHunk {} [{}] ({}, {}) ({}, {}))",
        coq_bytes(h.header.as_bytes()),
        ls.join("; "),
        h.old.start,
        h.old.end,
        h.new.start,
        h.new.end
    )
}
fn cq_content(c: &DiffContent) -> String {
    match c {
        DiffContent::Empty => "CEmpty".into(),
        DiffContent::Binary => "CBinary".into(),
        DiffContent::Plain { hunks, stats, .. } => {
            let hs: Vec<String> = hunks.iter().map(cq_hunk).collect();
            format!("(CPlain [{}] {} {})", hs.join("; "), stats.additions, stats.deletions)
        }
    }
}
fn short(oid: radicle::git::Oid) -> Vec<u8> {
    format!("{:.7}", oid).into_bytes()
}
fn path_bytes(p: &Path) -> Vec<u8> {
    p.display().to_string().into_bytes()
}
fn cq_fheader(h: &FileHeader) -> String {
    match h {
        FileHeader::Added { path, new, .. } => format!(
            "(FAdded {} {} {})",
            coq_bytes(&path_bytes(path)),
            coq_bytes(&short(new.oid)),
            u32::from(new.mode.clone())
        ),
        FileHeader::Deleted { path, old, .. } => format!(
            "(FDeleted {} {} {})",
            coq_bytes(&path_bytes(path)),
            coq_bytes(&short(old.oid)),
            u32::from(old.mode.clone())
        ),
        FileHeader::Modified { path, old, new, .. } => format!(
            "(FModified {} {} {} {} {})",
            coq_bytes(&path_bytes(path)),
            coq_bytes(&short(old.oid)),
            coq_bytes(&short(new.oid)),
            u32::from(old.mode.clone()),
            u32::from(new.mode.clone())
        ),
        FileHeader::Moved { old_path, new_path } => format!(
            "(FMoved {} {})",
            coq_bytes(&path_bytes(old_path)),
            coq_bytes(&path_bytes(new_path))
        ),
        FileHeader::Copied { .. } => "FCopied".into(),
    }
}

/// What a codec call did: value, error class, or panic site.
enum Out<T> {
    Ok(T),
    Err(&'static str),
    Panic(u32),
    Other(String),
}
fn call<T>(f: impl FnOnce() -> Result<T, UdError>) -> Out<T> {
    match catch(AssertUnwindSafe(f)) {
        Ok(Ok(v)) => Out::Ok(v),
        Ok(Err(UdError::UnexpectedEof)) => Out::Err("EEof"),
        Ok(Err(UdError::Syntax(_))) => Out::Err("ESyntax"),
        Ok(Err(UdError::ParseInt(_))) => Out::Err("EParseInt"),
        Ok(Err(e)) => Out::Other(format!("error outside the model: {e}")),
        Err(p) => {
            if p.contains("attempt to add with overflow") {
                Out::Panic(1)
            } else if p.contains("DiffContent::Binary") {
                Out::Panic(4)
            } else if p.contains("not yet implemented") {
                Out::Panic(3)
            } else {
                Out::Other(format!("panic outside the model: {p}"))
            }
        }
    }
}
fn cq_out<T>(o: &Out<T>, f: impl Fn(&T) -> String) -> Option<String> {
    match o {
        Out::Ok(v) => Some(format!("(Ok {})", f(v))),
        Out::Err(e) => Some(format!("(Err {})", e)),
        Out::Panic(s) => Some(format!("(Panic {})", s)),
        Out::Other(_) => None,
    }
}

// decoders on a byte cursor, returning the unread input as well
fn dec_header(input: &[u8]) -> Out<(HunkHeader, Vec<u8>)> {
    call(|| {
        let mut r: &[u8] = input;
        let h = HunkHeader::decode(&mut r)?;
        Ok((h, r.to_vec()))
    })
}
fn dec_modif(input: &[u8]) -> Out<(Modification, Vec<u8>)> {
    call(|| {
        let mut r: &[u8] = input;
        let h = Modification::decode(&mut r)?;
        Ok((h, r.to_vec()))
    })
}
fn dec_hunk(input: &[u8]) -> Out<(Hunk<Modification>, Vec<u8>)> {
    call(|| {
        let mut r: &[u8] = input;
        let h = Hunk::<Modification>::decode(&mut r)?;
        Ok((h, r.to_vec()))
    })
}
fn dec_content(input: &[u8]) -> Out<DiffContent> {
    call(|| DiffContent::from_bytes(input))
}

/// Record a correspondence case, or a failure if the implementation did
/// something the model has no constructor for.
fn corr<T>(run: &mut Run, id: &str, what: &str, input: String, o: &Out<T>, obs: &str, f: impl Fn(&T) -> String) {
    match cq_out(o, f) {
        Some(t) => {
            run.case(id, input, format!("({} {})", obs, t));
            run.tally(&format!("corr:{}", what));
            match o {
                Out::Err(e) => run.tally(&format!("corr:{}:{}", what, e)),
                Out::Panic(s) => run.tally(&format!("corr:{}:Panic{}", what, s)),
                _ => {}
            }
        }
        None => {
            if let Out::Other(msg) = o {
                run.fail(id, CLASS_PANIC, format!("{what}: {msg}"), json!({"model_input": input}));
            }
        }
    }
}

// ------------------------------------------------------------------ generators

const WORDS: &[&str] = &[
    "alpha", "beta", "gamma", "delta", "lorem", "ipsum", "dolor", "sit", "amet", "x", "y", "foo", "bar", "baz", "qux",
    "0", "42", "the", "quick", "brown", "fox",
];
const CODE: &[&str] = &[
    "fn main() {", "    let x = 1;", "}", "impl Foo for Bar {", "pub struct X;", "    return;", "def f(self):",
    "class A:", "int main(void)", "{", "static int helper(int a, int b)", "    if (a > b) {", "    }", "#include <stdio.h>",
    "$var = 1;", "_private()",
];
const TRAIL: &[&str] = &[
    " ", "  ", "\t", " \t ", "\u{a0}", "\u{3000}", "\u{2003}", "\u{c}", "\r", " \r", "\u{b}", "\u{85}", "\u{2028}", "\u{1680}",
    "\u{205f}", "\u{202f}", "    ",
];
const SPECIAL: &[&str] = &[
    "+x", "-x", "--- a/x", "+++ b/x", "@@ -1,2 +3,4 @@ foo", "\\ No newline at end of file", "diff --git a/x b/x",
    "index 0000000..1111111 100644", " leading space", "@@", "+", "-", "++", "--", "@@ -0,0 +1 @@", "\\", "new file mode 100644",
    "rename from a", "Binary files a/x and b/x differ", "GIT binary patch", "@@ -1 +1 @@ +x",
    // content that, behind its +/-/space origin character, reads as patch or mail syntax
    // ("-- " is the format-patch signature separator, "--- "/"+++ " file headers); added after
    // a seeded change (decoder cutting the text at "\n-- \n") was missed
    "- ", "-- ", "+ ", "++ ", "--  ", "- [ ] ", "* ", "> ", "From ", ">From x", "---", "+++", "-- \t", "2.39.2",
];
const UNI: &[&str] = &["h\u{e9}llo w\u{f6}rld", "\u{6f22}\u{5b57}\u{304b}\u{306a}", "\u{1f642} emoji", "x\u{301}y", "\u{feff}bom", "\u{e9}"];
const CTRL: &[&str] = &["a\u{1}b", "tab\there", "x\ry", "\u{1b}[31mred", "a\u{7f}"];

fn pk(r: &mut Rng, xs: &[&'static str]) -> &'static str {
    xs[r.below(xs.len() as u64) as usize]
}

fn words(r: &mut Rng, n: u64) -> String {
    let mut s = String::new();
    for i in 0..n {
        if i > 0 {
            s.push(' ');
        }
        s.push_str(pk(r, WORDS));
    }
    s
}

/// One line (without terminator). Returns (bytes, flavour).
fn gen_line(r: &mut Rng, allow_non_utf8: bool) -> Vec<u8> {
    match r.below(100) {
        0..=24 => {
            let k = 1 + r.below(5);
            words(r, k).into_bytes()
        }
        25..=39 => pk(r, CODE).as_bytes().to_vec(),
        40..=54 => {
            let k = 1 + r.below(3);
            let base = if r.bool() { words(r, k) } else { pk(r, CODE).to_string() };
            format!("{}{}", base, pk(r, TRAIL)).into_bytes()
        }
        55..=61 => {
            let mut s = String::new();
            for _ in 0..1 + r.below(3) {
                s.push_str(pk(r, TRAIL));
            }
            s.into_bytes()
        }
        62..=71 => pk(r, SPECIAL).as_bytes().to_vec(),
        72..=78 => vec![],
        79..=84 => pk(r, UNI).as_bytes().to_vec(),
        85..=91 => {
            // long line; code-like start so that it is picked as function context
            let mut s = String::from(*r.pick(&["fn ", "static void ", "class ", "", "def "]));
            let target = *r.pick(&[70usize, 76, 77, 78, 79, 80, 81, 82, 83, 90, 130, 300, 300, 1200, 1200, 6000]);
            while s.len() < target {
                match r.below(6) {
                    0 => s.push(' '),
                    1 => s.push_str(pk(r, UNI)),
                    _ => s.push_str(pk(r, WORDS)),
                }
            }
            if r.chance(1, 3) {
                s.push_str(pk(r, TRAIL));
            }
            s.into_bytes()
        }
        92..=96 => pk(r, CTRL).as_bytes().to_vec(),
        _ => {
            if allow_non_utf8 {
                r.pick(&[&b"caf\xe9"[..], &b"\xff\xfe"[..], &b"ok \xc3"[..], &b"\x80 "[..]]).to_vec()
            } else {
                words(r, 2).into_bytes()
            }
        }
    }
}

fn join(lines: &[Vec<u8>], final_newline: bool) -> Vec<u8> {
    let mut out = vec![];
    for (i, l) in lines.iter().enumerate() {
        out.extend_from_slice(l);
        if i + 1 < lines.len() || final_newline {
            out.push(b'\n');
        }
    }
    out
}

fn gen_lines(r: &mut Rng, non_utf8: bool) -> Vec<Vec<u8>> {
    let n = match r.below(10) {
        0 => 0,
        1..=6 => 1 + r.below(12),
        7..=8 => 10 + r.below(40),
        _ => 60 + r.below(120),
    };
    (0..n).map(|_| gen_line(r, non_utf8)).collect()
}

fn mutate(r: &mut Rng, old: &[Vec<u8>], non_utf8: bool, small: bool) -> Vec<Vec<u8>> {
    let mut new = old.to_vec();
    let edits = if small { 1 } else { 1 + r.below(5) };
    for _ in 0..edits {
        let len = new.len();
        match r.below(6) {
            0 if len > 0 => {
                let i = r.below(len as u64) as usize;
                new[i] = gen_line(r, non_utf8);
            }
            1 => {
                let i = r.below(len as u64 + 1) as usize;
                let k = 1 + r.below(3);
                for _ in 0..k {
                    new.insert(i, gen_line(r, non_utf8));
                }
            }
            2 if len > 0 => {
                let i = r.below(len as u64) as usize;
                new.remove(i);
            }
            3 if len > 0 => {
                // whitespace-only change of one line
                let i = r.below(len as u64) as usize;
                if r.bool() {
                    new[i].extend_from_slice(pk(r, TRAIL).as_bytes());
                } else {
                    while matches!(new[i].last(), Some(b' ') | Some(b'\t') | Some(b'\r')) {
                        new[i].pop();
                    }
                    new[i].push(b'!');
                }
            }
            4 if len > 1 => {
                let i = r.below(len as u64 - 1) as usize;
                new.swap(i, i + 1);
            }
            _ => {
                new.push(gen_line(r, non_utf8));
            }
        }
    }
    new
}

const PATHS: &[&str] = &[
    "a.txt", "b.txt", "README.md", "src/lib.rs", "src/main.rs", "src/git/diff.rs", "docs/guide/intro.md", "Makefile",
    "x", "dir/x", "c.c", "mod/a.py",
];
const ODD_PATHS: &[&str] = &[
    "with space.txt", "dir with space/f.txt", "quote\"q.txt", "uni/\u{e9}t\u{e9}.txt", "back\\slash", "tab\tname",
    "-dash", "b/x", "a/b/a", "trailing ", "\u{6f22}\u{5b57}.md", "semi;colon", "a b/c d.txt", " lead.txt", "dir /x", "x\ny", "a\rb", "\u{fc} ", "\"", "b/b/x", "a b", "x b/x", "tab\t", "\u{a0}nb", "dev/null", "sp  sp",
];

#[derive(Clone, Debug)]
struct Entry {
    path: String,
    content: Vec<u8>,
    mode: i32,
}

fn write_tree<'a>(repo: &'a git2::Repository, entries: &[Entry]) -> git2::Oid {
    // group by first path component
    let mut files: Vec<(&str, &Entry)> = vec![];
    let mut dirs: std::collections::BTreeMap<&str, Vec<Entry>> = Default::default();
    for e in entries {
        match e.path.split_once('/') {
            None => files.push((&e.path, e)),
            Some((d, rest)) => dirs.entry(d).or_default().push(Entry { path: rest.to_string(), content: e.content.clone(), mode: e.mode }),
        }
    }
    let mut tb = repo.treebuilder(None).unwrap();
    for (name, e) in files {
        let oid = repo.blob(&e.content).unwrap();
        tb.insert(name, oid, e.mode).unwrap();
    }
    for (d, es) in dirs {
        let oid = write_tree(repo, &es);
        tb.insert(d, oid, 0o040000).unwrap();
    }
    tb.write().unwrap()
}

#[derive(Default)]
struct Scope {
    no_final_newline: bool,
    non_utf8: bool,
    binary: bool,
    odd_path: bool,
}

fn scan(scope: &mut Scope, content: &[u8]) {
    if !content.is_empty() && content.last() != Some(&b'\n') {
        scope.no_final_newline = true;
    }
    if std::str::from_utf8(content).is_err() {
        scope.non_utf8 = true;
    }
    if content.contains(&0) {
        scope.binary = true;
    }
}

fn trailing_ws(line: &[u8]) -> bool {
    let s = String::from_utf8_lossy(line);
    let body = s.strip_suffix('\n').unwrap_or(&s);
    body.trim_end() != body
}

fn content_of(f: &FileDiff) -> &DiffContent {
    match f {
        FileDiff::Added(x) => &x.diff,
        FileDiff::Deleted(x) => &x.diff,
        FileDiff::Modified(x) => &x.diff,
        FileDiff::Moved(x) => &x.diff,
        FileDiff::Copied(x) => &x.diff,
    }
}
fn kind_of(f: &FileDiff) -> &'static str {
    match f {
        FileDiff::Added(_) => "added",
        FileDiff::Deleted(_) => "deleted",
        FileDiff::Modified(_) => "modified",
        FileDiff::Moved(_) => "moved",
        FileDiff::Copied(_) => "copied",
    }
}
fn hunks_of(c: &DiffContent) -> Vec<&Hunk<Modification>> {
    match c {
        DiffContent::Plain { hunks, .. } => hunks.iter().collect(),
        _ => vec![],
    }
}

fn same_file(o: &DiffFile, d: &DiffFile) -> bool {
    // the encoder prints 7 hex digits of the blob id (by design)
    o.mode == d.mode && format!("{:.7}", o.oid) == format!("{:.7}", d.oid)
}

#[derive(Clone, Copy, PartialEq, Eq, Debug)]
enum DiffKind {
    /// kind, path, mode or blob id
    Meta,
    /// a header or line that differs only in whitespace at its end
    TrailingWs,
    /// anything else
    Other,
}

/// `a` and `b` differ, and only in the whitespace before the line terminator.
fn ws_only_difference(a: &[u8], b: &[u8]) -> bool {
    let (a, b) = (String::from_utf8_lossy(a), String::from_utf8_lossy(b));
    a != b && a.trim_end() == b.trim_end()
}

/// The paths the encoder would have to quote (it prints them verbatim; the TODO in
/// `FileHeader::from`): a path that ends in whitespace (libgit2 trims it) or
/// contains a newline (libgit2 rejects the header).
fn path_needs_quoting(f: &FileDiff) -> bool {
    let odd = |p: &Path| {
        let s = p.to_string_lossy();
        s.trim_end() != s || s.contains('\n')
    };
    match f {
        FileDiff::Moved(m) => odd(&m.old_path) || odd(&m.new_path),
        FileDiff::Copied(m) => odd(&m.old_path) || odd(&m.new_path),
        _ => odd(f.path()),
    }
}

/// Compare an original file diff with its decoding. Returns the list of differences.
fn compare_file(o: &FileDiff, d: &FileDiff) -> Vec<(DiffKind, String)> {
    let mut diffs = vec![];
    let meta_ok = match (o, d) {
        (FileDiff::Added(a), FileDiff::Added(b)) => a.path == b.path && same_file(&a.new, &b.new),
        (FileDiff::Deleted(a), FileDiff::Deleted(b)) => a.path == b.path && same_file(&a.old, &b.old),
        (FileDiff::Modified(a), FileDiff::Modified(b)) => {
            a.path == b.path && same_file(&a.old, &b.old) && same_file(&a.new, &b.new)
        }
        (FileDiff::Moved(a), FileDiff::Moved(b)) => a.old_path == b.old_path && a.new_path == b.new_path,
        _ => false,
    };
    if !meta_ok {
        diffs.push((DiffKind::Meta, format!("kind/path/mode/oid differ: {} {:?} vs {} {:?}", kind_of(o), o.path(), kind_of(d), d.path())));
        return diffs;
    }
    let (co, cd) = (content_of(o), content_of(d));
    let (ho, hd) = (hunks_of(co), hunks_of(cd));
    if std::mem::discriminant(co) != std::mem::discriminant(cd) {
        diffs.push((DiffKind::Other, format!("content kind differs for {:?}", o.path())));
    }
    if co.eof() != cd.eof() {
        diffs.push((DiffKind::Other, format!("eof marker differs for {:?}: {:?} vs {:?}", o.path(), co.eof(), cd.eof())));
    }
    if ho.len() != hd.len() {
        diffs.push((DiffKind::Other, format!("{:?}: {} hunks vs {}", o.path(), ho.len(), hd.len())));
        return diffs;
    }
    for (i, (a, b)) in ho.iter().zip(hd.iter()).enumerate() {
        if a.header != b.header {
            let k = if ws_only_difference(a.header.as_bytes(), b.header.as_bytes()) { DiffKind::TrailingWs } else { DiffKind::Other };
            diffs.push((
                k,
                format!("{:?} hunk {}: header {:?} decoded as {:?}", o.path(), i, a.header.from_utf8_lossy(), b.header.from_utf8_lossy()),
            ));
        }
        if a.old != b.old || a.new != b.new {
            diffs.push((DiffKind::Other, format!("{:?} hunk {}: ranges {:?}/{:?} vs {:?}/{:?}", o.path(), i, a.old, a.new, b.old, b.new)));
        }
        if a.lines.len() != b.lines.len() {
            diffs.push((DiffKind::Other, format!("{:?} hunk {}: {} lines vs {}", o.path(), i, a.lines.len(), b.lines.len())));
        } else {
            for (j, (x, y)) in a.lines.iter().zip(b.lines.iter()).enumerate() {
                if x != y {
                    let same_shape = match (x, y) {
                        (Modification::Addition(p), Modification::Addition(q)) => p.line_no == q.line_no,
                        (Modification::Deletion(p), Modification::Deletion(q)) => p.line_no == q.line_no,
                        (
                            Modification::Context { line_no_old: a1, line_no_new: a2, .. },
                            Modification::Context { line_no_old: b1, line_no_new: b2, .. },
                        ) => a1 == b1 && a2 == b2,
                        _ => false,
                    };
                    let k = if same_shape && ws_only_difference(mod_line(x), mod_line(y)) { DiffKind::TrailingWs } else { DiffKind::Other };
                    diffs.push((k, format!("{:?} hunk {} line {}: {:?} decoded as {:?}", o.path(), i, j, x, y)));
                }
            }
        }
    }
    diffs
}

/// The finding class of a list of differences for file `o`.
fn classify(o: &FileDiff, ds: &[(DiffKind, String)]) -> &'static str {
    if matches!(o, FileDiff::Moved(_)) {
        CLASS_MOVED
    } else if ds.iter().all(|d| d.0 == DiffKind::Meta) && path_needs_quoting(o) {
        CLASS_PATH
    } else if ds.iter().all(|d| d.0 == DiffKind::TrailingWs) {
        CLASS_WS
    } else {
        CLASS_DIFF
    }
}
fn describe(ds: &[(DiffKind, String)]) -> String {
    let v: Vec<&str> = ds.iter().take(4).map(|d| d.1.as_str()).collect();
    v.join("; ")
}

fn has_trailing_ws(f: &FileDiff) -> bool {
    hunks_of(content_of(f)).iter().any(|h| {
        trailing_ws(h.header.as_bytes()) || h.lines.iter().any(|l| trailing_ws(mod_line(l)))
    })
}

fn mod_line(m: &Modification) -> &[u8] {
    match m {
        Modification::Addition(a) => a.line.as_bytes(),
        Modification::Deletion(a) => a.line.as_bytes(),
        Modification::Context { line, .. } => line.as_bytes(),
    }
}

fn hunk_utf8(h: &Hunk<Modification>) -> bool {
    std::str::from_utf8(h.header.as_bytes()).is_ok() && h.lines.iter().all(|l| std::str::from_utf8(mod_line(l)).is_ok())
}

struct Budget(usize);

fn tree_case(run: &mut Run, repo: &git2::Repository, id: &str, r: &mut Rng) {
    run.eval();
    // ---- generate the two trees
    let non_utf8 = r.chance(1, 25);
    let nfiles = 1 + r.below(4);
    let mut old: Vec<Entry> = vec![];
    let mut new: Vec<Entry> = vec![];
    let mut scope = Scope::default();
    let mut used: Vec<String> = vec![];
    let mut want_kinds: Vec<&str> = vec![];
    let pick_path = |r: &mut Rng, used: &mut Vec<String>, scope: &mut Scope| -> String {
        for _ in 0..50 {
            let odd = r.chance(1, 12);
            let p = if odd { pk(r, ODD_PATHS).to_string() } else { pk(r, PATHS).to_string() };
            // no path may be a directory prefix of another
            if used.iter().any(|u| u == &p || u.starts_with(&format!("{}/", p)) || p.starts_with(&format!("{}/", u))) {
                continue;
            }
            if odd {
                scope.odd_path = true;
            }
            used.push(p.clone());
            return p;
        }
        let p = format!("gen{}.txt", used.len());
        used.push(p.clone());
        p
    };
    for _ in 0..nfiles {
        let final_nl_old = !r.chance(1, 12);
        let final_nl_new = if r.chance(1, 15) { !final_nl_old } else { final_nl_old };
        let lines = gen_lines(r, non_utf8);
        let exec = r.chance(1, 10);
        let mode = if exec { 0o100755 } else { 0o100644 };
        let mut content = join(&lines, final_nl_old);
        if r.chance(1, 60) {
            content.push(0);
            content.extend_from_slice(b"bin\n");
        }
        match r.below(20) {
            0..=8 => {
                let p = pick_path(r, &mut used, &mut scope);
                let nl = mutate(r, &lines, non_utf8, false);
                let c2 = join(&nl, final_nl_new);
                scan(&mut scope, &content);
                scan(&mut scope, &c2);
                old.push(Entry { path: p.clone(), content, mode });
                new.push(Entry { path: p, content: c2, mode });
                want_kinds.push("modified");
            }
            9..=10 => {
                let p = pick_path(r, &mut used, &mut scope);
                scan(&mut scope, &content);
                new.push(Entry { path: p, content, mode });
                want_kinds.push("added");
            }
            11..=12 => {
                let p = pick_path(r, &mut used, &mut scope);
                scan(&mut scope, &content);
                old.push(Entry { path: p, content, mode });
                want_kinds.push("deleted");
            }
            13..=14 => {
                let p = pick_path(r, &mut used, &mut scope);
                let q = pick_path(r, &mut used, &mut scope);
                scan(&mut scope, &content);
                old.push(Entry { path: p, content: content.clone(), mode });
                new.push(Entry { path: q, content, mode });
                want_kinds.push("renamed-exact");
            }
            15 => {
                let p = pick_path(r, &mut used, &mut scope);
                let q = pick_path(r, &mut used, &mut scope);
                let nl = mutate(r, &lines, non_utf8, true);
                let c2 = join(&nl, final_nl_old);
                scan(&mut scope, &content);
                scan(&mut scope, &c2);
                old.push(Entry { path: p, content, mode });
                new.push(Entry { path: q, content: c2, mode });
                want_kinds.push("renamed-changed");
            }
            16..=17 => {
                let p = pick_path(r, &mut used, &mut scope);
                let c2 = if r.bool() { content.clone() } else { join(&mutate(r, &lines, non_utf8, false), final_nl_old) };
                scan(&mut scope, &content);
                scan(&mut scope, &c2);
                old.push(Entry { path: p.clone(), content, mode: 0o100644 });
                new.push(Entry { path: p, content: c2, mode: 0o100755 });
                want_kinds.push("mode-change");
            }
            _ => {
                let p = pick_path(r, &mut used, &mut scope);
                old.push(Entry { path: p.clone(), content: content.clone(), mode });
                new.push(Entry { path: p, content, mode });
                want_kinds.push("unchanged");
            }
        }
    }
    // ---- diff the way the call sites do
    let a = repo.find_tree(write_tree(repo, &old)).unwrap();
    let b = repo.find_tree(write_tree(repo, &new)).unwrap();
    let mut opts = git2::DiffOptions::new();
    let site = r.below(4);
    let site_name = ["surf-repo-diff", "rad-diff", "rad-patch-review", "rad-id"][site as usize];
    match site {
        0 => {}
        1 => {
            opts.patience(true).minimal(true).context_lines(r.below(6) as u32);
        }
        2 => {
            opts.context_lines(*r.pick(&[0u32, 1, 3, 3, 5, 10]));
        }
        _ => {
            opts.context_lines(u32::MAX);
        }
    }
    let mut gd = repo.diff_tree_to_tree(Some(&a), Some(&b), Some(&mut opts)).unwrap();
    let mut fo = git2::DiffFindOptions::new();
    match site {
        0 => {
            fo.renames(true);
            fo.copies(true);
            gd.find_similar(Some(&mut fo)).unwrap();
        }
        1 => {
            fo.exact_match_only(true);
            fo.all(true);
            gd.find_similar(Some(&mut fo)).unwrap();
        }
        2 => {
            fo.exact_match_only(true);
            fo.all(true);
            fo.copies(false);
            gd.find_similar(Some(&mut fo)).unwrap();
        }
        _ => {}
    }
    let diff = match Diff::try_from(gd) {
        Ok(d) => d,
        Err(e) => {
            run.tally("surf-conversion-failed");
            run.note(format!("{id}: radicle-surf could not convert the git diff: {e}"));
            return;
        }
    };
    run.tally(&format!("site:{}", site_name));
    for k in &want_kinds {
        run.tally(&format!("wanted:{}", k));
    }
    let files: Vec<&FileDiff> = diff.files().collect();
    let has_moved = files.iter().any(|f| matches!(f, FileDiff::Moved(_)));
    let has_copied = files.iter().any(|f| matches!(f, FileDiff::Copied(_)));
    let has_binary = files.iter().any(|f| matches!(content_of(f), DiffContent::Binary));
    let eof_missing = files.iter().any(|f| !matches!(content_of(f).eof(), None | Some(EofNewLine::NoneMissing)));
    let out_of_scope = scope.no_final_newline || scope.non_utf8 || eof_missing;
    if scope.no_final_newline || eof_missing {
        run.tally("out-of-scope:file-without-final-newline");
    }
    if scope.non_utf8 {
        run.tally("out-of-scope:non-utf8-content");
    }
    if scope.odd_path {
        run.tally("unusual-path");
    }
    for f in &files {
        run.tally(&format!("file:{}", kind_of(f)));
        let hs = hunks_of(content_of(f));
        run.tally(&format!("hunks-per-file:{}", match hs.len() { 0 => "0", 1 => "1", 2..=3 => "2-3", _ => "4+" }));
        for h in &hs {
            if h.lines.iter().any(|l| trailing_ws(mod_line(l))) {
                run.tally("hunk:with-trailing-whitespace-line");
            }
            if h.lines.iter().any(|l| mod_line(l).ends_with(b"\r\n")) {
                run.tally("hunk:with-crlf-line");
            }
            if h.lines.iter().any(|l| matches!(mod_line(l).first(), Some(b'+') | Some(b'-') | Some(b'@') | Some(b'\\') | Some(b' '))) {
                run.tally("hunk:with-line-starting-with-diff-syntax");
            }
            if h.lines.iter().any(|l| mod_line(l) == b"\n") {
                run.tally("hunk:with-empty-line");
            }
            if h.lines.iter().any(|l| mod_line(l).len() > 200) {
                run.tally("hunk:with-long-line");
            }
            if h.lines.iter().any(|l| !mod_line(l).is_ascii()) {
                run.tally("hunk:with-non-ascii-line");
            }
            let ht = h.header.as_bytes();
            if ht.len() > 20 && !ht.ends_with(b"@@\n") {
                run.tally("hunk:header-with-function-context");
                if trailing_ws(ht) {
                    run.tally("hunk:header-context-with-trailing-whitespace");
                }
                if std::str::from_utf8(ht).is_err() {
                    run.tally("hunk:header-context-not-utf8");
                }
            }
        }
    }

    // ---- excluded by the property: binary and copied (encoder is todo!())
    if has_binary || has_copied || scope.binary {
        run.tally(if has_binary || scope.binary { "excluded:binary" } else { "excluded:copied" });
        // the encoder panics with todo!(); check only that the model agrees
        for f in &files {
            let fh = FileHeader::from(*f);
            let o = call(|| f.to_unified_string().map(|s| s.into_bytes()));
            if matches!(fh, FileHeader::Copied { .. }) || matches!(content_of(f), DiffContent::Binary) {
                if !scope.non_utf8 && hunks_of(content_of(f)).iter().all(|h| hunk_utf8(h)) {
                    corr(run, id, "enc-file", format!("KEncFile {} {}", cq_fheader(&fh), cq_content(content_of(f))), &o, "OBytes", |b| coq_bytes(b));
                }
            }
        }
        return;
    }

    // ---- whole diff: encode, decode, compare
    let mut failures: Vec<(String, String)> = vec![]; // (class, what)
    let enc = call(|| diff.to_unified_string());
    let text = match enc {
        Out::Ok(t) => t,
        Out::Err(e) => {
            run.fail(id, CLASS_DIFF, format!("encoding failed: {e}"), json!({"old": dump(&old), "new": dump(&new), "site": site_name}));
            return;
        }
        Out::Panic(_) | Out::Other(_) => {
            run.fail(id, CLASS_PANIC, "Diff::to_unified_string panicked".to_string(), json!({"old": dump(&old), "new": dump(&new), "site": site_name}));
            return;
        }
    };
    if !has_moved {
        match catch(AssertUnwindSafe(|| Diff::parse(&text))) {
            Ok(Ok(d2)) => {
                let f2: Vec<&FileDiff> = d2.files().collect();
                if f2.len() != files.len() {
                    failures.push((CLASS_DIFF.into(), format!("{} files encoded, {} decoded", files.len(), f2.len())));
                } else {
                    for (o, d) in files.iter().zip(f2.iter()) {
                        let ds = compare_file(o, d);
                        if !ds.is_empty() {
                            failures.push((classify(o, &ds).into(), format!("whole diff: {}", describe(&ds))));
                        }
                    }
                }
            }
            Ok(Err(e)) => {
                let class = if files.iter().any(|f| path_needs_quoting(f)) { CLASS_PATH } else { CLASS_DIFF };
                failures.push((class.into(), format!("whole diff does not decode: {e}")))
            }
            Err(p) => failures.push((CLASS_PANIC.into(), format!("Diff::parse panicked: {p}"))),
        }
    } else {
        run.tally("whole-diff-skipped:contains-renamed-file");
    }

    // ---- file by file
    let mut budget = Budget(3_500);
    for f in &files {
        let fh = FileHeader::from(*f);
        let ftext = match call(|| f.to_unified_string()) {
            Out::Ok(t) => t,
            _ => {
                failures.push((CLASS_PANIC.into(), format!("FileDiff::encode failed for {:?}", f.path())));
                continue;
            }
        };
        let file_in_scope_utf8 = hunks_of(content_of(f)).iter().all(|h| hunk_utf8(h));
        match catch(AssertUnwindSafe(|| Diff::parse(&ftext))) {
            Ok(Ok(d2)) => {
                let f2: Vec<&FileDiff> = d2.files().collect();
                if f2.len() != 1 {
                    let class = if matches!(f, FileDiff::Moved(_)) { CLASS_MOVED } else { CLASS_DIFF };
                    failures.push((class.into(), format!("{:?}: one file encoded, {} decoded", f.path(), f2.len())));
                } else {
                    let ds = compare_file(f, f2[0]);
                    if !ds.is_empty() {
                        failures.push((classify(f, &ds).into(), describe(&ds)));
                    } else {
                        run.tally(&format!("file-roundtrip-ok:{}", kind_of(f)));
                    }
                }
            }
            Ok(Err(e)) => {
                let class = if matches!(f, FileDiff::Moved(_)) {
                    CLASS_MOVED
                } else if path_needs_quoting(f) {
                    CLASS_PATH
                } else {
                    CLASS_DIFF
                };
                failures.push((class.into(), format!("{} file {:?} does not decode: {e}", kind_of(f), f.path())));
            }
            Err(p) => failures.push((CLASS_PANIC.into(), format!("Diff::parse panicked: {p}"))),
        }
        // model: file header + content -> text
        if std::str::from_utf8(&path_bytes(f.path())).is_ok() {
            let o = call(|| fh.to_unified_string().map(|s| s.into_bytes()));
            corr(run, id, "enc-file-header", format!("KEncFHeader {}", cq_fheader(&fh)), &o, "OBytes", |b| coq_bytes(b));
        }
        if file_in_scope_utf8 && !scope.non_utf8 && ftext.len() < 700 && budget.0 > ftext.len() * 2 {
            budget.0 -= ftext.len() * 2;
            let o: Out<Vec<u8>> = Out::Ok(ftext.clone().into_bytes());
            corr(run, id, "enc-file", format!("KEncFile {} {}", cq_fheader(&fh), cq_content(content_of(f))), &o, "OBytes", |b| coq_bytes(b));
        }

        // ---- hunk by hunk: the Rust decoder, and the model
        for h in hunks_of(content_of(f)) {
            let utf8 = hunk_utf8(h);
            if !utf8 {
                run.tally("hunk:not-utf8 (not sent to the model)");
            }
            let ht = match call(|| h.to_unified_string()) {
                Out::Ok(t) => t,
                _ => {
                    failures.push((CLASS_PANIC.into(), "Hunk::encode failed".into()));
                    continue;
                }
            };
            // header codec
            match HunkHeader::try_from(h) {
                Ok(hh) => {
                    let again = hh.to_unified_string().unwrap_or_default();
                    if again.as_bytes() != h.header.as_bytes() {
                        if utf8 {
                            failures.push((
                                if ws_only_difference(h.header.as_bytes(), again.as_bytes()) { CLASS_WS.into() } else { CLASS_HEADER.into() },
                                format!("header {:?} parsed and printed as {:?}", h.header.from_utf8_lossy(), again),
                            ));
                        }
                    } else {
                        run.tally("header:libgit2-line == encode(decode(line))");
                    }
                    match HunkHeader::parse(&again) {
                        Ok(hh2) if hh2 == hh => {}
                        other => failures.push((CLASS_HEADER.into(), format!("HunkHeader {:?} encoded as {:?} decodes as {:?}", hh, again, other.ok()))),
                    }
                    if utf8 && budget.0 > 400 {
                        budget.0 -= 400;
                        let o: Out<Vec<u8>> = Out::Ok(again.clone().into_bytes());
                        corr(run, id, "enc-header", format!("KEncHeader {}", cq_header(&hh)), &o, "OBytes", |b| coq_bytes(b));
                        let o = dec_header(h.header.as_bytes());
                        corr(run, id, "dec-header", format!("KDecHeader {}", coq_bytes(h.header.as_bytes())), &o, "OHeader", |(x, rest)| {
                            format!("({}, {})", cq_header(x), coq_bytes(rest))
                        });
                    }
                }
                Err(e) => {
                    if utf8 {
                        failures.push((CLASS_HEADER.into(), format!("header {:?} does not parse: {e}", h.header.from_utf8_lossy())));
                    }
                }
            }
            // hunk codec (Rust decoder)
            let o = dec_hunk(ht.as_bytes());
            match &o {
                Out::Ok((h2, rest)) => {
                    let mut ds = vec![];
                    let mut ws_only = true;
                    if h2.header != h.header {
                        ws_only &= ws_only_difference(h.header.as_bytes(), h2.header.as_bytes());
                        ds.push(format!("header {:?} decoded as {:?}", h.header.from_utf8_lossy(), h2.header.from_utf8_lossy()));
                    }
                    if h2.lines != h.lines {
                        if h2.lines.len() != h.lines.len() {
                            ws_only = false;
                        } else {
                            for (x, y) in h.lines.iter().zip(h2.lines.iter()) {
                                if x != y {
                                    ws_only &= std::mem::discriminant(x) == std::mem::discriminant(y) && ws_only_difference(mod_line(x), mod_line(y));
                                    ds.push(format!("line {:?} decoded as {:?}", x, y));
                                }
                            }
                        }
                        ds.truncate(4);
                    }
                    if !rest.is_empty() {
                        ws_only = false;
                        ds.push("input left over".to_string());
                    }
                    if h2.old != h.old || h2.new != h.new {
                        // HunkHeader::old_line_range is start..start+size+1, radicle-surf's is start..start+size
                        run.tally("hunk:decoded-ranges-one-longer-than-libgit2's");
                    }
                    if ds.is_empty() {
                        run.tally("hunk-roundtrip-ok");
                    } else if utf8 && !out_of_scope {
                        let class = if ws_only { CLASS_WS } else { CLASS_HUNK };
                        failures.push((class.into(), format!("Hunk::decode(encode(h)) != h: {}", ds.join("; "))));
                    }
                }
                Out::Err(e) => {
                    if utf8 && !out_of_scope {
                        failures.push((CLASS_HUNK.into(), format!("Hunk::decode(encode(h)) fails with {e}")));
                    }
                }
                _ => failures.push((CLASS_PANIC.into(), "Hunk::decode panicked on an encoded hunk".into())),
            }
            if utf8 && budget.0 > ht.len() * 3 {
                budget.0 -= ht.len() * 3;
                let oe: Out<Vec<u8>> = Out::Ok(ht.clone().into_bytes());
                corr(run, id, "enc-hunk", format!("KEncHunk {}", cq_hunk(h)), &oe, "OBytes", |b| coq_bytes(b));
                corr(run, id, "dec-hunk", format!("KDecHunk {}", coq_bytes(ht.as_bytes())), &o, "OHunk", |(x, rest)| {
                    format!("({}, {})", cq_hunk(x), coq_bytes(rest))
                });
            }
        }
        // content codec (Rust decoder over all hunks of the file)
        if file_in_scope_utf8 && hunks_of(content_of(f)).len() != 1 {
            if let Out::Ok(ct) = call(|| content_of(f).to_unified_string()) {
                if budget.0 > ct.len() * 2 {
                    budget.0 -= ct.len() * 2;
                    let o = dec_content(ct.as_bytes());
                    corr(run, id, "dec-content", format!("KDecContent {}", coq_bytes(ct.as_bytes())), &o, "OContent", cq_content);
                }
            }
        }
    }

    // ---- verdict for this case
    let mut reported = std::collections::BTreeSet::new();
    for (class, what) in failures {
        if out_of_scope && class != CLASS_PANIC {
            run.tally(&format!("out-of-scope-difference:{}", class));
            continue;
        }
        if reported.insert(class.clone()) {
            run.fail(
                id,
                &class,
                what,
                json!({"old": dump(&old), "new": dump(&new), "site": site_name, "encoded": text}),
            );
        }
    }
    if !out_of_scope {
        run.tally("in-scope-diff");
        let interesting = files.iter().any(|f| has_trailing_ws(f))
            || files.iter().any(|f| hunks_of(content_of(f)).iter().any(|h| h.lines.iter().any(|l| matches!(mod_line(l).first(), Some(b'+') | Some(b'-') | Some(b'@') | Some(b'\\')))));
        if interesting {
            run.nontrivial(format!("{:x}", fxhash(text.as_bytes())));
        }
    }
}

fn fxhash(b: &[u8]) -> u64 {
    let mut h: u64 = 0xcbf29ce484222325;
    for x in b {
        h ^= *x as u64;
        h = h.wrapping_mul(0x100000001b3);
    }
    h
}

fn dump(es: &[Entry]) -> Value {
    Value::Array(
        es.iter()
            .map(|e| json!({"path": e.path, "mode": format!("{:o}", e.mode), "content": String::from_utf8_lossy(&e.content), "bytes": e.content}))
            .collect(),
    )
}

// ------------------------------------------------------------------ stream 1: codec

const NUMS: &[&str] = &[
    "0", "1", "2", "9", "10", "99", "100", "4294967294", "4294967295", "4294967296", "99999999999999999999", "+5", "-5", "",
    " 5", "5 ", "05", "007", "+", "+0", "++1", "1_000", "0x10", "\u{663}", "4294967290", "2147483648", "1e3",
];

fn gen_num(r: &mut Rng) -> String {
    if r.chance(2, 3) {
        match r.below(4) {
            0 => r.below(12).to_string(),
            1 => r.below(100000).to_string(),
            2 => (4294967295u64 - r.below(4)).to_string(),
            _ => r.next().to_string(),
        }
    } else {
        pk(r, NUMS).to_string()
    }
}

fn gen_header_text(r: &mut Rng) -> String {
    let mut s = String::new();
    s.push_str(*r.pick(&["@@ -", "@@ -", "@@ -", "@@ -", "@@-", "@ -", "", "@@ +", " @@ -"]));
    s.push_str(&gen_num(r));
    if r.chance(2, 3) {
        s.push(',');
        s.push_str(&gen_num(r));
    }
    s.push_str(*r.pick(&[" +", " +", " +", " +", "+", " ", "  +", " -"]));
    s.push_str(&gen_num(r));
    if r.chance(2, 3) {
        s.push(',');
        s.push_str(&gen_num(r));
    }
    if r.chance(1, 12) {
        s.push_str(",7");
    }
    s.push_str(*r.pick(&[" @@", " @@", " @@", " @@", "@@", " @", "", " @@ @@"]));
    match r.below(8) {
        0 => {}
        1 => s.push(' '),
        2 => s.push_str("  two spaces"),
        3 => s.push_str(" fn f() { +1 @@ }"),
        4 => s.push_str("no space"),
        5 => s.push_str(" trailing  "),
        6 => s.push_str(" \u{e9}t\u{e9} \u{a0}"),
        _ => s.push_str(" ctx"),
    }
    match r.below(8) {
        0 => {}
        1 => s.push_str("\r\n"),
        2 => s.push_str("\n\n"),
        _ => s.push('\n'),
    }
    s
}

fn gen_body(r: &mut Rng) -> String {
    let mut s = String::new();
    let n = r.below(7);
    for _ in 0..n {
        match r.below(12) {
            0..=2 => s.push('+'),
            3..=5 => s.push('-'),
            6..=8 => s.push(' '),
            9 => {}
            10 => s.push_str(*r.pick(&["\\", "@", "x", "\u{e9}", "\t"])),
            _ => s.push_str("@@ -1 +1 @@"),
        }
        let l = gen_line(r, false);
        s.push_str(&String::from_utf8_lossy(&l));
        if !r.chance(1, 15) {
            s.push('\n');
        }
    }
    s
}

fn rand_mods(r: &mut Rng, hh: &HunkHeader, consistent: bool) -> Vec<Modification> {
    // a line list that matches the header's counts (or not)
    let (mut o, mut n) = (0u32, 0u32);
    let mut out = vec![];
    let mut guard = 0;
    while (o < hh.old_size || n < hh.new_size) && guard < 40 {
        guard += 1;
        let mut l = gen_line(r, false);
        if l.contains(&b'\n') {
            l.retain(|c| *c != b'\n');
        }
        if l.len() > 160 {
            let mut k = 160;
            while std::str::from_utf8(&l[..k]).is_err() {
                k -= 1;
            }
            l.truncate(k);
        }
        if !r.chance(1, 20) {
            l.push(b'\n');
        }
        let choice = if o < hh.old_size && n < hh.new_size { r.below(3) } else if o < hh.old_size { 1 } else { 0 };
        match choice {
            0 => {
                out.push(Modification::addition(l, hh.new_line_no.wrapping_add(n)));
                n += 1;
            }
            1 => {
                out.push(Modification::deletion(l, hh.old_line_no.wrapping_add(o)));
                o += 1;
            }
            _ => {
                out.push(Modification::context(l, hh.old_line_no.wrapping_add(o), hh.new_line_no.wrapping_add(n)));
                o += 1;
                n += 1;
            }
        }
    }
    if !consistent && !out.is_empty() {
        match r.below(3) {
            0 => {
                out.pop();
            }
            1 => out.push(Modification::addition(b"extra\n".to_vec(), 7)),
            _ => {
                let i = r.below(out.len() as u64) as usize;
                out[i] = Modification::context(b"swapped\n".to_vec(), 1, 1);
            }
        }
    }
    out
}

fn codec_case(run: &mut Run, id: &str, r: &mut Rng) {
    run.eval();
    match r.below(13) {
        12 => {
            // str::trim_end (Unicode White_Space), which the encoder used before the fix
            let mut l = String::from_utf8_lossy(&gen_line(r, false)).to_string();
            for _ in 0..r.below(4) {
                l.push_str(pk(r, TRAIL));
            }
            if r.bool() {
                l.push('\n');
            }
            if r.chance(1, 6) {
                l.push_str(pk(r, &["\u{2000}", "\u{200a}", "\u{200b}", "\u{2029}", "\u{180e}", "\u{feff}", "\u{1f}", "\u{1c}", "\u{e2}\u{80}"]));
            }
            let t = l.trim_end().to_string();
            run.case(id, format!("KTrimEnd {}", coq_bytes(l.as_bytes())), format!("(OBytes (Ok {}))", coq_bytes(t.as_bytes())));
            run.tally(if t.len() < l.len() { "corr:trim-end:trimmed" } else { "corr:trim-end:unchanged" });
        }
        0 => {
            let s = gen_num(r);
            let got: Option<u32> = s.parse::<u32>().ok();
            run.case(id, format!("KParseU32 {}", coq_bytes(s.as_bytes())), format!("(OOptN {})", got.coq()));
            run.tally(if got.is_some() { "corr:parse-u32:ok" } else { "corr:parse-u32:err" });
        }
        1..=2 => {
            let s = gen_header_text(r);
            let tail = if r.chance(1, 3) { gen_body(r) } else { String::new() };
            let input = format!("{s}{tail}");
            let o = dec_header(input.as_bytes());
            corr(run, id, "dec-header", format!("KDecHeader {}", coq_bytes(input.as_bytes())), &o, "OHeader", |(x, rest)| {
                format!("({}, {})", cq_header(x), coq_bytes(rest))
            });
        }
        3 => {
            // header values -> text -> header
            let small = |r: &mut Rng| -> u32 {
                match r.below(5) {
                    0 => r.below(3) as u32,
                    1 => u32::MAX - r.below(3) as u32,
                    2 => r.next() as u32,
                    _ => r.below(5000) as u32,
                }
            };
            let text: Vec<u8> = match r.below(6) {
                0 => vec![],
                1 => b" lead".to_vec(),
                2 => b"trail  ".to_vec(),
                3 => "fn \u{e9}() @@ -1 +1 @@".as_bytes().to_vec(),
                4 => b" ".to_vec(),
                _ => String::from_utf8_lossy(&gen_line(r, false)).replace('\n', "").into_bytes(),
            };
            let hh = HunkHeader { old_line_no: small(r), old_size: small(r), new_line_no: small(r), new_size: small(r), text };
            let enc = call(|| hh.to_unified_string().map(|s| s.into_bytes()));
            corr(run, id, "enc-header", format!("KEncHeader {}", cq_header(&hh)), &enc, "OBytes", |b| coq_bytes(b));
            if let Out::Ok(t) = &enc {
                match HunkHeader::from_bytes(t) {
                    Ok(h2) if h2 == hh => run.tally("header-roundtrip-ok"),
                    other => run.fail(id, CLASS_HEADER, format!("HunkHeader {:?} encodes to {:?} and decodes to {:?}", hh, String::from_utf8_lossy(t), other.ok()), json!({"header": format!("{:?}", hh)})),
                }
                let o = dec_header(t);
                corr(run, id, "dec-header", format!("KDecHeader {}", coq_bytes(t)), &o, "OHeader", |(x, rest)| format!("({}, {})", cq_header(x), coq_bytes(rest)));
            }
            let rg = call(|| {
                let a = hh.old_line_range();
                let b = hh.new_line_range();
                Ok(((a.start, a.end), (b.start, b.end)))
            });
            corr(run, id, "ranges", format!("KRanges {}", cq_header(&hh)), &rg, "ORanges", |((a, b), (c, d))| format!("(({}, {}), ({}, {}))", a, b, c, d));
        }
        4 => {
            let input = match r.below(8) {
                0 => String::new(),
                1 => "+".into(),
                2 => "\n".into(),
                3 => "x\n".into(),
                4 => " a".into(),
                5 => "\u{e9}\n".into(),
                _ => gen_body(r),
            };
            let o = dec_modif(input.as_bytes());
            corr(run, id, "dec-modif", format!("KDecModif {}", coq_bytes(input.as_bytes())), &o, "OModif", |(x, rest)| format!("({}, {})", cq_modif(x), coq_bytes(rest)));
        }
        5 => {
            let mut l = gen_line(r, false);
            match r.below(5) {
                0 => {}
                1 => l.extend_from_slice(b"\n\n"),
                2 => l.extend_from_slice(b"\r\n"),
                _ => l.push(b'\n'),
            }
            let m = match r.below(3) {
                0 => Modification::addition(l, r.next() as u32),
                1 => Modification::deletion(l, r.below(100) as u32),
                _ => Modification::context(l, r.below(100) as u32, r.below(100) as u32),
            };
            let enc = call(|| m.to_unified_string().map(|s| s.into_bytes()));
            corr(run, id, "enc-modif", format!("KEncModif {}", cq_modif(&m)), &enc, "OBytes", |b| coq_bytes(b));
        }
        6..=8 => {
            // hunk text: well-formed header with a body that may or may not match
            let sz = |r: &mut Rng| -> u32 {
                match r.below(6) {
                    0 => 0,
                    1 => 1,
                    _ => r.below(6) as u32,
                }
            };
            let no = |r: &mut Rng| -> u32 {
                match r.below(8) {
                    0 => u32::MAX,
                    1 => u32::MAX - 1 - r.below(4) as u32,
                    2 => 0,
                    _ => r.below(3000) as u32,
                }
            };
            let hh = HunkHeader { old_line_no: no(r), old_size: sz(r), new_line_no: no(r), new_size: sz(r), text: if r.bool() { vec![] } else { b"ctx fn".to_vec() } };
            let consistent = r.chance(2, 3);
            let lines = rand_mods(r, &hh, consistent);
            let header_line = hh.to_unified_string().unwrap();
            let mut text = header_line.clone();
            for l in &lines {
                text.push_str(&l.to_unified_string().unwrap());
            }
            match r.below(10) {
                0 => text.push_str(&gen_body(r)),
                1 => text.push_str(&header_line),
                2 => {
                    // cut somewhere (on a char boundary)
                    let mut k = r.below(text.len() as u64 + 1) as usize;
                    while !text.is_char_boundary(k) {
                        k -= 1;
                    }
                    text.truncate(k);
                }
                3 => {
                    // flip one indicator / byte
                    let mut k = r.below(text.len() as u64) as usize;
                    while !text.is_char_boundary(k) {
                        k -= 1;
                    }
                    let c = *r.pick(&["+", "-", " ", "\n", "@", "x", ","]);
                    text.insert_str(k, c);
                }
                _ => {}
            }
            let o = dec_hunk(text.as_bytes());
            corr(run, id, "dec-hunk", format!("KDecHunk {}", coq_bytes(text.as_bytes())), &o, "OHunk", |(x, rest)| format!("({}, {})", cq_hunk(x), coq_bytes(rest)));
            // encoder on a synthetic hunk value (header line may carry several terminators)
            let mut hl = header_line.clone().into_bytes();
            match r.below(4) {
                0 => hl.push(b'\n'),
                1 => {
                    hl.pop();
                }
                2 => {
                    hl.pop();
                    hl.extend_from_slice(b"  \n");
                }
                _ => {}
            }
            let hv = Hunk { header: Line::from(hl), lines: lines.clone(), old: 0..0, new: 0..0 };
            let enc = call(|| hv.to_unified_string().map(|s| s.into_bytes()));
            corr(run, id, "enc-hunk", format!("KEncHunk {}", cq_hunk(&hv)), &enc, "OBytes", |b| coq_bytes(b));
        }
        9 => {
            // several hunks, then possibly garbage
            let mut text = String::new();
            let k = r.below(4);
            for _ in 0..k {
                let hh = HunkHeader { old_line_no: r.below(50) as u32, old_size: r.below(4) as u32, new_line_no: r.below(50) as u32, new_size: r.below(4) as u32, text: vec![] };
                let lines = rand_mods(r, &hh, true);
                text.push_str(&hh.to_unified_string().unwrap());
                for l in &lines {
                    text.push_str(&l.to_unified_string().unwrap());
                }
            }
            match r.below(6) {
                0 => text.push_str("diff --git a/x b/x\n"),
                1 => text.push_str("\n"),
                2 => text.push_str(&gen_header_text(r)),
                _ => {}
            }
            let o = dec_content(text.as_bytes());
            corr(run, id, "dec-content", format!("KDecContent {}", coq_bytes(text.as_bytes())), &o, "OContent", cq_content);
        }
        _ => {
            // file headers, incl. the todo!() arms
            let oid = |r: &mut Rng| radicle::git::Oid::from(git2::Oid::from_bytes(&r.bytes(20)).unwrap());
            let mode = |r: &mut Rng| r.pick(&[FileMode::Blob, FileMode::BlobExecutable, FileMode::Link, FileMode::Commit, FileMode::Tree]).clone();
            let path = |r: &mut Rng| PathBuf::from(if r.chance(1, 4) { pk(r, ODD_PATHS) } else { pk(r, PATHS) });
            let hh = HunkHeader { old_line_no: 1, old_size: 1, new_line_no: 1, new_size: 2, text: vec![] };
            let content = match r.below(5) {
                0 => DiffContent::Empty,
                1 => DiffContent::Binary,
                _ => DiffContent::Plain {
                    hunks: Hunks::from(vec![Hunk {
                        header: Line::from(hh.to_unified_string().unwrap()),
                        lines: rand_mods(r, &hh, true),
                        old: 1..2,
                        new: 1..3,
                    }]),
                    stats: FileStats { additions: 0, deletions: 0 },
                    eof: EofNewLine::NoneMissing,
                },
            };
            let (o, n) = (DiffFile { oid: oid(r), mode: mode(r) }, DiffFile { oid: oid(r), mode: if r.bool() { mode(r) } else { FileMode::Blob } });
            let fd = match r.below(6) {
                0 => FileDiff::Added(radicle_surf::diff::Added { path: path(r), diff: content, new: n }),
                1 => FileDiff::Deleted(radicle_surf::diff::Deleted { path: path(r), diff: content, old: o }),
                2 => FileDiff::Moved(Moved { old_path: path(r), old: o, new_path: path(r), new: n, diff: content }),
                3 => FileDiff::Copied(Copied { old_path: path(r), new_path: path(r), old: o, new: n, diff: content }),
                _ => {
                    let o2 = if r.bool() { DiffFile { oid: o.oid, mode: n.mode.clone() } } else { o };
                    FileDiff::Modified(radicle_surf::diff::Modified { path: path(r), diff: content, old: o2, new: n })
                }
            };
            let fh = FileHeader::from(&fd);
            let enc = call(|| fd.to_unified_string().map(|s| s.into_bytes()));
            corr(run, id, "enc-file", format!("KEncFile {} {}", cq_fheader(&fh), cq_content(content_of(&fd))), &enc, "OBytes", |b| coq_bytes(b));
        }
    }
}

fn main() {
    quiet_panics();
    let mut run = Run::new(
        "C30",
        "model.Diff",
        "stream 0: pairs of git trees (1-4 files: modified/added/deleted/renamed/mode-changed/unchanged; lines with trailing blanks, \
         leading +,-,@,\\, empty, unicode, control, very long lines; with and without final newline; sometimes non-UTF-8 or binary), \
         diffed with libgit2 under the option sets of the four call sites, encoded and decoded by the real code. \
         stream 1: boundary/malformed inputs for the Rust hunk/header/line decoders and synthetic values for the encoders. \
         Non-trivial = in-scope diff (all files end with a newline, UTF-8) that has a line with trailing whitespace or a line that \
         starts with a diff syntax character; distinct by encoded text.",
    );
    let seed = run.args.seed;
    let tmp = tempfile::tempdir().unwrap();
    let repo = git2::Repository::init_bare(tmp.path()).unwrap();
    let n0 = run.args.count(260, 1600);
    for i in 0..n0 {
        let id = format!("0:{}", i);
        if !run.args.wants(&id) {
            continue;
        }
        let mut r = Rng::for_case(seed, 0, i);
        tree_case(&mut run, &repo, &id, &mut r);
    }
    let n1 = run.args.count(1300, 8000);
    for i in 0..n1 {
        let id = format!("1:{}", i);
        if !run.args.wants(&id) {
            continue;
        }
        let mut r = Rng::for_case(seed, 1, i);
        codec_case(&mut run, &id, &mut r);
    }
    run.shard_size(400);
    run.finish();
}
