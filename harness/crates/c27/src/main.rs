//! C27: SSH agent client never panics; key encodings round-trip.
//!
//! A mock `ClientStream` answers arbitrary bytes; the real
//! `AgentClient::{request_identities, sign, query_extension}`, the real
//! `Encodable::{read, write}` impls for `PublicKey` / `Signature` / `SecretKey`
//! and the real `Cursor` are run under `catch_unwind` (and a watchdog for the
//! identity loop).  Direct oracle: no panic, returns, and what `write` produced
//! reads back unchanged (alone and through the client's own framing).  Every
//! case is also recorded for coq/model/SshAgent.v.
use hw_common::*;
use radicle_crypto::ssh::{PublicKeyError, SecretKeyError, SignatureError};
use radicle_crypto::{PublicKey, SecretKey, Signature};
use radicle_ssh::agent::client::{AgentClient, ClientStream, Error};
use radicle_ssh::encoding::{self, Buffer, Encodable, Encoding, Reader};
use std::sync::mpsc;
use std::time::Duration;

const ALG: &[u8] = b"ssh-ed25519";

struct Mock {
    resp: Vec<u8>,
}
impl ClientStream for Mock {
    fn connect<P>(_path: P) -> Result<AgentClient<Self>, Error>
    where
        P: AsRef<std::path::Path> + Send,
    {
        unreachable!()
    }
    fn request(&mut self, _req: &[u8]) -> Result<Buffer, Error> {
        Ok(Buffer::from(self.resp.clone()))
    }
}

fn be(n: u32) -> [u8; 4] {
    n.to_be_bytes()
}
fn sstr(s: &[u8]) -> Vec<u8> {
    let mut v = be(s.len() as u32).to_vec();
    v.extend_from_slice(s);
    v
}

// ------------------------------------------------------------ observations

fn client_err(e: &Error) -> &'static str {
    match e {
        Error::AgentProtocolError => "EProtocol",
        Error::AgentFailure => "EFailure",
        Error::Encoding(encoding::Error::IndexOutOfBounds) => "EIndex",
        _ => "EOther",
    }
}
fn pk_err(e: &PublicKeyError) -> &'static str {
    match e {
        PublicKeyError::Invalid(_) => "EInvalid",
        PublicKeyError::Encoding(_) => "EIndex",
        PublicKeyError::UnknownAlgorithm(_) => "EUnknownAlg",
    }
}
fn sig_err(e: &SignatureError) -> &'static str {
    match e {
        SignatureError::Invalid(_) => "EInvalid",
        SignatureError::Encoding(_) => "EIndex",
        SignatureError::UnknownAlgorithm(_) => "EUnknownAlg",
    }
}
fn sk_err(e: &SecretKeyError) -> &'static str {
    match e {
        SecretKeyError::Encoding(_) => "EIndex",
        SecretKeyError::Crypto(_) => "EInvalid",
        SecretKeyError::Io(_) => "EOther",
        SecretKeyError::UnknownAlgorithm(_) => "EUnknownAlg",
        SecretKeyError::Mismatch => "EMismatch",
    }
}

/// Observation as (Gallina term, short label for the tally).
type Obs = (String, String);

fn watchdog<T: Send + 'static>(f: impl FnOnce() -> T + Send + 'static) -> Option<T> {
    let (tx, rx) = mpsc::channel();
    std::thread::spawn(move || {
        let _ = tx.send(f());
    });
    rx.recv_timeout(Duration::from_secs(5)).ok()
}

fn run_identities(resp: &[u8]) -> (Obs, Option<String>) {
    let resp = resp.to_vec();
    let r = watchdog(move || {
        catch(move || {
            let mut agent = AgentClient::connect(Mock { resp });
            agent.request_identities::<PublicKey>().map(|ks| ks.iter().map(|k| (*k.0).to_vec()).collect::<Vec<_>>())
        })
    });
    match r {
        None => (("OHang".into(), "hang".into()), Some("did not return within 5s".into())),
        Some(Err(p)) => (("OPanic".into(), "panic".into()), Some(p)),
        Some(Ok(Ok(ks))) => ((format!("(OKeys {})", ks.coq()), format!("ok-{}-keys", ks.len().min(3))), None),
        Some(Ok(Err(e))) => ((format!("(OErr {})", client_err(&e)), format!("err-{}", client_err(&e))), None),
    }
}

fn run_sign(resp: &[u8]) -> (Obs, Option<String>) {
    let resp = resp.to_vec();
    let r = catch(move || {
        let mut agent = AgentClient::connect(Mock { resp });
        let pk = PublicKey::from([7u8; 32]);
        agent.sign(&pk, b"data").map(|s| s.to_vec())
    });
    match r {
        Err(p) => (("OPanic".into(), "panic".into()), Some(p)),
        Ok(Ok(s)) => ((format!("(OBytes {})", s.coq()), "ok".into()), None),
        Ok(Err(e)) => ((format!("(OErr {})", client_err(&e)), format!("err-{}", client_err(&e))), None),
    }
}

fn run_query(resp: &[u8]) -> (Obs, Option<String>) {
    let resp = resp.to_vec();
    let r = catch(move || {
        let mut agent = AgentClient::connect(Mock { resp });
        agent.query_extension(b"query", Buffer::default())
    });
    match r {
        Err(p) => (("OPanic".into(), "panic".into()), Some(p)),
        Ok(Ok(b)) => ((format!("(OBool {})", b.coq()), format!("ok-{}", b)), None),
        Ok(Err(e)) => ((format!("(OErr {})", client_err(&e)), format!("err-{}", client_err(&e))), None),
    }
}

fn read_obs<T, E>(r: Result<Result<(T, usize), E>, String>, bytes: impl Fn(&T) -> Vec<u8>, err: impl Fn(&E) -> &'static str) -> (Obs, Option<String>) {
    match r {
        Err(p) => (("OPanic".into(), "panic".into()), Some(p)),
        Ok(Ok((v, pos))) => ((format!("(ORead {} {})", bytes(&v).coq(), pos), "ok".into()), None),
        Ok(Err(e)) => ((format!("(OErr {})", err(&e)), format!("err-{}", err(&e))), None),
    }
}

fn run_pk_read(buf: &[u8], start: usize) -> (Obs, Option<String>) {
    let b = buf.to_vec();
    read_obs(
        catch(move || {
            let mut c = b.as_slice().reader(start);
            PublicKey::read(&mut c).map(|k| (k, c.position))
        }),
        |k: &PublicKey| (*k.0).to_vec(),
        pk_err,
    )
}
fn run_sig_read(buf: &[u8], start: usize) -> (Obs, Option<String>) {
    let b = buf.to_vec();
    read_obs(
        catch(move || {
            let mut c = b.as_slice().reader(start);
            Signature::read(&mut c).map(|k| (k, c.position))
        }),
        |k: &Signature| k.as_ref().to_vec(),
        sig_err,
    )
}
fn run_sk_read(buf: &[u8], start: usize) -> (Obs, Option<String>) {
    let b = buf.to_vec();
    read_obs(
        catch(move || {
            let mut c = b.as_slice().reader(start);
            SecretKey::read(&mut c).map(|k| (k, c.position))
        }),
        |k: &SecretKey| k.as_ref().to_vec(),
        sk_err,
    )
}

#[derive(Clone, Copy, Debug)]
enum Op {
    U32,
    Str,
    Byte,
    Mpint,
}
impl Coq for Op {
    fn coq(&self) -> String {
        match self {
            Op::U32 => "OpU32",
            Op::Str => "OpString",
            Op::Byte => "OpByte",
            Op::Mpint => "OpMpint",
        }
        .into()
    }
}

fn run_cursor(buf: &[u8], start: usize, ops: &[Op]) -> (Obs, Option<String>) {
    let (b, ops) = (buf.to_vec(), ops.to_vec());
    let r = catch(move || {
        let mut c = b.as_slice().reader(start);
        let mut vals: Vec<String> = vec![];
        for o in ops {
            let v = match o {
                Op::U32 => c.read_u32().map(|u| format!("(VNum {})", u)),
                Op::Byte => c.read_byte().map(|u| format!("(VNum {})", u)),
                Op::Str => c.read_string().map(|s| format!("(VBytes {})", s.to_vec().coq())),
                Op::Mpint => c.read_mpint().map(|s| format!("(VBytes {})", s.to_vec().coq())),
            };
            vals.push(v.unwrap_or_else(|_| "VErr".into()));
        }
        (vals, c.position)
    });
    match r {
        Err(p) => (("OPanic".into(), "panic".into()), Some(p)),
        Ok((vals, pos)) => {
            let errs = vals.iter().filter(|v| *v == "VErr").count();
            ((format!("(OCursor [{}] {})", vals.join("; "), pos), if errs > 0 { "some-err".into() } else { "all-ok".into() }), None)
        }
    }
}

// ------------------------------------------------------------ generators

fn rand_bytes(r: &mut Rng, max: u64) -> Vec<u8> {
    let n = r.below(max + 1) as usize;
    // bytes that look like lengths / message types are frequent
    (0..n).map(|_| if r.chance(1, 2) { *r.pick(&[0u8, 0, 0, 1, 4, 5, 6, 11, 12, 14, 32, 64, 255]) } else { r.next() as u8 }).collect()
}

/// A key blob as an agent would send it, possibly damaged.
fn gen_key_blob(r: &mut Rng) -> Vec<u8> {
    let mut blob = vec![];
    match r.below(12) {
        0 => {
            blob.extend(sstr(b"ssh-rsa"));
            blob.extend(sstr(&r.bytes(32)));
        }
        1 => {
            blob.extend(sstr(ALG));
            let n = *r.pick(&[0usize, 1, 31, 33, 64]);
            blob.extend(sstr(&r.bytes(n)));
        }
        2 => blob = rand_bytes(r, 20),
        3 => {
            blob.extend(sstr(ALG));
            blob.extend(sstr(&r.bytes(32)));
            blob.extend(rand_bytes(r, 6)); // trailing junk is ignored by read
        }
        4 => {
            blob.extend(sstr(ALG));
            blob.extend(be(r.below(200) as u32)); // length prefix without (enough) body
            let m = r.below(33) as usize;
            blob.extend(r.bytes(m));
        }
        _ => {
            blob.extend(sstr(ALG));
            blob.extend(sstr(&r.bytes(32)));
        }
    }
    blob
}

fn damage(r: &mut Rng, mut v: Vec<u8>) -> Vec<u8> {
    match r.below(10) {
        0 | 1 if !v.is_empty() => {
            let n = r.below(v.len() as u64) as usize;
            v.truncate(n);
        }
        2 if !v.is_empty() => {
            let i = r.below(v.len() as u64) as usize;
            v[i] = *r.pick(&[0u8, 1, 255, 12, 14, 64]);
        }
        3 if !v.is_empty() => v[0] = *r.pick(&[0u8, 5, 6, 12, 14, 28, 255]),
        4 => v.extend(rand_bytes(r, 5)),
        _ => {}
    }
    v
}

fn gen_identities(r: &mut Rng) -> Vec<u8> {
    let k = r.below(5) as u32;
    let mut body = vec![];
    for _ in 0..k {
        body.extend(sstr(&gen_key_blob(r)));
        body.extend(sstr(&rand_bytes(r, 6)));
    }
    let n = match r.below(10) {
        0 => k + 1,
        1 => k.saturating_sub(1),
        2 => u32::MAX,
        3 => r.next() as u32,
        _ => k,
    };
    let mut v = vec![12u8];
    v.extend(be(n));
    v.extend(body);
    damage(r, v)
}

fn sign_response(alg: &[u8], sig: &[u8]) -> Vec<u8> {
    let mut inner = sstr(alg);
    inner.extend(sstr(sig));
    let mut v = vec![14u8];
    v.extend(sstr(&inner));
    v
}

fn gen_sign(r: &mut Rng) -> Vec<u8> {
    match r.below(12) {
        0 => vec![5],
        1 => vec![],
        2 => rand_bytes(r, 12),
        3 | 4 | 5 => {
            let n = match r.below(4) {
                0 => r.below(131) as usize,
                1 => *r.pick(&[0usize, 1, 63, 65, 128]),
                _ => 64,
            };
            let b = r.bytes(n);
            damage(r, sign_response(ALG, &b))
        }
        6 => {
            let b = r.bytes(64);
            damage(r, sign_response(b"ssh-rsa", &b))
        }
        _ => {
            let b = r.bytes(64);
            damage(r, sign_response(ALG, &b))
        }
    }
}

fn gen_query(r: &mut Rng) -> Vec<u8> {
    match r.below(6) {
        0 => vec![],
        1 => rand_bytes(r, 10),
        _ => {
            let mut v = vec![*r.pick(&[6u8, 6, 5, 28, 0])];
            v.extend(sstr(&rand_bytes(r, 12)));
            damage(r, v)
        }
    }
}

fn pk_written(k: &[u8; 32]) -> Vec<u8> {
    let mut b = Buffer::default();
    PublicKey::from(*k).write(&mut b);
    b.to_vec()
}
fn sig_written(s: &[u8; 64]) -> Vec<u8> {
    let mut b = Buffer::default();
    Signature::from(*s).write(&mut b);
    b.to_vec()
}
fn sk_written(s: &[u8; 64]) -> Vec<u8> {
    let mut b = Buffer::default();
    SecretKey::from(*s).write(&mut b);
    b.to_vec()
}
fn arr<const N: usize>(r: &mut Rng) -> [u8; N] {
    let mut a = [0u8; N];
    let mode = r.below(6);
    for x in a.iter_mut() {
        *x = match mode {
            0 => 0,
            1 => 255,
            _ => r.next() as u8,
        };
    }
    a
}

// ------------------------------------------------------------ cases

fn record(run: &mut Run, id: &str, kind: &str, class: &str, case_term: String, (obs, panic): (Obs, Option<String>), input: Value) {
    run.eval();
    run.tally(&format!("{}:{}", kind, obs.1));
    if let Some(p) = panic {
        run.fail(id, class, format!("{} {}: {}", kind, if obs.0 == "OHang" { "hangs" } else { "panicked" }, p), input);
    }
    run.case(id, case_term, obs.0);
}

fn parse_case(run: &mut Run, id: &str, which: u64, r: &mut Rng) {
    match which {
        0 => {
            let resp = gen_identities(r);
            let o = run_identities(&resp);
            if o.0 .1.starts_with("ok-") && resp.len() > 5 {
                run.nontrivial(format!("ids{:?}", resp));
                let claimed = u32::from_be_bytes([resp[1], resp[2], resp[3], resp[4]]) as usize;
                let got = o.0 .0.matches("[").count().saturating_sub(1);
                if resp[0] == 12 && got < claimed {
                    run.tally("identities:unparsable-key-skipped");
                }
            }
            record(run, id, "identities", "agent-identities-panic", format!("CIdentities {}", resp.coq()), o, json!({"kind": "identities", "response": resp}));
        }
        1 => {
            let resp = gen_sign(r);
            let o = run_sign(&resp);
            if resp.first() == Some(&14) {
                run.nontrivial(format!("sign{:?}", resp));
                if o.0 .1 == "err-EProtocol" {
                    // only reachable through the length check on the signature blob
                    run.tally("sign:signature-blob-not-64-bytes->EProtocol");
                }
            }
            record(run, id, "sign", "agent-sign-panic", format!("CSign {}", resp.coq()), o, json!({"kind": "sign", "response": resp}));
        }
        2 => {
            let resp = gen_query(r);
            let o = run_query(&resp);
            record(run, id, "query-extension", "agent-query-extension-panic", format!("CQueryExt {}", resp.coq()), o, json!({"kind": "query_extension", "response": resp}));
        }
        3 => {
            // Encodable::read on damaged encodings, from any starting offset
            let sel = r.below(3);
            let mut buf = match sel {
                0 => {
                    let w = pk_written(&arr(r));
                    if r.bool() { w[4..].to_vec() } else { w } // read expects the inside of the blob
                }
                1 => sig_written(&arr(r)),
                _ => {
                    let mut s: [u8; 64] = arr(r);
                    let mut w = sk_written(&s);
                    if r.chance(1, 4) {
                        // public part that does not match the pair
                        s[40] ^= 1;
                        let w2 = sk_written(&s);
                        w[19..51].copy_from_slice(&w2[19..51]);
                    }
                    w
                }
            };
            if r.chance(1, 5) {
                // well-framed, but the key / signature has the wrong length
                let n = *r.pick(&[0usize, 1, 31, 32, 33, 63, 64, 65]);
                let body = r.bytes(n);
                buf = match sel {
                    0 => [sstr(ALG), sstr(&body)].concat(),
                    1 => sstr(&[sstr(ALG), sstr(&body)].concat()),
                    _ => [sstr(ALG), sstr(&[3u8; 32]), sstr(&body), sstr(b"radicle")].concat(),
                };
            }
            if r.chance(1, 3) {
                let mut p = rand_bytes(r, 3);
                p.extend(buf);
                buf = p;
            }
            let buf = if r.chance(1, 2) { damage(r, buf) } else { buf };
            let start = if r.chance(2, 3) { 0 } else { r.below(buf.len() as u64 + 3) as usize };
            let which_read = if r.chance(3, 4) { sel } else { r.below(3) };
            let (kind, term, o) = match which_read {
                0 => ("pk-read", "CPkRead", run_pk_read(&buf, start)),
                1 => ("sig-read", "CSigRead", run_sig_read(&buf, start)),
                _ => ("sk-read", "CSkRead", run_sk_read(&buf, start)),
            };
            if o.0 .1 == "ok" {
                run.nontrivial(format!("{}{:?}{}", kind, buf, start));
            }
            record(run, id, kind, "encodable-read-panic", format!("{} {} {}", term, buf.coq(), start), o, json!({"kind": kind, "buffer": buf, "start": start}));
        }
        _ => {
            let mut buf = vec![];
            for _ in 0..r.below(4) {
                match r.below(4) {
                    0 => buf.extend(sstr(&rand_bytes(r, 8))),
                    1 => buf.extend(be(r.below(12) as u32)),
                    2 => buf.extend(be(*r.pick(&[0u32, 1, 0xffff_ffff, 0x8000_0000, 0x100]))),
                    _ => buf.extend(rand_bytes(r, 5)),
                }
            }
            let start = if r.chance(1, 2) { 0 } else { r.below(buf.len() as u64 + 6) as usize };
            let ops: Vec<Op> = (0..r.below(6)).map(|_| *r.pick(&[Op::U32, Op::Str, Op::Str, Op::Byte, Op::Mpint])).collect();
            let o = run_cursor(&buf, start, &ops);
            record(run, id, "cursor", "cursor-panic", format!("CCursor {} {} {}", buf.coq(), start, ops.coq()), o, json!({"kind": "cursor", "buffer": buf, "start": start, "ops": format!("{:?}", ops)}));
        }
    }
}

/// write → read of random keys and signatures, alone and through the
/// client's framing; the written bytes are also compared with the model.
fn roundtrip_case(run: &mut Run, id: &str, which: u64, r: &mut Rng) {
    run.eval();
    match which {
        0 => {
            let k: [u8; 32] = arr(r);
            let w = pk_written(&k);
            let back = catch({
                let w = w.clone();
                move || {
                    let mut c = w.as_slice().reader(0);
                    let blob = c.read_string().ok()?;
                    PublicKey::read(&mut blob.reader(0)).ok().map(|p| *p.0)
                }
            });
            if back != Ok(Some(k)) {
                run.fail(id, "pk-roundtrip", format!("public key {:?} written as {:?} reads back as {:?}", k, w, back), json!({"kind": "pk", "key": k.to_vec()}));
            }
            run.tally("roundtrip:pk");
            run.nontrivial(format!("pk{:?}", k));
            run.case(id, format!("CPkWrite {}", k.to_vec().coq()), format!("(OBytes {})", w.coq()));
        }
        1 => {
            let s: [u8; 64] = arr(r);
            let w = sig_written(&s);
            let back = catch({
                let w = w.clone();
                move || Signature::read(&mut w.as_slice().reader(0)).ok().map(|x| x.as_ref().to_vec())
            });
            if back != Ok(Some(s.to_vec())) {
                run.fail(id, "sig-roundtrip", format!("signature {:?} written as {:?} reads back as {:?}", s, w, back), json!({"kind": "sig", "sig": s.to_vec()}));
            }
            // through the client: SIGN_RESPONSE ++ written signature
            let mut resp = vec![14u8];
            resp.extend(&w);
            let (o, _) = run_sign(&resp);
            if o.0 != format!("(OBytes {})", s.to_vec().coq()) {
                run.fail(id, "sign-roundtrip", format!("sign() on a response carrying {:?} returned {}", s, o.0), json!({"kind": "sign", "response": resp}));
            }
            run.tally("roundtrip:sig");
            run.nontrivial(format!("sig{:?}", s));
            run.case(id, format!("CSigWrite {}", s.to_vec().coq()), format!("(OBytes {})", w.coq()));
        }
        2 => {
            let s: [u8; 64] = arr(r);
            let w = sk_written(&s);
            let back = catch({
                let w = w.clone();
                move || SecretKey::read(&mut w.as_slice().reader(0)).ok().map(|x| x.as_ref().to_vec())
            });
            if back != Ok(Some(s.to_vec())) {
                run.fail(id, "sk-roundtrip", format!("secret key written as {:?} reads back as {:?}", w, back), json!({"kind": "sk", "sk": s.to_vec()}));
            }
            run.tally("roundtrip:sk");
            run.nontrivial(format!("sk{:?}", s));
            run.case(id, format!("CSkWrite {}", s.to_vec().coq()), format!("(OBytes {})", w.coq()));
        }
        3 => {
            // an agent listing n keys with comments: the client returns exactly them
            let n = r.below(5) as usize;
            let keys: Vec<[u8; 32]> = (0..n).map(|_| arr(r)).collect();
            let mut resp = vec![12u8];
            resp.extend(be(n as u32));
            for k in &keys {
                resp.extend(pk_written(k));
                resp.extend(sstr(&rand_bytes(r, 8)));
            }
            let (o, p) = run_identities(&resp);
            let want = format!("(OKeys {})", keys.iter().map(|k| k.to_vec()).collect::<Vec<_>>().coq());
            if o.0 != want {
                run.fail(id, "identities-roundtrip", format!("request_identities on a listing of {:?} returned {} {:?}", keys, o.0, p), json!({"kind": "identities", "response": resp}));
            }
            run.tally("roundtrip:identities");
            run.nontrivial(format!("ids{:?}", keys));
            run.case(id, format!("CIdentities {}", resp.coq()), o.0);
        }
        _ => {
            let s = rand_bytes(r, 40);
            let mut v: Vec<u8> = vec![];
            v.extend_ssh_string(&s);
            let back = catch({
                let v = v.clone();
                move || v.as_slice().reader(0).read_string().ok().map(|x| x.to_vec())
            });
            if back != Ok(Some(s.clone())) {
                run.fail(id, "string-roundtrip", format!("string {:?} written as {:?} reads back as {:?}", s, v, back), json!({"kind": "string", "s": s}));
            }
            run.tally("roundtrip:string");
            run.case(id, format!("CString {}", s.coq()), format!("(OBytes {})", v.coq()));
        }
    }
}

/// Responses that broke the code as found (before the `fix:` commits).
fn corpus() -> Vec<(u64, Vec<u8>)> {
    vec![
        (0, vec![]),                              // request_identities: resp[0] on an empty response
        (1, sign_response(ALG, &[1; 63])),        // read_signature: copy_from_slice of 63 bytes
        (1, sign_response(ALG, &[1; 65])),
        (1, sign_response(ALG, &[])),
        (1, sign_response(b"", &[9; 64])),
        (1, vec![]),
        (2, vec![]),
        (0, vec![12]),
        (0, vec![12, 0, 0, 0, 0]),
        (0, vec![12, 255, 255, 255, 255]),
        (0, vec![5]),
    ]
}

fn main() {
    quiet_panics();
    let mut run = Run::new(
        "C27",
        "model.SshAgent",
        "stream 0: corpus (responses that broke the code as found); stream 1: agent responses for request_identities / sign / \
         query_extension built from valid encodings (0..4 keys, comments, 64-byte signatures) and then damaged (wrong count incl. 2^32-1, \
         wrong algorithm, key/signature blobs of other lengths, truncation, byte flips, wrong type byte, trailing bytes) plus raw \
         length-like bytes; Encodable::read of PublicKey/Signature/SecretKey on damaged encodings from any offset; Cursor scripts; \
         stream 2: write/read round trips of random and all-0x00/0xff keys, signatures, secret keys, alone and through the client's \
         framing; thorough adds stream 3: sign responses with every signature blob length 0..=130 and every response of <= 2 bytes over \
         the message-type bytes. Non-trivial = a response that reaches the body parser (identities answer with > 5 bytes accepted, \
         SIGN_RESPONSE type byte, successful Encodable::read) or a round trip; distinct by bytes.",
    );
    let seed = run.args.seed;

    for (i, (which, resp)) in corpus().into_iter().enumerate() {
        let id = format!("0:{}", i);
        if !run.args.wants(&id) {
            continue;
        }
        let (kind, class, term, o) = match which {
            0 => ("identities", "agent-identities-panic", "CIdentities", run_identities(&resp)),
            1 => ("sign", "agent-sign-panic", "CSign", run_sign(&resp)),
            _ => ("query-extension", "agent-query-extension-panic", "CQueryExt", run_query(&resp)),
        };
        run.sample(json!({"case_id": id, "kind": kind, "response": resp, "observed": o.0 .0}));
        record(&mut run, &id, kind, class, format!("{} {}", term, resp.coq()), o, json!({"kind": kind, "response": resp}));
    }

    let n = run.args.count(3000, 60000);
    for i in 0..n {
        let id = format!("1:{}", i);
        if run.args.wants(&id) {
            let mut r = Rng::for_case(seed, 1, i);
            parse_case(&mut run, &id, i % 5, &mut r);
        }
    }
    let n = run.args.count(500, 5000);
    for i in 0..n {
        let id = format!("2:{}", i);
        if run.args.wants(&id) {
            let mut r = Rng::for_case(seed, 2, i);
            roundtrip_case(&mut run, &id, i % 5, &mut r);
        }
    }
    if run.args.thorough {
        let mut i = 0u64;
        for len in 0..=130usize {
            for alg in [ALG, b"".as_slice()] {
                let id = format!("3:{}", i);
                i += 1;
                if run.args.wants(&id) {
                    let resp = sign_response(alg, &vec![0xabu8; len]);
                    let o = run_sign(&resp);
                    record(&mut run, &id, "sign", "agent-sign-panic", format!("CSign {}", resp.coq()), o, json!({"kind": "sign", "response": resp}));
                }
            }
        }
        let types = [0u8, 5, 6, 12, 14, 28, 255];
        let mut small: Vec<Vec<u8>> = vec![vec![]];
        for a in types {
            small.push(vec![a]);
            for b in types {
                small.push(vec![a, b]);
            }
        }
        for resp in small {
            for which in 0..3u64 {
                let id = format!("3:{}", i);
                i += 1;
                if !run.args.wants(&id) {
                    continue;
                }
                let (kind, class, term, o) = match which {
                    0 => ("identities", "agent-identities-panic", "CIdentities", run_identities(&resp)),
                    1 => ("sign", "agent-sign-panic", "CSign", run_sign(&resp)),
                    _ => ("query-extension", "agent-query-extension-panic", "CQueryExt", run_query(&resp)),
                };
                record(&mut run, &id, kind, class, format!("{} {}", term, resp.coq()), o, json!({"kind": kind, "response": resp}));
            }
        }
    }
    // Outside the property (keys and signatures are strings, not mpints), recorded for the reader:
    // the mpint encoders index s[i] after skipping zeros, so an all-zero input panics.
    if run.args.only.is_none() {
        let a = catch(|| encoding::mpint_len(&[0, 0])).is_err();
        let b = catch(|| {
            let mut v: Vec<u8> = vec![];
            v.extend_ssh_mpint(&[]);
        })
        .is_err();
        run.note(format!("observation outside C27: mpint_len(&[0,0]) panics = {}, extend_ssh_mpint(&[]) panics = {}", a, b));
    }
    run.finish();
    std::process::exit(0);
}
