//! Shared plumbing for the per-property correspondence harnesses:
//! deterministic PRNG (every random choice derives from VERIF_SEED and the case
//! index, so any case replays exactly), Coq term printing, the cases-file
//! writer, and the JSON report consumed by `bin/check`.
use std::collections::{BTreeMap, BTreeSet};
use std::fmt::Write as _;
use std::path::{Path, PathBuf};

pub use serde_json::{json, Value};

// ---------------------------------------------------------------- PRNG

#[derive(Clone, Debug)]
pub struct Rng(u64);

impl Rng {
    pub fn new(seed: u64) -> Self {
        Rng(seed ^ 0x9E37_79B9_7F4A_7C15)
    }
    /// Independent stream for case `index` of stream `stream` under `seed`.
    pub fn for_case(seed: u64, stream: u64, index: u64) -> Self {
        let mut r = Rng::new(seed);
        r.0 = r.0.wrapping_add(stream.wrapping_mul(0xD6E8_FEB8_6659_FD93));
        r.next();
        r.0 = r.0.wrapping_add(index.wrapping_mul(0xA24B_AED4_963E_E407));
        r.next();
        r
    }
    pub fn next(&mut self) -> u64 {
        // splitmix64
        self.0 = self.0.wrapping_add(0x9E37_79B9_7F4A_7C15);
        let mut z = self.0;
        z = (z ^ (z >> 30)).wrapping_mul(0xBF58_476D_1CE4_E5B9);
        z = (z ^ (z >> 27)).wrapping_mul(0x94D0_49BB_1331_11EB);
        z ^ (z >> 31)
    }
    /// Uniform in `0..n` (n > 0).
    pub fn below(&mut self, n: u64) -> u64 {
        assert!(n > 0);
        self.next() % n
    }
    pub fn range(&mut self, lo: u64, hi_incl: u64) -> u64 {
        lo + self.below(hi_incl - lo + 1)
    }
    pub fn bool(&mut self) -> bool {
        self.next() & 1 == 1
    }
    /// True with probability num/den.
    pub fn chance(&mut self, num: u64, den: u64) -> bool {
        self.below(den) < num
    }
    pub fn pick<'a, T>(&mut self, xs: &'a [T]) -> &'a T {
        &xs[self.below(xs.len() as u64) as usize]
    }
    pub fn shuffle<T>(&mut self, xs: &mut [T]) {
        for i in (1..xs.len()).rev() {
            let j = self.below(i as u64 + 1) as usize;
            xs.swap(i, j);
        }
    }
    pub fn bytes(&mut self, n: usize) -> Vec<u8> {
        (0..n).map(|_| self.next() as u8).collect()
    }
}

// ---------------------------------------------------------------- Coq terms

/// Print a value as a Gallina term (numbers are `N` literals; cases files open
/// `N_scope`).
pub trait Coq {
    fn coq(&self) -> String;
}

macro_rules! coq_num {
    ($($t:ty),*) => {$(impl Coq for $t { fn coq(&self) -> String { format!("{}", self) } })*};
}
coq_num!(u8, u16, u32, u64, u128, usize);

impl Coq for bool {
    fn coq(&self) -> String {
        if *self { "true".into() } else { "false".into() }
    }
}
impl Coq for () {
    fn coq(&self) -> String {
        "tt".into()
    }
}
impl<T: Coq> Coq for Option<T> {
    fn coq(&self) -> String {
        match self {
            Some(x) => format!("(Some {})", x.coq()),
            None => "None".into(),
        }
    }
}
impl<T: Coq> Coq for Vec<T> {
    fn coq(&self) -> String {
        self.as_slice().coq()
    }
}
impl<T: Coq> Coq for [T] {
    fn coq(&self) -> String {
        let mut s = String::from("[");
        for (i, x) in self.iter().enumerate() {
            if i > 0 {
                s.push_str("; ");
            }
            s.push_str(&x.coq());
        }
        s.push(']');
        s
    }
}
impl<T: Coq + ?Sized> Coq for &T {
    fn coq(&self) -> String {
        (*self).coq()
    }
}
impl<A: Coq, B: Coq> Coq for (A, B) {
    fn coq(&self) -> String {
        format!("({}, {})", self.0.coq(), self.1.coq())
    }
}
impl<A: Coq, B: Coq, C: Coq> Coq for (A, B, C) {
    fn coq(&self) -> String {
        format!("({}, {}, {})", self.0.coq(), self.1.coq(), self.2.coq())
    }
}
impl<A: Coq, B: Coq, C: Coq, D: Coq> Coq for (A, B, C, D) {
    fn coq(&self) -> String {
        format!("({}, {}, {}, {})", self.0.coq(), self.1.coq(), self.2.coq(), self.3.coq())
    }
}
/// A pre-rendered term.
pub struct Raw(pub String);
impl Coq for Raw {
    fn coq(&self) -> String {
        self.0.clone()
    }
}
/// Constructor application: `ctor("Foo", &[a, b])` => `(Foo a b)`.
pub fn ctor(name: &str, args: &[String]) -> String {
    if args.is_empty() {
        name.to_string()
    } else {
        format!("({} {})", name, args.join(" "))
    }
}
/// Z literal.
pub fn coq_z(x: i128) -> String {
    if x < 0 { format!("({})%Z", x) } else { format!("{}%Z", x) }
}
/// Byte string as `list N`.
pub fn coq_bytes(b: &[u8]) -> String {
    b.coq()
}

// ---------------------------------------------------------------- arguments

#[derive(Clone, Debug)]
pub struct Args {
    pub seed: u64,
    pub thorough: bool,
    pub out: PathBuf,
    /// Replay mode: run only the case with this id (`<stream>:<index>`).
    pub only: Option<String>,
    pub extra: Vec<String>,
    /// multiplier on case counts (escalated search)
    pub scale: u64,
}

impl Args {
    pub fn parse() -> Self {
        let mut a = Args {
            seed: std::env::var("VERIF_SEED").ok().and_then(|s| s.parse().ok()).unwrap_or(1),
            thorough: std::env::var("VERIF_TIER").map(|t| t == "thorough").unwrap_or(false),
            out: PathBuf::from("."),
            only: None,
            extra: vec![],
            scale: 1,
        };
        let mut it = std::env::args().skip(1);
        while let Some(x) = it.next() {
            match x.as_str() {
                "--seed" => a.seed = it.next().unwrap().parse().unwrap(),
                "--tier" => a.thorough = it.next().unwrap() == "thorough",
                "--out" => a.out = PathBuf::from(it.next().unwrap()),
                "--only" => a.only = Some(it.next().unwrap()),
                "--scale" => a.scale = it.next().unwrap().parse().unwrap(),
                _ => a.extra.push(x),
            }
        }
        std::fs::create_dir_all(&a.out).unwrap();
        a
    }
    /// Number of cases: `quick` or `thorough`, times the escalation scale.
    pub fn count(&self, quick: u64, thorough: u64) -> u64 {
        (if self.thorough { thorough } else { quick }) * self.scale
    }
    pub fn wants(&self, id: &str) -> bool {
        self.only.as_deref().map(|o| o == id).unwrap_or(true)
    }
}

// ---------------------------------------------------------------- report

/// One failure of the *direct property oracle* on the implementation.
#[derive(Clone, Debug)]
pub struct Failure {
    pub case_id: String,
    /// Stable classifier used to match known findings.
    pub class: String,
    pub what: String,
    pub input: Value,
}

pub struct Run {
    pub property: String,
    pub model_module: String,
    pub args: Args,
    cases: Vec<(String, String, String)>, // (case id, input term, expected term)
    pub evaluations: u64,
    nontrivial: BTreeSet<String>,
    pub distribution: BTreeMap<String, u64>,
    pub samples: Vec<Value>,
    pub failures: Vec<Failure>,
    pub notes: Vec<String>,
    pub rule: String,
    pub exhaustive: bool,
    shard_size: usize,
    pub preamble: String,
    pub check_fn: String,
    pub case_ty: String,
}

impl Run {
    pub fn new(property: &str, model_module: &str, rule: &str) -> Self {
        let args = Args::parse();
        Run {
            property: property.into(),
            model_module: model_module.into(),
            args,
            cases: vec![],
            evaluations: 0,
            nontrivial: BTreeSet::new(),
            distribution: BTreeMap::new(),
            samples: vec![],
            failures: vec![],
            notes: vec![],
            rule: rule.into(),
            exhaustive: false,
            shard_size: 400,
            preamble: String::new(),
            check_fn: "check_case".into(),
            case_ty: "(case * obs)".into(),
        }
    }
    pub fn shard_size(&mut self, n: usize) {
        self.shard_size = n;
    }
    /// Record one correspondence case: the model input and what the
    /// implementation did, both as Gallina terms.
    pub fn case(&mut self, id: &str, input: String, expected: String) {
        self.cases.push((id.to_string(), input, expected));
    }
    pub fn eval(&mut self) {
        self.evaluations += 1;
    }
    /// Count a distinct non-trivial case (by its canonical key).
    pub fn nontrivial(&mut self, key: String) {
        self.nontrivial.insert(key);
    }
    pub fn tally(&mut self, key: &str) {
        *self.distribution.entry(key.to_string()).or_insert(0) += 1;
    }
    pub fn sample(&mut self, v: Value) {
        if self.samples.len() < 8 {
            self.samples.push(v);
        }
    }
    pub fn fail(&mut self, case_id: &str, class: &str, what: String, input: Value) {
        self.failures.push(Failure {
            case_id: case_id.into(),
            class: class.into(),
            what,
            input,
        });
    }
    pub fn note(&mut self, s: String) {
        self.notes.push(s);
    }

    /// Write `cases_<k>.v` shards and `report.json` into the output directory.
    pub fn finish(self) {
        let out: &Path = &self.args.out;
        let mut shard_files = vec![];
        let mut ids: Vec<Vec<String>> = vec![];
        for (k, chunk) in self.cases.chunks(self.shard_size.max(1)).enumerate() {
            let mut s = String::new();
            writeln!(s, "(* generated by hw-harness for {}; do not edit *)", self.property).unwrap();
            writeln!(s, "From HW Require Import lib.Base {}.", self.model_module).unwrap();
            writeln!(s, "Local Open Scope N_scope.").unwrap();
            if !self.preamble.is_empty() {
                writeln!(s, "{}", self.preamble).unwrap();
            }
            writeln!(s, "Definition cases : list {} := [", self.case_ty).unwrap();
            for (i, (_, input, expected)) in chunk.iter().enumerate() {
                let sep = if i + 1 == chunk.len() { "" } else { ";" };
                writeln!(s, "  ({}, {}){}", input, expected, sep).unwrap();
            }
            writeln!(s, "].").unwrap();
            writeln!(s, "Definition bad := failing {} cases.", self.check_fn).unwrap();
            writeln!(s, "Eval vm_compute in bad.").unwrap();
            let name = format!("cases_{}.v", k);
            std::fs::write(out.join(&name), s).unwrap();
            shard_files.push(name);
            ids.push(chunk.iter().map(|c| c.0.clone()).collect());
        }
        let failures: Vec<Value> = self
            .failures
            .iter()
            .map(|f| {
                json!({"case_id": f.case_id, "class": f.class, "what": f.what, "input": f.input})
            })
            .collect();
        let case_terms: Vec<Value> = if self.cases.len() <= 20000 {
            self.cases.iter().map(|c| json!([c.0, c.1, c.2])).collect()
        } else {
            vec![]
        };
        let report = json!({
            "property": self.property,
            "seed": self.args.seed,
            "tier": if self.args.thorough { "thorough" } else { "quick" },
            "evaluations": self.evaluations,
            "distinct_nontrivial": self.nontrivial.len(),
            "rule": self.rule,
            "distribution": self.distribution,
            "samples": self.samples,
            "failures": failures,
            "notes": self.notes,
            "exhaustive": self.exhaustive,
            "shards": shard_files,
            "shard_case_ids": ids,
            "case_terms": case_terms,
            "correspondence_cases": self.cases.len(),
        });
        std::fs::write(out.join("report.json"), serde_json::to_string(&report).unwrap()).unwrap();
    }
}

/// Run `f`, mapping a panic to `Err(message)`.
pub fn catch<T>(f: impl FnOnce() -> T + std::panic::UnwindSafe) -> Result<T, String> {
    match std::panic::catch_unwind(f) {
        Ok(v) => Ok(v),
        Err(e) => Err(if let Some(s) = e.downcast_ref::<&str>() {
            s.to_string()
        } else if let Some(s) = e.downcast_ref::<String>() {
            s.clone()
        } else {
            "panic".to_string()
        }),
    }
}

/// Silence the default panic hook (panics are expected and reported as data).
pub fn quiet_panics() {
    if std::env::var("HW_LOUD").is_ok() {
        return;
    }
    std::panic::set_hook(Box::new(|_| {}));
}
