//! C22: CRDT merges — correspondence with coq/model/Crdt.v and the direct
//! oracle (assoc / comm / idem on the real types, greatest-clock reads,
//! add-wins) on the real `radicle-crdt` crate.
use hw_common::*;
use radicle_crdt::{GMap, GSet, LWWMap, LWWReg, LWWSet, Max, Min, Redactable, Semilattice};

type Reg = LWWReg<Max<u8>, u16>;
type Map = LWWMap<u8, Max<u8>, u16>;
type Set = LWWSet<u8, u16>;

#[derive(Clone, Debug)]
enum MOp {
    Ins(u8, u8, u16),
    Rem(u8, u16),
}
#[derive(Clone, Debug)]
enum SOp {
    Ins(u8, u16),
    Rem(u8, u16),
}
impl Coq for MOp {
    fn coq(&self) -> String {
        match self {
            MOp::Ins(k, v, c) => format!("(MIns {} {} {})", k, v, c),
            MOp::Rem(k, c) => format!("(MRem {} {})", k, c),
        }
    }
}
impl Coq for SOp {
    fn coq(&self) -> String {
        match self {
            SOp::Ins(k, c) => format!("(SIns {} {})", k, c),
            SOp::Rem(k, c) => format!("(SRem {} {})", k, c),
        }
    }
}

fn small(r: &mut Rng, wide: bool) -> u64 {
    if wide { r.below(256) } else { r.below(3) }
}
fn clock(r: &mut Rng, wide: bool) -> u16 {
    if wide { r.below(65536) as u16 } else { r.below(3) as u16 }
}
fn mops(r: &mut Rng, wide: bool) -> Vec<MOp> {
    let n = r.below(if wide { 12 } else { 5 });
    (0..n)
        .map(|_| {
            if r.chance(2, 3) {
                MOp::Ins(small(r, wide) as u8, small(r, wide) as u8, clock(r, wide))
            } else {
                MOp::Rem(small(r, wide) as u8, clock(r, wide))
            }
        })
        .collect()
}
fn sops(r: &mut Rng, wide: bool) -> Vec<SOp> {
    let n = r.below(if wide { 12 } else { 5 });
    (0..n)
        .map(|_| {
            if r.chance(3, 5) {
                SOp::Ins(small(r, wide) as u8, clock(r, wide))
            } else {
                SOp::Rem(small(r, wide) as u8, clock(r, wide))
            }
        })
        .collect()
}
fn build_map(ops: &[MOp]) -> Map {
    let mut m = Map::default();
    apply_map(&mut m, ops);
    m
}
fn apply_map(m: &mut Map, ops: &[MOp]) {
    for o in ops {
        match o {
            MOp::Ins(k, v, c) => m.insert(*k, Max::from(*v), *c),
            MOp::Rem(k, c) => m.remove(*k, *c),
        }
    }
}
fn build_set(ops: &[SOp]) -> Set {
    let mut s = Set::default();
    apply_set(&mut s, ops);
    s
}
fn apply_set(s: &mut Set, ops: &[SOp]) {
    for o in ops {
        match o {
            SOp::Ins(k, c) => s.insert(*k, *c),
            SOp::Rem(k, c) => s.remove(*k, *c),
        }
    }
}
fn iter_map(m: &Map) -> Vec<(u8, u8)> {
    m.iter().map(|(k, v)| (*k, *v.get())).collect()
}
fn iter_set(s: &Set) -> Vec<u8> {
    s.iter().cloned().collect()
}
type RegSpec = ((u16, u8), Vec<(u16, u8)>);
fn reg_spec(r: &mut Rng, wide: bool) -> RegSpec {
    let w0 = (clock(r, wide), small(r, wide) as u8);
    let n = r.below(if wide { 8 } else { 4 });
    (w0, (0..n).map(|_| (clock(r, wide), small(r, wide) as u8)).collect())
}
fn build_reg(s: &RegSpec) -> Reg {
    let mut reg = Reg::new(Max::from(s.0 .1), s.0 .0);
    for (c, v) in &s.1 {
        reg.set(Max::from(*v), *c);
    }
    reg
}

/// assoc / comm / idem on real values, compared with the type's own `==`.
fn laws<T: Semilattice + Clone + PartialEq + std::fmt::Debug>(
    run: &mut Run,
    id: &str,
    kind: &str,
    a: &T,
    b: &T,
    c: &T,
) {
    let ab_c = a.clone().join(b.clone()).join(c.clone());
    let a_bc = a.clone().join(b.clone().join(c.clone()));
    let mut bad = vec![];
    if ab_c != a_bc {
        bad.push("associativity");
    }
    if a.clone().join(b.clone()) != b.clone().join(a.clone()) {
        bad.push("commutativity");
    }
    if a.clone().join(a.clone()) != *a {
        bad.push("idempotence");
    }
    // convergence (C22_merge_order_and_duplication_irrelevant / C22_two_replicas_converge):
    // in-place merges of the same set of states, reordered and duplicated, and
    // from a different starting replica, end in the same state
    let deliver = |start: &T, l: &[&T]| {
        let mut s = start.clone();
        for x in l {
            s.merge((*x).clone());
        }
        s
    };
    let r1 = deliver(a, &[b, c]);
    if r1 != deliver(a, &[c, b, c, b]) || r1 != deliver(b, &[a, c]) || r1 != deliver(c, &[c, a, b, a]) {
        bad.push("convergence");
    }
    for law in bad {
        run.fail(
            id,
            &format!("{}-{}", kind, law),
            format!("{} fails for {}", law, kind),
            json!({"kind": kind, "a": format!("{:?}", a), "b": format!("{:?}", b), "c": format!("{:?}", c)}),
        );
    }
}

fn one_case(run: &mut Run, id: &str, kind: u64, r: &mut Rng, wide: bool) {
    run.eval();
    match kind {
        0 => {
            let (a, b, c) = (r.bool(), r.bool(), r.bool());
            laws(run, id, "bool", &a, &b, &c);
            run.case(id, format!("CBool {} {}", a.coq(), b.coq()), format!("OBool {}", a.join(b).coq()));
            run.tally("bool");
        }
        1 => {
            let g = |r: &mut Rng| if r.chance(1, 4) { None } else { Some(small(r, wide) as u8) };
            let (a, b, c) = (g(r), g(r), g(r));
            let f = |x: Option<u8>| x.map(Max::from);
            laws(run, id, "option", &f(a), &f(b), &f(c));
            let j = f(a).join(f(b)).map(|m| m.into_inner());
            run.case(id, format!("COptMax {} {}", a.coq(), b.coq()), format!("OOptMax {}", j.coq()));
            run.tally("option");
            if a.is_some() && b.is_some() && a != b {
                run.nontrivial(format!("opt{:?}{:?}", a, b));
            }
        }
        2 => {
            let (a, b, c) = (small(r, wide) as u8, small(r, wide) as u8, small(r, wide) as u8);
            laws(run, id, "max", &Max::from(a), &Max::from(b), &Max::from(c));
            let j = Max::from(a).join(Max::from(b)).into_inner();
            run.case(id, format!("CMax {} {}", a, b), format!("ON {}", j));
            run.tally("max");
        }
        3 => {
            let (a, b, c) = (small(r, wide) as u8, small(r, wide) as u8, small(r, wide) as u8);
            laws(run, id, "min", &Min::from(a), &Min::from(b), &Min::from(c));
            let j = Min::from(a).join(Min::from(b)).0;
            run.case(id, format!("CMin {} {}", a, b), format!("ON {}", j));
            run.tally("min");
        }
        4 => {
            let g = |r: &mut Rng| if r.chance(1, 4) { None } else { Some(small(r, wide) as u8) };
            let (a, b, c) = (g(r), g(r), g(r));
            let f = |x: Option<u8>| Redactable::from(x);
            laws(run, id, "redactable", &f(a), &f(b), &f(c));
            let p = |x: Option<u8>| match x {
                Some(v) => format!("(Present {})", v),
                None => "Redacted".to_string(),
            };
            let j: Option<u8> = f(a).join(f(b)).into();
            run.case(id, format!("CRed {} {}", p(a), p(b)), format!("ORed {}", p(j)));
            run.tally("redactable");
            if a.is_some() && b.is_some() {
                run.nontrivial(format!("red{:?}{:?}", a, b));
            }
        }
        5 => {
            let g = |r: &mut Rng| -> Vec<(u8, u8)> {
                let n = r.below(if wide { 10 } else { 4 });
                (0..n).map(|_| (small(r, wide) as u8, small(r, wide) as u8)).collect()
            };
            let (a, b, c) = (g(r), g(r), g(r));
            let f = |x: &Vec<(u8, u8)>| GMap::from_iter(x.iter().map(|(k, v)| (*k, Max::from(*v))));
            laws(run, id, "gmap", &f(&a), &f(&b), &f(&c));
            let j: Vec<(u8, u8)> = f(&a).join(f(&b)).into_iter().map(|(k, v)| (k, v.into_inner())).collect();
            run.case(id, format!("CGMap {} {}", a.coq(), b.coq()), format!("OGMap {}", j.coq()));
            run.tally("gmap");
            if a.iter().any(|(k, _)| b.iter().any(|(k2, _)| k == k2)) {
                run.nontrivial(format!("gmap{:?}{:?}", a, b));
            }
        }
        6 => {
            let g = |r: &mut Rng| -> Vec<u8> {
                let n = r.below(if wide { 10 } else { 4 });
                (0..n).map(|_| small(r, wide) as u8).collect()
            };
            let (a, b, c) = (g(r), g(r), g(r));
            let f = |x: &Vec<u8>| GSet::from_iter(x.iter().cloned());
            laws(run, id, "gset", &f(&a), &f(&b), &f(&c));
            let j: Vec<u8> = f(&a).join(f(&b)).into_iter().collect();
            run.case(id, format!("CGSet {} {}", a.coq(), b.coq()), format!("OGSet {}", j.coq()));
            run.tally("gset");
        }
        7 => {
            let (a, b, c) = (reg_spec(r, wide), reg_spec(r, wide), reg_spec(r, wide));
            let (ra, rb, rc) = (build_reg(&a), build_reg(&b), build_reg(&c));
            laws(run, id, "lwwreg", &ra, &rb, &rc);
            // greatest-clock oracle: value = max of values written with the top clock
            let mut all = vec![a.0];
            all.extend(a.1.iter().cloned());
            let top = all.iter().map(|w| w.0).max().unwrap();
            let want = all.iter().filter(|w| w.0 == top).map(|w| w.1).max().unwrap();
            if *ra.get().get() != want || *ra.clock().get() != top {
                run.fail(id, "lwwreg-greatest-clock",
                    format!("register exposes {:?}@{:?}, greatest clock {} wrote {}", ra.get(), ra.clock(), top, want),
                    json!({"writes": format!("{:?}", all)}));
            }
            let j = ra.join(rb);
            run.case(id, format!("CLwwReg {} {}", a.coq(), b.coq()),
                format!("OLwwReg {} {}", j.clock().get(), j.get().get()));
            run.tally("lwwreg");
            if a.0 .0 == b.0 .0 || a.1.iter().any(|w| b.1.iter().any(|x| x.0 == w.0)) {
                run.nontrivial(format!("reg{:?}{:?}", a, b));
            }
        }
        8 => {
            let (a, b, c, post) = (mops(r, wide), mops(r, wide), mops(r, wide), mops(r, wide));
            let (ma, mb, mc) = (build_map(&a), build_map(&b), build_map(&c));
            laws(run, id, "lwwmap", &ma, &mb, &mc);
            // greatest-clock oracle per key on `a`
            for k in 0..=255u8 {
                let ws: Vec<(u16, Option<u8>)> = a.iter().filter_map(|o| match o {
                    MOp::Ins(k2, v, c) if *k2 == k => Some((*c, Some(*v))),
                    MOp::Rem(k2, c) if *k2 == k => Some((*c, None)),
                    _ => None }).collect();
                let want = ws.iter().map(|w| w.0).max().and_then(|top|
                    ws.iter().filter(|w| w.0 == top).filter_map(|w| w.1).max());
                let got = ma.get(&k).map(|m| *m.get());
                if got != want || ma.contains_key(&k) != want.is_some() {
                    run.fail(id, "lwwmap-greatest-clock",
                        format!("key {}: map exposes {:?}, writes with greatest clock give {:?}", k, got, want),
                        json!({"ops": format!("{:?}", a)}));
                }
            }
            let mut j = ma.join(mb);
            let i1 = iter_map(&j);
            apply_map(&mut j, &post);
            let i2 = iter_map(&j);
            run.case(id, format!("CLwwMap {} {} {}", a.coq(), b.coq(), post.coq()),
                format!("OLwwMap {} {}", i1.coq(), i2.coq()));
            run.tally("lwwmap");
            run.nontrivial(format!("map{:?}{:?}{:?}", a, b, post));
        }
        _ => {
            let (a, b, c, post) = (sops(r, wide), sops(r, wide), sops(r, wide), sops(r, wide));
            let (sa, sb, sc) = (build_set(&a), build_set(&b), build_set(&c));
            laws(run, id, "lwwset", &sa, &sb, &sc);
            let mut tie = false;
            for k in 0..=255u8 {
                let ws: Vec<(u16, bool)> = a.iter().filter_map(|o| match o {
                    SOp::Ins(k2, c) if *k2 == k => Some((*c, true)),
                    SOp::Rem(k2, c) if *k2 == k => Some((*c, false)),
                    _ => None }).collect();
                let want = ws.iter().map(|w| w.0).max().map(|top| {
                    let top_ws: Vec<bool> = ws.iter().filter(|w| w.0 == top).map(|w| w.1).collect();
                    if top_ws.contains(&true) && top_ws.contains(&false) { tie = true; }
                    top_ws.contains(&true)
                }).unwrap_or(false);
                if sa.contains(&k) != want {
                    run.fail(id, "lwwset-add-wins",
                        format!("element {}: contains = {}, expected {} (insert wins at the greatest clock)", k, sa.contains(&k), want),
                        json!({"ops": format!("{:?}", a)}));
                }
            }
            if tie { run.tally("lwwset-equal-clock-insert-remove"); }
            let mut j = sa.join(sb);
            let i1 = iter_set(&j);
            apply_set(&mut j, &post);
            let i2 = iter_set(&j);
            run.case(id, format!("CLwwSet {} {} {}", a.coq(), b.coq(), post.coq()),
                format!("OLwwSet {} {}", i1.coq(), i2.coq()));
            run.tally("lwwset");
            run.nontrivial(format!("set{:?}{:?}{:?}", a, b, post));
        }
    }
}

fn main() {
    let mut run = Run::new(
        "C22",
        "model.Crdt",
        "stream 0: values over 3 keys x 3 clocks x 3 values (equal-clock conflicts frequent); stream 1: u8 keys/values, u16 clocks. \
         Non-trivial = operands share a key or clock (so a merge of two bindings actually happens); distinct by operand contents.",
    );
    let seed = run.args.seed;
    let n = run.args.count(1500, 30000);
    for i in 0..n {
        for (stream, wide) in [(0u64, false), (1u64, true)] {
            let id = format!("{}:{}", stream, i);
            if !run.args.wants(&id) {
                continue;
            }
            let mut r = Rng::for_case(seed, stream, i);
            let kind = i % 10;
            one_case(&mut run, &id, kind, &mut r, wide);
            if i < 3 && stream == 0 {
                run.sample(json!({"case_id": id, "kind": kind}));
            }
        }
    }
    // samples: the last few correspondence cases verbatim
    run.finish();
}
