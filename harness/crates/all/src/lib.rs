// lock anchor only
