//! C09: the COB cache answers exactly like direct evaluation.
//!
//! Implementation under test (real code, real git repositories, in-memory SQLite):
//!   `cob::patch::Cache<_, StoreWriter>` / `cob::issue::Cache<_, StoreWriter>` (cached)
//!   vs `Cache::no_cache` (direct evaluation from the repository) on the same repository,
//!   plus `radicle_node::worker::fetch::cache_cobs` for fetched updates.
//!
//! Direct oracle (independent of the Coq model): after every step of a random
//! history, every query answers the same on both paths (canonical JSON, `Ok | Err | Panic`).
//! Correspondence: the abstracted history and the cached answers are evaluated by
//! coq/model/CobCache.v.
use std::collections::{BTreeMap, BTreeSet};
use std::ops::ControlFlow;
use std::panic::AssertUnwindSafe;
use std::str::FromStr;

use hw_common::*;
use radicle::cob::cache::{Store, StoreWriter, Write};
use radicle::cob::issue::cache::Issues as _;
use radicle::cob::patch::cache::Patches as _;
use radicle::cob::patch::{Lifecycle, MergeTarget, RevisionId, ReviewId, Status, Verdict};
use radicle::cob::{self, issue, migrate, patch, ObjectId};
use radicle::crypto::test::signer::MockSigner;
use radicle::git;
use radicle::prelude::RepoId;
use radicle::storage::{ReadRepository, ReadStorage, RefUpdate, SignRepository, WriteRepository};
use radicle::test::setup::{Node, NodeRepo};

type Repo = radicle::storage::git::Repository;

// ------------------------------------------------------------------ world

/// The template: two peers (alice: delegate, bob) with a clone of the same repository.
struct World {
    alice: Node,
    bob: Node,
    /// kept alive: the template repositories
    _arepo: NodeRepo,
    apath: std::path::PathBuf,
    bpath: std::path::PathBuf,
    rid: RepoId,
    base: git::Oid,
    head: git::Oid,
}

thread_local! { static TIMES: std::cell::RefCell<BTreeMap<&'static str, f64>> = std::cell::RefCell::new(BTreeMap::new()); }
fn timed<T>(k: &'static str, f: impl FnOnce() -> T) -> T {
    let t = std::time::Instant::now();
    let r = f();
    TIMES.with(|m| *m.borrow_mut().entry(k).or_insert(0.0) += t.elapsed().as_secs_f64());
    r
}

fn set_time(t: u64) {
    std::env::set_var("RAD_LOCAL_TIME", t.to_string());
    std::env::set_var("RAD_COMMIT_TIME", t.to_string());
}

const T0: u64 = 1_700_000_000;

/// Scratch directories live on a memory file system when there is one (the cases
/// create thousands of small git objects).
fn scratch() -> tempfile::TempDir {
    let shm = std::path::Path::new("/dev/shm");
    if shm.is_dir() {
        if let Ok(d) = tempfile::Builder::new().prefix("hw-c09-").tempdir_in(shm) {
            return d;
        }
    }
    tempfile::tempdir().unwrap()
}

fn copy_dir(src: &std::path::Path, dst: &std::path::Path) {
    std::fs::create_dir_all(dst).unwrap();
    for e in std::fs::read_dir(src).unwrap() {
        let e = e.unwrap();
        let to = dst.join(e.file_name());
        if e.file_type().unwrap().is_dir() {
            copy_dir(&e.path(), &to);
        } else {
            std::fs::copy(e.path(), &to).unwrap();
        }
    }
}

impl World {
    fn new() -> Self {
        set_time(T0);
        let alice = Node::new(scratch(), MockSigner::from_seed([!0; 32]), "alice");
        let mut bob = Node::new(scratch(), MockSigner::from_seed([!1; 32]), "bob");
        let arepo = alice.project();
        let rid = arepo.id;
        // two commits of the fixture's default branch: revisions go from `base` to `head`,
        // and `head` is what a merge names (it is the delegate's default branch head)
        let (_, head) = arepo.head().unwrap();
        let base: git::Oid = arepo.raw().find_commit(*head).unwrap().parent_id(0).unwrap().into();
        bob.clone(rid, &alice);
        let brepo = bob.storage.repository(rid).unwrap();
        let apath = arepo.raw().path().to_path_buf();
        let bpath = brepo.raw().path().to_path_buf();
        World { alice, bob, _arepo: arepo, apath, bpath, rid, base, head }
    }
}

/// A private copy of the two template repositories for one case: every case starts
/// from exactly the same state.
struct CaseRepos {
    _tmp: tempfile::TempDir,
    arepo: Repo,
    brepo: Repo,
    apk: radicle::crypto::PublicKey,
    bpk: radicle::crypto::PublicKey,
}

impl CaseRepos {
    fn new(w: &World) -> Self {
        let tmp = scratch();
        let a = tmp.path().join("alice");
        let b = tmp.path().join("bob");
        copy_dir(&w.apath, &a);
        copy_dir(&w.bpath, &b);
        CaseRepos {
            arepo: Repo::open(&a, w.rid).unwrap(),
            brepo: Repo::open(&b, w.rid).unwrap(),
            _tmp: tmp,
            apk: *w.alice.signer.public_key(),
            bpk: *w.bob.signer.public_key(),
        }
    }
    fn sync_bob_from_alice(&self) -> Vec<RefUpdate> {
        fetch_namespace(&self.brepo, &self.arepo, &self.apk)
    }
    fn fetch_alice_from_bob(&self) -> Vec<RefUpdate> {
        fetch_namespace(&self.arepo, &self.brepo, &self.bpk)
    }
}

/// Fetch `ns`'s namespace from `src` into `dst` with pruning and report the ref updates, like
/// `radicle::test::fetch(.., Namespaces::Followed({ns}))` (same refspec, same `RefUpdate`
/// construction) but over libgit2's in-process local transport instead of a spawned
/// `git upload-pack`. The fetch itself is not under test; what the cache does with the
/// reported updates (`cache_cobs`) is.
fn fetch_namespace(dst: &Repo, src: &Repo, ns: &radicle::crypto::PublicKey) -> Vec<RefUpdate> {
    let mut updates = Vec::new();
    {
        let mut callbacks = git::raw::RemoteCallbacks::new();
        let mut opts = git::raw::FetchOptions::default();
        opts.prune(git::raw::FetchPrune::On);
        let refspec = format!("+refs/namespaces/{ns}/refs/*:refs/namespaces/{ns}/refs/*");
        callbacks.update_tips(|name, old, new| {
            if let Ok(name) = git::RefString::try_from(name) {
                if name.to_namespaced().is_some() {
                    updates.push(RefUpdate::from(name, old, new));
                    return true;
                }
            }
            false
        });
        opts.remote_callbacks(callbacks);
        let url = format!("file://{}", src.raw().path().display());
        let mut remote = dst.raw().remote_anonymous(&url).unwrap();
        let t = std::time::Instant::now();
        remote.fetch(&[refspec], Some(&mut opts), None).unwrap();
        if std::env::var("HW_TIMES").is_ok() && t.elapsed().as_millis() > 300 {
            let st = remote.stats();
            eprintln!("slow fetch {:?}: objects total {} received {} local {}", t.elapsed(), st.total_objects(), st.received_objects(), st.local_objects());
        }
    }
    updates
}

// ------------------------------------------------------------------ abstraction

#[derive(Clone, Debug, PartialEq, Eq, PartialOrd, Ord)]
struct AbsThread(Vec<(String, Option<u64>)>);
#[derive(Clone, Debug, PartialEq, Eq, PartialOrd, Ord)]
struct AbsReview {
    thread: AbsThread,
    pay: u64,
}
#[derive(Clone, Debug, PartialEq, Eq, PartialOrd, Ord)]
struct AbsRev {
    disc: AbsThread,
    reviews: Vec<(String, AbsReview)>,
    pay: u64,
}
#[derive(Clone, Debug, PartialEq, Eq, PartialOrd, Ord)]
enum AbsPState {
    Draft,
    Open(u64),
    Archived,
    Merged(u64),
}
#[derive(Clone, Debug, PartialEq, Eq, PartialOrd, Ord)]
enum AbsObj {
    Patch { state: AbsPState, revs: Vec<(String, Option<AbsRev>)>, pay: u64 },
    /// closed: None = open, Some(solved)
    Issue { closed: Option<bool>, thread: AbsThread, pay: u64 },
}

fn is_oid(s: &str) -> bool {
    s.len() == 40 && s.bytes().all(|b| b.is_ascii_hexdigit())
}

/// Does a payload subtree contain an object key that looks like an oid? (The model
/// treats payloads as leaves of `json_tree`; that is only faithful if they have none.)
fn has_oid_key(v: &Value) -> bool {
    match v {
        Value::Object(m) => m.iter().any(|(k, v)| is_oid(k) || has_oid_key(v)),
        Value::Array(a) => a.iter().any(has_oid_key),
        _ => false,
    }
}

#[derive(Default)]
struct Dict {
    pays: BTreeMap<String, u64>,
    objs: Vec<AbsObj>,
    oids: BTreeSet<String>,
    actors: BTreeSet<String>,
    payload_oid_key: bool,
}

impl Dict {
    fn pay(&mut self, v: &Value) -> u64 {
        if has_oid_key(v) {
            self.payload_oid_key = true;
        }
        let s = serde_json::to_string(v).unwrap();
        let n = self.pays.len() as u64 + 1;
        *self.pays.entry(s).or_insert(n)
    }
    fn oid(&mut self, s: &str) -> String {
        self.oids.insert(s.to_string());
        s.to_string()
    }
    fn thread(&mut self, t: &Value) -> AbsThread {
        let mut out = vec![];
        if let Some(m) = t.get("comments").and_then(|c| c.as_object()) {
            for (cid, c) in m {
                let p = if c.is_null() { None } else { Some(self.pay(c)) };
                out.push((self.oid(cid), p));
            }
        }
        AbsThread(out)
    }
    fn abs_patch(&mut self, v: &Value) -> AbsObj {
        let mut rest = v.clone();
        let st = rest.as_object_mut().unwrap().remove("state").unwrap();
        let revisions = rest.as_object_mut().unwrap().remove("revisions").unwrap();
        let mut strest = st.clone();
        strest.as_object_mut().unwrap().remove("status");
        let extra = if strest.as_object().unwrap().is_empty() { 0 } else { self.pay(&strest) };
        let state = match st["status"].as_str().unwrap() {
            "draft" => AbsPState::Draft,
            "open" => AbsPState::Open(extra),
            "archived" => AbsPState::Archived,
            "merged" => AbsPState::Merged(extra),
            s => panic!("unknown patch status {s}"),
        };
        let mut revs = vec![];
        for (rid, rv) in revisions.as_object().unwrap() {
            let rid = self.oid(rid);
            if rv.is_null() {
                revs.push((rid, None));
                continue;
            }
            let disc = self.thread(&rv["discussion"]);
            let mut reviews = vec![];
            for (actor, r) in rv["reviews"].as_object().unwrap() {
                self.actors.insert(actor.clone());
                let thread = self.thread(&r["comments"]);
                let mut rrest = r.clone();
                rrest["comments"].as_object_mut().unwrap().remove("comments");
                if let Some(id) = r["id"].as_str() {
                    self.oid(id);
                }
                let pay = self.pay(&rrest);
                reviews.push((actor.clone(), AbsReview { thread, pay }));
            }
            let mut rvrest = rv.clone();
            rvrest["discussion"].as_object_mut().unwrap().remove("comments");
            rvrest.as_object_mut().unwrap().remove("reviews");
            let pay = self.pay(&rvrest);
            revs.push((rid, Some(AbsRev { disc, reviews, pay })));
        }
        // (the top-level `reviews` index is keyed by review ids, but lies outside `$.revisions`)
        let flag = self.payload_oid_key;
        let pay = self.pay(&rest);
        self.payload_oid_key = flag;
        AbsObj::Patch { state, revs, pay }
    }
    fn abs_issue(&mut self, v: &Value) -> AbsObj {
        let mut rest = v.clone();
        let st = rest.as_object_mut().unwrap().remove("state").unwrap();
        let closed = match st["status"].as_str().unwrap() {
            "open" => None,
            "closed" => Some(match st["reason"].as_str().unwrap() {
                "solved" => true,
                "other" => false,
                r => panic!("unknown close reason {r}"),
            }),
            s => panic!("unknown issue status {s}"),
        };
        let thread = self.thread(&rest["thread"]);
        rest["thread"].as_object_mut().unwrap().remove("comments");
        let pay = self.pay(&rest);
        AbsObj::Issue { closed, thread, pay }
    }
    fn abs(&mut self, kind: Kind, v: &Value) -> AbsObj {
        match kind {
            Kind::P => self.abs_patch(v),
            Kind::I => self.abs_issue(v),
        }
    }
    /// Index of the abstract object in the case's object table (added if new).
    fn obj(&mut self, o: AbsObj) -> u64 {
        if let Some(i) = self.objs.iter().position(|x| *x == o) {
            return i as u64;
        }
        self.objs.push(o);
        self.objs.len() as u64 - 1
    }
    fn obj_of(&mut self, kind: Kind, v: &Value) -> u64 {
        let o = self.abs(kind, v);
        self.obj(o)
    }
}

#[derive(Clone, Copy, Debug, PartialEq, Eq, PartialOrd, Ord)]
enum Kind {
    P,
    I,
}
impl Kind {
    fn coq(self) -> &'static str {
        match self {
            Kind::P => "KP",
            Kind::I => "KI",
        }
    }
}

// ------------------------------------------------------------------ canonical results

/// `Ok(json) | Err | Panic`
#[derive(Clone, Debug, PartialEq)]
enum Res {
    Ok(Value),
    Err(String),
    Panic(String),
}
impl Res {
    fn tag(&self) -> &'static str {
        match self {
            Res::Ok(_) => "ok",
            Res::Err(_) => "err",
            Res::Panic(_) => "panic",
        }
    }
    fn short(&self) -> String {
        match self {
            Res::Ok(v) => {
                let s = v.to_string();
                format!("Ok({})", s.chars().take(160).collect::<String>())
            }
            Res::Err(e) => format!("Err({})", e.chars().take(160).collect::<String>()),
            Res::Panic(e) => format!("Panic({})", e.chars().take(160).collect::<String>()),
        }
    }
    /// Equality of the projection the property talks about: same outcome class and,
    /// for `Ok`, the same value.
    fn same(&self, other: &Res) -> bool {
        match (self, other) {
            (Res::Ok(a), Res::Ok(b)) => a == b,
            (Res::Err(_), Res::Err(_)) => true,
            _ => false,
        }
    }
}

fn guard<E: std::fmt::Display>(f: impl FnOnce() -> Result<Value, E>) -> Res {
    match catch(AssertUnwindSafe(f)) {
        Ok(Ok(v)) => Res::Ok(v),
        Ok(Err(e)) => Res::Err(e.to_string()),
        Err(p) => Res::Panic(p),
    }
}

fn rows<T: serde::Serialize, E: std::fmt::Display>(
    it: impl Iterator<Item = Result<(ObjectId, T), E>>,
    keep_order: bool,
) -> Result<Value, String> {
    let mut out = vec![];
    for r in it {
        let (id, o) = r.map_err(|e| e.to_string())?;
        out.push((id.to_string(), serde_json::to_value(&o).unwrap()));
    }
    if !keep_order {
        out.sort_by(|a, b| a.0.cmp(&b.0));
    }
    Ok(json!(out))
}

fn by_rev(b: Option<patch::ByRevision>) -> Value {
    match b {
        None => Value::Null,
        Some(b) => json!({"id": b.id.to_string(), "patch": serde_json::to_value(&b.patch).unwrap(),
                          "revision_id": b.revision_id.to_string(),
                          "revision": serde_json::to_value(&b.revision).unwrap()}),
    }
}

// ------------------------------------------------------------------ queries

#[derive(Clone, Debug)]
enum Query {
    PGet(String),
    PList,
    PListBy(Status),
    PCounts,
    PFind(String),
    IGet(String),
    IList,
    IListBy(Option<bool>),
    ICounts,
}

fn status_coq(s: &Status) -> &'static str {
    match s {
        Status::Draft => "StDraft",
        Status::Open => "StOpen",
        Status::Archived => "StArchived",
        Status::Merged => "StMerged",
    }
}
fn istate_of(c: Option<bool>) -> issue::State {
    match c {
        None => issue::State::Open,
        Some(true) => issue::State::Closed { reason: issue::CloseReason::Solved },
        Some(false) => issue::State::Closed { reason: issue::CloseReason::Other },
    }
}
fn istate_coq(c: Option<bool>) -> &'static str {
    match c {
        None => "IOpen",
        Some(true) => "(IClosed true)",
        Some(false) => "(IClosed false)",
    }
}

fn oid_of<S: AsRef<str>>(s: S) -> git::Oid {
    git::Oid::from_str(s.as_ref()).unwrap()
}

struct Stores<'a> {
    pc: patch::Cache<patch::Patches<'a, Repo>, StoreWriter>,
    pd: patch::Cache<patch::Patches<'a, Repo>, cob::cache::NoCache>,
    ic: issue::Cache<issue::Issues<'a, Repo>, StoreWriter>,
    id: issue::Cache<issue::Issues<'a, Repo>, cob::cache::NoCache>,
}

impl Stores<'_> {
    /// (cached, direct); cached lists keep the order the cache returned when the
    /// statement has an ORDER BY (the model reproduces it), direct lists are sorted.
    fn eval(&self, q: &Query) -> (Res, Res, Res) {
        // third component: cached result in returned order (for the model)
        match q {
            Query::PGet(id) => {
                let id = ObjectId::from(oid_of(id));
                let c = guard(|| self.pc.get(&id).map(|o| json!(o)));
                let d = guard(|| self.pd.get(&id).map(|o| json!(o)));
                (c.clone(), d, c)
            }
            Query::PList => {
                let c = guard(|| self.pc.list().map_err(|e| e.to_string()).and_then(|it| rows(it, false)));
                let o = guard(|| self.pc.list().map_err(|e| e.to_string()).and_then(|it| rows(it, true)));
                let d = guard(|| self.pd.list().map_err(|e| e.to_string()).and_then(|it| rows(it, false)));
                (c, d, o)
            }
            Query::PListBy(s) => {
                let c = guard(|| self.pc.list_by_status(s).map_err(|e| e.to_string()).and_then(|it| rows(it, false)));
                let o = guard(|| self.pc.list_by_status(s).map_err(|e| e.to_string()).and_then(|it| rows(it, true)));
                let d = guard(|| self.pd.list_by_status(s).map_err(|e| e.to_string()).and_then(|it| rows(it, false)));
                (c, d, o)
            }
            Query::PCounts => {
                let c = guard(|| self.pc.counts().map(|c| json!(c)));
                let d = guard(|| self.pd.counts().map(|c| json!(c)));
                (c.clone(), d, c)
            }
            Query::PFind(id) => {
                let id = RevisionId::from(oid_of(id));
                let c = guard(|| self.pc.find_by_revision(&id).map(by_rev));
                let d = guard(|| self.pd.find_by_revision(&id).map(by_rev));
                (c.clone(), d, c)
            }
            Query::IGet(id) => {
                let id = ObjectId::from(oid_of(id));
                let c = guard(|| self.ic.get(&id).map(|o| json!(o)));
                let d = guard(|| self.id.get(&id).map(|o| json!(o)));
                (c.clone(), d, c)
            }
            Query::IList => {
                // no ORDER BY in the statement: compared as sets
                let c = guard(|| self.ic.list().map_err(|e| e.to_string()).and_then(|it| rows(it, false)));
                let d = guard(|| self.id.list().map_err(|e| e.to_string()).and_then(|it| rows(it, false)));
                (c.clone(), d, c)
            }
            Query::IListBy(s) => {
                let st = istate_of(*s);
                let c = guard(|| self.ic.list_by_status(&st).map_err(|e| e.to_string()).and_then(|it| rows(it, false)));
                let o = guard(|| self.ic.list_by_status(&st).map_err(|e| e.to_string()).and_then(|it| rows(it, true)));
                let d = guard(|| self.id.list_by_status(&st).map_err(|e| e.to_string()).and_then(|it| rows(it, false)));
                (c, d, o)
            }
            Query::ICounts => {
                let c = guard(|| self.ic.counts().map(|c| json!({"open": c.open, "closed": c.closed})));
                let d = guard(|| self.id.counts().map(|c| json!({"open": c.open, "closed": c.closed})));
                (c.clone(), d, c)
            }
        }
    }
}

// ------------------------------------------------------------------ id classification

#[derive(Clone, Copy, Debug, PartialEq, Eq, PartialOrd, Ord)]
enum IdKind {
    Patch,
    Revision,
    RedactedRevision,
    Comment,
    RedactedComment,
    Review,
    ReviewComment,
    RedactedReviewComment,
    Issue,
    IssueComment,
    Stale,
    Unknown,
}
impl IdKind {
    fn name(self) -> &'static str {
        match self {
            IdKind::Patch => "patch-id",
            IdKind::Revision => "revision",
            IdKind::RedactedRevision => "redacted-revision",
            IdKind::Comment => "revision-comment",
            IdKind::RedactedComment => "redacted-revision-comment",
            IdKind::Review => "review",
            IdKind::ReviewComment => "review-comment",
            IdKind::RedactedReviewComment => "redacted-review-comment",
            IdKind::Issue => "issue-id",
            IdKind::IssueComment => "issue-comment",
            IdKind::Stale => "stale",
            IdKind::Unknown => "unknown",
        }
    }
}

/// Every oid appearing in the directly evaluated patches/issues, with what it names.
fn classify(patches: &[(String, Value)], issues: &[(String, Value)]) -> BTreeMap<String, IdKind> {
    let mut m = BTreeMap::new();
    for (pid, p) in patches {
        for (rid, rv) in p["revisions"].as_object().unwrap() {
            if rv.is_null() {
                m.insert(rid.clone(), IdKind::RedactedRevision);
                continue;
            }
            m.insert(rid.clone(), IdKind::Revision);
            for (cid, c) in rv["discussion"]["comments"].as_object().unwrap() {
                m.insert(cid.clone(), if c.is_null() { IdKind::RedactedComment } else { IdKind::Comment });
            }
            for (_, r) in rv["reviews"].as_object().unwrap() {
                m.insert(r["id"].as_str().unwrap().to_string(), IdKind::Review);
                for (cid, c) in r["comments"]["comments"].as_object().unwrap() {
                    m.insert(cid.clone(), if c.is_null() { IdKind::RedactedReviewComment } else { IdKind::ReviewComment });
                }
            }
        }
        // the patch id is also its root revision id
        m.entry(pid.clone()).or_insert(IdKind::Patch);
    }
    for (iid, i) in issues {
        m.insert(iid.clone(), IdKind::Issue);
        for (cid, _) in i["thread"]["comments"].as_object().unwrap() {
            if cid != iid {
                m.insert(cid.clone(), IdKind::IssueComment);
            }
        }
    }
    m
}

// ------------------------------------------------------------------ one case

enum Step {
    Put(Kind, String, u64),
    Remove(Kind, String, Option<u64>),
    Fetch(Vec<(Kind, String, Option<u64>)>),
    WriteAll(Kind),
}

struct QObs {
    q: Query,
    obs: String, // Coq term, rendered at the end (needs the oid ranks)
}

/// Deferred rendering: terms mention oids by hex between `#` marks; replaced by ranks.
fn oid_mark(s: &str) -> String {
    format!("#{s}#")
}

fn render(term: &str, ranks: &BTreeMap<String, u64>) -> String {
    let mut out = String::with_capacity(term.len());
    let mut it = term.split('#');
    let mut inside = false;
    for part in &mut it {
        if inside {
            out.push_str(&ranks[part].to_string());
        } else {
            out.push_str(part);
        }
        inside = !inside;
    }
    out
}

fn thread_term(t: &AbsThread) -> String {
    let items: Vec<String> = t.0.iter().map(|(c, p)| format!("({}, {})", oid_mark(c), p.coq())).collect();
    format!("[{}]", items.join("; "))
}

fn obj_term(o: &AbsObj, actors: &BTreeMap<String, u64>) -> String {
    match o {
        AbsObj::Patch { state, revs, pay } => {
            let st = match state {
                AbsPState::Draft => "PDraft".to_string(),
                AbsPState::Open(p) => format!("(POpen {p})"),
                AbsPState::Archived => "PArchived".to_string(),
                AbsPState::Merged(p) => format!("(PMerged {p})"),
            };
            let rs: Vec<String> = revs
                .iter()
                .map(|(rid, r)| match r {
                    None => format!("({}, None)", oid_mark(rid)),
                    Some(r) => {
                        let rv: Vec<String> = r
                            .reviews
                            .iter()
                            .map(|(a, rv)| format!("({}, mkReview {} {})", actors[a], thread_term(&rv.thread), rv.pay))
                            .collect();
                        format!("({}, Some (mkRev {} [{}] {}))", oid_mark(rid), thread_term(&r.disc), rv.join("; "), r.pay)
                    }
                })
                .collect();
            format!("OP (mkPatch {} [{}] {})", st, rs.join("; "), pay)
        }
        AbsObj::Issue { closed, thread, pay } => {
            format!("OI (mkIssue {} {} {})", istate_coq(*closed), thread_term(thread), pay)
        }
    }
}

fn res_term(r: &Res, ok: impl FnOnce(&Value) -> String) -> String {
    match r {
        Res::Ok(v) => format!("(ROk {})", ok(v)),
        Res::Err(_) => "RErr".to_string(),
        Res::Panic(_) => "RPanic".to_string(),
    }
}

struct CaseCtx {
    dict: Dict,
    steps: Vec<(Step, Vec<QObs>)>,
    stale: BTreeSet<String>,
    removed_shared: BTreeSet<String>,
    n: u64,
    clock: u64,
}

impl CaseCtx {
    fn tick(&mut self) -> u64 {
        self.clock += 1;
        set_time(T0 + self.clock);
        self.n += 1;
        self.n
    }
}

fn direct_all(s: &Stores) -> (Vec<(String, Value)>, Vec<(String, Value)>) {
    let p: Vec<(String, Value)> = s
        .pd
        .list()
        .unwrap()
        .filter_map(|r| r.ok())
        .map(|(id, p)| (id.to_string(), json!(p)))
        .collect();
    let i: Vec<(String, Value)> = s
        .id
        .list()
        .unwrap()
        .filter_map(|r| r.ok())
        .map(|(id, p)| (id.to_string(), json!(p)))
        .collect();
    (p, i)
}

fn query_term(q: &Query) -> String {
    match q {
        Query::PGet(id) => format!("(QGet KP {})", oid_mark(id)),
        Query::PList => "(QList KP)".into(),
        Query::PListBy(s) => format!("(QPListBy {})", status_coq(s)),
        Query::PCounts => "QPCounts".into(),
        Query::PFind(id) => format!("(QPFind {})", oid_mark(id)),
        Query::IGet(id) => format!("(QGet KI {})", oid_mark(id)),
        Query::IList => "(QList KI)".into(),
        Query::IListBy(s) => format!("(QIListBy {})", istate_coq(*s)),
        Query::ICounts => "QICounts".into(),
    }
}

/// Observation term of a cached answer.
fn obs_term(q: &Query, ordered: &Res, dict: &mut Dict) -> String {
    let list = |v: &Value, kind: Kind, dict: &mut Dict| -> String {
        let items: Vec<String> = v
            .as_array()
            .unwrap()
            .iter()
            .map(|row| {
                let id = row[0].as_str().unwrap();
                dict.oid(id);
                format!("({}, {})", oid_mark(id), dict.obj_of(kind, &row[1]))
            })
            .collect();
        format!("[{}]", items.join("; "))
    };
    match q {
        Query::PGet(_) | Query::IGet(_) => {
            let kind = if matches!(q, Query::PGet(_)) { Kind::P } else { Kind::I };
            format!("(OGet {})", res_term(ordered, |v| if v.is_null() { "None".into() } else { format!("(Some {})", dict.obj_of(kind, v)) }))
        }
        Query::PList | Query::PListBy(_) => format!("(OList {})", res_term(ordered, |v| list(v, Kind::P, dict))),
        Query::IList | Query::IListBy(_) => format!("(OList {})", res_term(ordered, |v| list(v, Kind::I, dict))),
        Query::PCounts => format!(
            "(OPCounts {})",
            res_term(ordered, |v| format!("({}, {}, {}, {})", v["open"], v["draft"], v["archived"], v["merged"]))
        ),
        Query::ICounts => format!("(OICounts {})", res_term(ordered, |v| format!("({}, {})", v["open"], v["closed"]))),
        Query::PFind(_) => format!(
            "(OFind {})",
            res_term(ordered, |v| {
                if v.is_null() {
                    "None".into()
                } else {
                    let pid = v["id"].as_str().unwrap();
                    dict.oid(pid);
                    let rev_ok = v["patch"]["revisions"][v["revision_id"].as_str().unwrap()] == v["revision"];
                    format!("(Some ({}, {}, {}))", oid_mark(pid), dict.obj_of(Kind::P, &v["patch"]), rev_ok.coq())
                }
            })
        ),
    }
}

/// Class of an oracle failure: the query kind, refined by what the queried id names.
fn failure_class(q: &Query, kinds: &BTreeMap<String, IdKind>, c: &Res, ctx: &CaseCtx) -> String {
    let shared = |id: &str| ctx.removed_shared.contains(id);
    match q {
        Query::PFind(id) => {
            let k = kinds.get(id).copied().unwrap_or(IdKind::Unknown);
            format!("patch-find-by-revision-{}-cached-{}", k.name(), c.tag())
        }
        Query::PGet(id) if shared(id) => "cache-remove-drops-object-still-held-by-other-remote".into(),
        Query::IGet(id) if shared(id) => "cache-remove-drops-object-still-held-by-other-remote".into(),
        Query::PGet(_) => "patch-get-mismatch".into(),
        Query::PList => "patch-list-mismatch".into(),
        Query::PListBy(_) => "patch-list-by-status-mismatch".into(),
        Query::PCounts => "patch-counts-mismatch".into(),
        Query::IGet(_) => "issue-get-mismatch".into(),
        Query::IList => "issue-list-mismatch".into(),
        Query::IListBy(Some(_)) => "issue-list-by-status-closed-mismatch".into(),
        Query::IListBy(None) => "issue-list-by-status-open-mismatch".into(),
        Query::ICounts => "issue-counts-mismatch".into(),
    }
}

fn sweep(run: &mut Run, id: &str, ctx: &mut CaseCtx, s: &Stores, r: &mut Rng, full: bool, touched: Option<(Kind, &str)>, history: &[String]) -> Vec<QObs> {
    let (ps, is) = direct_all(s);
    let kinds = classify(&ps, &is);
    let mut qs: Vec<Query> = vec![Query::PCounts, Query::ICounts, Query::PList, Query::IList];
    let statuses = [Status::Draft, Status::Open, Status::Archived, Status::Merged];
    let istates = [None, Some(true), Some(false)];
    if full {
        qs.extend(statuses.iter().map(|s| Query::PListBy(*s)));
        qs.extend(istates.iter().map(|s| Query::IListBy(*s)));
    } else {
        qs.push(Query::PListBy(*r.pick(&statuses)));
        qs.push(Query::IListBy(*r.pick(&istates)));
    }
    // ids: everything the store knows, ids of removed objects, one unknown
    let mut ids: Vec<(String, IdKind)> = kinds.iter().map(|(k, v)| (k.clone(), *v)).collect();
    for st in &ctx.stale {
        if !kinds.contains_key(st) {
            ids.push((st.clone(), IdKind::Stale));
        }
    }
    let unknown = {
        let b = r.bytes(20);
        b.iter().map(|x| format!("{x:02x}")).collect::<String>()
    };
    ids.push((unknown, IdKind::Unknown));
    let chosen: Vec<(String, IdKind)> = if full {
        ids.clone()
    } else {
        let mut c = vec![];
        for _ in 0..4 {
            c.push(r.pick(&ids).clone());
        }
        if let Some((_, t)) = touched {
            c.push((t.to_string(), kinds.get(t).copied().unwrap_or(IdKind::Stale)));
        }
        c
    };
    for (i, k) in &chosen {
        ctx.dict.oid(i);
        qs.push(Query::PFind(i.clone()));
        run.tally(&format!("find:{}", k.name()));
        if full || matches!(k, IdKind::Patch | IdKind::Revision | IdKind::Stale | IdKind::Unknown) {
            qs.push(Query::PGet(i.clone()));
        }
        if full || matches!(k, IdKind::Issue | IdKind::Stale) {
            qs.push(Query::IGet(i.clone()));
        }
    }
    let mut out = vec![];
    for q in qs {
        let (c, d, ordered) = s.eval(&q);
        run.tally(&format!("query:{}", match &q {
            Query::PGet(_) => "patch-get", Query::PList => "patch-list", Query::PListBy(_) => "patch-list-by-status",
            Query::PCounts => "patch-counts", Query::PFind(_) => "patch-find-by-revision", Query::IGet(_) => "issue-get",
            Query::IList => "issue-list", Query::IListBy(_) => "issue-list-by-status", Query::ICounts => "issue-counts" }));
        if let (Query::PFind(_), Res::Ok(v)) = (&q, &d) {
            if !v.is_null() { run.tally("find:direct-some"); }
        }
        if !c.same(&d) {
            let class = failure_class(&q, &kinds, &c, ctx);
            run.fail(
                id,
                &class,
                format!("{:?}: cached {} but direct evaluation {}", q, c.short(), d.short()),
                json!({"history": history, "query": format!("{q:?}")}),
            );
        }
        let obs = obs_term(&q, &ordered, &mut ctx.dict);
        out.push(QObs { q, obs });
    }
    out
}

fn pick_patch<'a>(r: &mut Rng, ps: &'a [(String, Value)]) -> Option<&'a (String, Value)> {
    if ps.is_empty() { None } else { Some(r.pick(ps)) }
}
fn live_revs(p: &Value) -> Vec<String> {
    p["revisions"].as_object().unwrap().iter().filter(|(_, v)| !v.is_null()).map(|(k, _)| k.clone()).collect()
}

/// One random action on a patch through a `PatchMut` (alice: cached store; bob: his own storage).
fn patch_action<R, C>(
    r: &mut Rng,
    n: u64,
    pid: &str,
    pv: &Value,
    p: &mut patch::PatchMut<'_, '_, R, C>,
    signer: &radicle::node::device::Device<MockSigner>,
    w: &World,
    delegate: bool,
) -> (String, Result<(), String>)
where
    R: ReadRepository + SignRepository + cob::Store<Namespace = radicle::prelude::NodeId>,
    C: cob::cache::Update<patch::Patch>,
{
    let revs = live_revs(pv);
    let rev = RevisionId::from(oid_of(r.pick(&revs)));
    let revv = &pv["revisions"][rev.to_string()];
    let me = signer.public_key().to_string();
    let e = |x: Result<_, patch::Error>| x.map(|_| ()).map_err(|e| e.to_string());
    // what is possible on this revision
    let my_comments: Vec<String> = revv["discussion"]["comments"].as_object().unwrap().iter()
        .filter(|(_, c)| !c.is_null() && c["author"] == json!(me)).map(|(k, _)| k.clone()).collect();
    let reviews: Vec<String> = revv["reviews"].as_object().unwrap().values().map(|rv| rv["id"].as_str().unwrap().to_string()).collect();
    let mut my_review_things: Vec<(String, Option<String>)> = vec![];
    for rv in revv["reviews"].as_object().unwrap().values() {
        let rid = rv["id"].as_str().unwrap().to_string();
        if rv["author"]["id"].as_str().unwrap().ends_with(&me) {
            my_review_things.push((rid.clone(), None));
        }
        for (cid, c) in rv["comments"]["comments"].as_object().unwrap() {
            if !c.is_null() && c["author"] == json!(me) {
                my_review_things.push((rid.clone(), Some(cid.clone())));
            }
        }
    }
    // non-root revisions of mine (redacting the root is refused)
    let my_revs: Vec<String> = revs.iter().filter(|x| *x != pid && pv["revisions"][*x]["author"]["id"].as_str().unwrap().ends_with(&me)).cloned().collect();
    let mut menu: Vec<(&str, u64)> = vec![("comment", 3), ("review", 2), ("revision", 2), ("lifecycle", 2), ("edit", 1)];
    if !my_comments.is_empty() { menu.push(("comment-redact", 3)); }
    if !reviews.is_empty() { menu.push(("review-comment", 4)); }
    if !my_review_things.is_empty() { menu.push(("review-thing-redact", 3)); }
    if !my_revs.is_empty() { menu.push(("revision-redact", 3)); }
    if delegate { menu.push(("merge", 1)); }
    let total: u64 = menu.iter().map(|m| m.1).sum();
    let mut x = r.below(total);
    let mut choice = menu[0].0;
    for (name, wgt) in &menu {
        if x < *wgt { choice = name; break; }
        x -= wgt;
    }
    match choice {
        "comment" => ("comment".into(), e(p.comment(rev, format!("c{n}"), None, None, vec![], signer))),
        "comment-redact" => ("comment-redact".into(), e(p.comment_redact(rev, oid_of(r.pick(&my_comments)), signer))),
        "review" => {
            let v = if r.bool() { Verdict::Accept } else { Verdict::Reject };
            ("review".into(), e(p.review(rev, Some(v), Some(format!("s{n}")), vec![], signer).map(|_| oid_of(pid))))
        }
        "review-comment" => {
            let rv = ReviewId::from(oid_of(r.pick(&reviews)));
            ("review-comment".into(), e(p.review_comment(rv, format!("rc{n}"), None, None, vec![], signer)))
        }
        "review-thing-redact" => match r.pick(&my_review_things).clone() {
            (rid, None) => ("review-redact".into(), e(p.redact_review(ReviewId::from(oid_of(&rid)), signer))),
            (rid, Some(c)) => ("review-comment-redact".into(), e(p.redact_review_comment(ReviewId::from(oid_of(&rid)), oid_of(&c), signer))),
        },
        "revision" => ("revision".into(), e(p.update(format!("r{n}"), w.base, w.head, signer).map(|_| oid_of(pid)))),
        "revision-redact" => ("revision-redact".into(), e(p.redact(RevisionId::from(oid_of(r.pick(&my_revs))), signer))),
        "lifecycle" => {
            let l = match r.below(3) { 0 => Lifecycle::Draft, 1 => Lifecycle::Open, _ => Lifecycle::Archived };
            (format!("lifecycle-{l:?}").to_lowercase(), e(p.lifecycle(l, signer)))
        }
        "merge" => ("merge".into(), e(p.merge(rev, w.head, signer).map(|m| m.entry))),
        _ => ("edit".into(), e(p.edit::<MockSigner, String>(format!("t{n}"), MergeTarget::Delegates, signer))),
    }
}

fn issue_action<R, C>(
    r: &mut Rng,
    n: u64,
    iid: &str,
    iv: &Value,
    i: &mut issue::IssueMut<'_, '_, R, C>,
    signer: &radicle::node::device::Device<MockSigner>,
) -> (String, Result<(), String>)
where
    R: ReadRepository + WriteRepository + SignRepository + cob::Store<Namespace = radicle::prelude::NodeId>,
    C: cob::cache::Update<issue::Issue>,
{
    let me = signer.public_key().to_string();
    let e = |x: Result<_, issue::Error>| x.map(|_| ()).map_err(|e| e.to_string());
    let choice = r.below(100);
    if choice < 35 {
        ("issue-comment".into(), e(i.comment(format!("ic{n}"), oid_of(iid), vec![], signer)))
    } else if choice < 50 {
        let mine: Vec<String> = iv["thread"]["comments"].as_object().unwrap().iter()
            .filter(|(k, c)| *k != iid && !c.is_null() && c["author"] == json!(me)).map(|(k, _)| k.clone()).collect();
        if mine.is_empty() {
            ("issue-comment".into(), e(i.comment(format!("ic{n}"), oid_of(iid), vec![], signer)))
        } else {
            ("issue-comment-redact".into(), e(i.redact_comment(oid_of(r.pick(&mine)), signer)))
        }
    } else if choice < 90 {
        let st = *r.pick(&[None, Some(true), Some(false)]);
        (format!("issue-lifecycle-{}", match st { None => "open", Some(true) => "solved", Some(false) => "other" }),
         e(i.lifecycle(istate_of(st), signer)))
    } else {
        ("issue-edit".into(), e(i.edit(format!("it{n}"), signer)))
    }
}

fn one_case(run: &mut Run, w: &World, id: &str, r: &mut Rng, len: u64, focus: bool) {
    run.eval();
    let cr = timed("copy-repos", || CaseRepos::new(w));
    let db: StoreWriter = Store::<Write>::memory().unwrap().with_migrations(migrate::ignore).unwrap();
    let arepo: &Repo = &cr.arepo;
    let mut s = Stores {
        pc: patch::Cache::open(patch::Patches::open(arepo).unwrap(), db.clone()),
        pd: patch::Cache::no_cache(arepo).unwrap(),
        ic: issue::Cache::open(issue::Issues::open(arepo).unwrap(), db.clone()),
        id: issue::Cache::no_cache(arepo).unwrap(),
    };
    let mut ctx = CaseCtx { dict: Dict::default(), steps: vec![], stale: BTreeSet::new(), removed_shared: BTreeSet::new(), n: 0, clock: 0 };
    let mut history: Vec<String> = vec![];
    let mut focus_patch: Option<String> = None;
    let asig = &w.alice.signer;
    let bsig = &w.bob.signer;

    for step_ix in 0..len {
        let (ps, is) = direct_all(&s);
        let mut c = r.below(100);
        // focus mode: few objects, many updates of the same patch
        if focus && !ps.is_empty() && c < 12 && r.chance(3, 4) { c = 20; }
        if focus && (40..62).contains(&c) && r.chance(2, 3) { c = if r.bool() { 20 } else { 90 }; }
        let mut step: Option<Step> = None;
        let mut touched: Option<(Kind, String)> = None;
        let n = ctx.tick();
        if c < 12 || (c < 40 && ps.is_empty()) {
            // alice creates a patch through the cache
            let draft = r.chance(1, 3);
            let res = if draft {
                s.pc.draft(format!("t{n}"), format!("d{n}"), MergeTarget::Delegates, w.base, w.head, &[], asig).map(|p| p.id)
            } else {
                s.pc.create(format!("t{n}"), format!("d{n}"), MergeTarget::Delegates, w.base, w.head, &[], asig).map(|p| p.id)
            };
            match res {
                Ok(pid) => {
                    let pid = pid.to_string();
                    history.push(format!("alice: patch {} {pid}", if draft { "draft" } else { "create" }));
                    run.tally(if draft { "op:patch-draft" } else { "op:patch-create" });
                    let v = json!(s.pd.get(&ObjectId::from(oid_of(&pid))).unwrap().unwrap());
                    let oi = ctx.dict.obj_of(Kind::P, &v);
                    ctx.dict.oid(&pid);
                    step = Some(Step::Put(Kind::P, pid.clone(), oi));
                    touched = Some((Kind::P, pid));
                }
                Err(e) => { run.tally("op-error:patch-create"); history.push(format!("alice: patch create failed: {e}")); }
            }
        } else if c < 40 {
            // alice acts on a patch through the cache (PatchMut is loaded from the cache)
            let (pid, pv) = match (&focus_patch, focus && r.chance(3, 4)) {
                (Some(f), true) if ps.iter().any(|p| &p.0 == f) => ps.iter().find(|p| &p.0 == f).unwrap().clone(),
                _ => pick_patch(r, &ps).unwrap().clone(),
            };
            focus_patch = Some(pid.clone());
            match s.pc.get_mut(&ObjectId::from(oid_of(&pid))) {
                Ok(mut pm) => {
                    let (name, res) = patch_action(r, n, &pid, &pv, &mut pm, asig, w, true);
                    drop(pm);
                    match res {
                        Ok(()) => {
                            history.push(format!("alice: {name} on patch {pid}"));
                            run.tally(&format!("op:{name}"));
                            let v = json!(s.pd.get(&ObjectId::from(oid_of(&pid))).unwrap().unwrap());
                            let oi = ctx.dict.obj_of(Kind::P, &v);
                            step = Some(Step::Put(Kind::P, pid.clone(), oi));
                            touched = Some((Kind::P, pid));
                        }
                        Err(e) => { run.tally(&format!("op-error:{name}")); history.push(format!("alice: {name} on patch {pid} failed: {e}")); }
                    }
                }
                Err(e) => { run.tally("op-error:get_mut-patch"); history.push(format!("alice: get_mut patch {pid} failed: {e}")); }
            }
        } else if c < 48 || (c < 62 && is.is_empty()) {
            match s.ic.create(format!("it{n}"), format!("id{n}"), &[], &[], [], asig).map(|i| *i.id()) {
                Ok(iid) => {
                    let iid = iid.to_string();
                    history.push(format!("alice: issue create {iid}"));
                    run.tally("op:issue-create");
                    let v = json!(s.id.get(&ObjectId::from(oid_of(&iid))).unwrap().unwrap());
                    let oi = ctx.dict.obj_of(Kind::I, &v);
                    ctx.dict.oid(&iid);
                    step = Some(Step::Put(Kind::I, iid.clone(), oi));
                    touched = Some((Kind::I, iid));
                }
                Err(e) => { run.tally("op-error:issue-create"); history.push(format!("alice: issue create failed: {e}")); }
            }
        } else if c < 62 {
            let (iid, iv) = r.pick(&is).clone();
            match s.ic.get_mut(&ObjectId::from(oid_of(&iid))) {
                Ok(mut im) => {
                    let (name, res) = issue_action(r, n, &iid, &iv, &mut im, asig);
                    drop(im);
                    match res {
                        Ok(()) => {
                            history.push(format!("alice: {name} on issue {iid}"));
                            run.tally(&format!("op:{name}"));
                            let v = json!(s.id.get(&ObjectId::from(oid_of(&iid))).unwrap().unwrap());
                            let oi = ctx.dict.obj_of(Kind::I, &v);
                            step = Some(Step::Put(Kind::I, iid.clone(), oi));
                            touched = Some((Kind::I, iid));
                        }
                        Err(e) => { run.tally(&format!("op-error:{name}")); history.push(format!("alice: {name} on issue {iid} failed: {e}")); }
                    }
                }
                Err(e) => { run.tally("op-error:get_mut-issue"); history.push(format!("alice: get_mut issue {iid} failed: {e}")); }
            }
        } else if c < 70 {
            // alice removes an object through the cache
            let kind = if (r.bool() && !ps.is_empty()) || is.is_empty() { Kind::P } else { Kind::I };
            let pool = if kind == Kind::P { &ps } else { &is };
            if let Some((oid, _)) = pick_patch(r, pool) {
                let o = ObjectId::from(oid_of(oid));
                let res = match kind {
                    Kind::P => s.pc.remove(&o, asig).map_err(|e| e.to_string()),
                    Kind::I => s.ic.remove(&o, asig).map_err(|e| e.to_string()),
                };
                match res {
                    Ok(()) => {
                        let after = match kind {
                            Kind::P => s.pd.get(&o).unwrap().map(|p| json!(p)),
                            Kind::I => s.id.get(&o).unwrap().map(|p| json!(p)),
                        };
                        history.push(format!("alice: remove {kind:?} {oid} (still held by another remote: {})", after.is_some()));
                        run.tally(if after.is_some() { "op:remove-still-held-by-other-remote" } else { "op:remove" });
                        if after.is_some() { ctx.removed_shared.insert(oid.clone()); }
                        ctx.stale.insert(oid.clone());
                        if kind == Kind::P {
                            for k in classify(&ps, &[]).keys() { ctx.stale.insert(k.clone()); }
                        }
                        let after = after.map(|v| ctx.dict.obj_of(kind, &v));
                        step = Some(Step::Remove(kind, oid.clone(), after));
                        touched = Some((kind, oid.clone()));
                    }
                    Err(e) => { run.tally("op-error:remove"); history.push(format!("alice: remove {oid} failed: {e}")); }
                }
            }
        } else if c < 75 && r.chance(1, 3) && !(ps.is_empty() && is.is_empty()) {
            // Cache::write(id): re-read one object from the repository into the cache
            let kind = if (r.bool() && !ps.is_empty()) || is.is_empty() { Kind::P } else { Kind::I };
            let pool = if kind == Kind::P { &ps } else { &is };
            let (oid, v) = pick_patch(r, pool).unwrap().clone();
            let o = ObjectId::from(oid_of(&oid));
            let res = match kind {
                Kind::P => s.pc.write(&o).map_err(|e| e.to_string()),
                Kind::I => s.ic.write(&o).map_err(|e| e.to_string()),
            };
            match res {
                Ok(()) => {
                    history.push(format!("alice: write {kind:?} {oid}"));
                    run.tally("op:write");
                    let oi = ctx.dict.obj_of(kind, &v);
                    step = Some(Step::Put(kind, oid.clone(), oi));
                    touched = Some((kind, oid));
                }
                Err(e) => { run.tally("op-error:write"); history.push(format!("alice: write {oid} failed: {e}")); }
            }
        } else if c < 75 {
            let kind = if r.bool() { Kind::P } else { Kind::I };
            let res = match kind {
                Kind::P => s.pc.write_all(|_, _| ControlFlow::Continue(())).map_err(|e| e.to_string()),
                Kind::I => s.ic.write_all(|_, _| ControlFlow::Continue(())).map_err(|e| e.to_string()),
            };
            match res {
                Ok(()) => {
                    history.push(format!("alice: write_all {kind:?}"));
                    run.tally("op:write_all");
                    ctx.removed_shared.retain(|x| match kind { Kind::P => !ps.iter().any(|p| &p.0 == x), Kind::I => !is.iter().any(|p| &p.0 == x) });
                    step = Some(Step::WriteAll(kind));
                }
                Err(e) => { run.tally("op-error:write_all"); history.push(format!("alice: write_all failed: {e}")); }
            }
        } else {
            // bob works in his own storage, alice fetches from him, the fetch writes the cache
            timed("sync-bob", || cr.sync_bob_from_alice());
            let before: BTreeMap<String, Value> = ps.iter().chain(is.iter()).cloned().collect();
            let k = 1 + r.below(3);
            {
                let mut bp = patch::Cache::no_cache(&cr.brepo).unwrap();
                let mut bi = issue::Cache::no_cache(&cr.brepo).unwrap();
                for _ in 0..k {
                    let n = ctx.tick();
                    let bps: Vec<(String, Value)> = bp.list().unwrap().filter_map(|r| r.ok()).map(|(i, p)| (i.to_string(), json!(p))).collect();
                    let bis: Vec<(String, Value)> = bi.list().unwrap().filter_map(|r| r.ok()).map(|(i, p)| (i.to_string(), json!(p))).collect();
                    let c = r.below(100);
                    let mut c = c;
                    if focus && !bps.is_empty() && r.chance(3, 5) { c = 20; }
                    if c < 15 || (c < 50 && bps.is_empty()) {
                        match bp.create(format!("bt{n}"), format!("bd{n}"), MergeTarget::Delegates, w.base, w.head, &[], bsig).map(|p| p.id) {
                            Ok(pid) => { run.tally("bob-op:patch-create"); history.push(format!("bob: patch create {pid}")); }
                            Err(e) => { run.tally("bob-op-error:patch-create"); history.push(format!("bob: patch create failed: {e}")); }
                        }
                    } else if c < 50 {
                        let (pid, pv) = match (&focus_patch, focus && r.chance(3, 4)) {
                            (Some(f), true) if bps.iter().any(|p| &p.0 == f) => bps.iter().find(|p| &p.0 == f).unwrap().clone(),
                            _ => r.pick(&bps).clone(),
                        };
                        let mut pm = bp.get_mut(&ObjectId::from(oid_of(&pid))).unwrap();
                        let (name, res) = patch_action(r, n, &pid, &pv, &mut pm, bsig, w, false);
                        match res {
                            Ok(()) => { run.tally(&format!("bob-op:{name}")); history.push(format!("bob: {name} on patch {pid}")); }
                            Err(e) => { run.tally(&format!("bob-op-error:{name}")); history.push(format!("bob: {name} on patch {pid} failed: {e}")); }
                        }
                    } else if c < 60 || (c < 80 && bis.is_empty()) {
                        match bi.create(format!("bit{n}"), format!("bid{n}"), &[], &[], [], bsig).map(|i| *i.id()) {
                            Ok(iid) => { run.tally("bob-op:issue-create"); history.push(format!("bob: issue create {iid}")); }
                            Err(e) => { run.tally("bob-op-error:issue-create"); history.push(format!("bob: issue create failed: {e}")); }
                        }
                    } else if c < 80 {
                        let (iid, iv) = r.pick(&bis).clone();
                        let mut im = bi.get_mut(&ObjectId::from(oid_of(&iid))).unwrap();
                        let (name, res) = issue_action(r, n, &iid, &iv, &mut im, bsig);
                        match res {
                            Ok(()) => { run.tally(&format!("bob-op:{name}")); history.push(format!("bob: {name} on issue {iid}")); }
                            Err(e) => { run.tally(&format!("bob-op-error:{name}")); history.push(format!("bob: {name} on issue {iid} failed: {e}")); }
                        }
                    } else {
                        // bob deletes his own ref of an object
                        let kind = if (r.bool() && !bps.is_empty()) || bis.is_empty() { Kind::P } else { Kind::I };
                        let pool = if kind == Kind::P { &bps } else { &bis };
                        if let Some((oid, _)) = pick_patch(r, pool) {
                            let o = ObjectId::from(oid_of(oid));
                            let res = match kind {
                                Kind::P => bp.remove(&o, bsig).map_err(|e| e.to_string()),
                                Kind::I => bi.remove(&o, bsig).map_err(|e| e.to_string()),
                            };
                            match res {
                                Ok(()) => { run.tally("bob-op:remove"); history.push(format!("bob: remove {kind:?} {oid}")); }
                                Err(e) => { run.tally("bob-op-error:remove"); history.push(format!("bob: remove failed: {e}")); }
                            }
                        }
                    }
                }
            }
            let ups = timed("fetch-alice", || cr.fetch_alice_from_bob());
            let mut dbw = db.clone();
            match radicle_node::worker::fetch::verif::cache_cobs(&w.rid, &ups, arepo, &mut dbw) {
                Ok(()) => {}
                Err(e) => { run.fail(id, "cache-cobs-error", format!("cache_cobs failed: {e}"), json!({"history": history})); }
            }
            // the changed cob refs, as the fetch reported them
            let mut changed: BTreeSet<(Kind, String)> = BTreeSet::new();
            for u in &ups {
                let name = match u {
                    RefUpdate::Updated { name, .. } | RefUpdate::Created { name, .. } | RefUpdate::Deleted { name, .. } => name,
                    RefUpdate::Skipped { .. } => continue,
                };
                let parts: Vec<&str> = name.as_str().split('/').collect();
                if let Some(i) = parts.iter().position(|p| *p == "cobs") {
                    if parts.len() > i + 2 {
                        let kind = match parts[i + 1] { "xyz.radicle.patch" => Kind::P, "xyz.radicle.issue" => Kind::I, _ => continue };
                        changed.insert((kind, parts[i + 2].to_string()));
                        run.tally(match u { RefUpdate::Deleted { .. } => "fetch-ref:deleted", RefUpdate::Created { .. } => "fetch-ref:created", _ => "fetch-ref:updated" });
                    }
                }
            }
            let (ps2, is2) = direct_all(&s);
            let after: BTreeMap<String, Value> = ps2.iter().chain(is2.iter()).cloned().collect();
            // harness assumption: the fetch reports every object whose evaluation changed
            for k in before.keys().chain(after.keys()) {
                if before.get(k) != after.get(k) && !changed.iter().any(|(_, c)| c == k) {
                    run.fail(id, "fetch-changed-object-without-ref-update", format!("object {k} changed but no ref update was reported"), json!({"history": history}));
                }
            }
            let mut l = vec![];
            for (kind, oid) in &changed {
                ctx.dict.oid(oid);
                let a = after.get(oid).map(|v| ctx.dict.obj_of(*kind, v));
                if a.is_none() {
                    ctx.stale.insert(oid.clone());
                    run.tally("fetch:object-removed");
                } else {
                    ctx.removed_shared.remove(oid);
                    run.tally("fetch:object-updated");
                }
                l.push((*kind, oid.clone(), a));
            }
            history.push(format!("alice: fetch from bob, {} cob ref(s) changed, cache_cobs", changed.len()));
            run.tally("op:fetch");
            step = Some(Step::Fetch(l));
        }
        if let Some(st) = step {
            let full = step_ix + 1 == len || r.chance(1, 6);
            let t = touched.as_ref().map(|(k, s)| (*k, s.as_str()));
            let obs = timed("sweep", || sweep(run, id, &mut ctx, &s, r, full, t, &history));
            ctx.steps.push((st, obs));
        }
        let _ = &mut s;
    }
    // final direct snapshot: ties the model's abstract store to the real one
    let (ps, is) = direct_all(&s);
    let mut fin = vec![];
    for (kind, l) in [(Kind::P, &ps), (Kind::I, &is)] {
        let mut l: Vec<(String, Value)> = l.clone();
        l.sort_by(|a, b| a.0.cmp(&b.0));
        let items: Vec<String> = l.iter().map(|(i, v)| { ctx.dict.oid(i); format!("({}, {})", oid_mark(i), ctx.dict.obj_of(kind, v)) }).collect();
        fin.push(format!("[{}]", items.join("; ")));
    }
    if ctx.dict.payload_oid_key {
        run.fail(id, "harness-payload-contains-oid-key", "a subtree abstracted as an opaque payload has an oid-like object key".into(), json!({"history": history}));
    }
    // render
    let ranks: BTreeMap<String, u64> = ctx.dict.oids.iter().enumerate().map(|(i, s)| (s.clone(), i as u64 + 1)).collect();
    let actors: BTreeMap<String, u64> = ctx.dict.actors.iter().enumerate().map(|(i, s)| (s.clone(), i as u64 + 1)).collect();
    let objs: Vec<String> = ctx.dict.objs.iter().map(|o| render(&obj_term(o, &actors), &ranks)).collect();
    let mut steps = vec![];
    let mut obss = vec![];
    for (st, qs) in &ctx.steps {
        let stt = match st {
            Step::Put(k, i, o) => format!("IPut {} {} {}", k.coq(), oid_mark(i), o),
            Step::Remove(k, i, a) => format!("IRemove {} {} {}", k.coq(), oid_mark(i), a.coq()),
            Step::Fetch(l) => format!("IFetch [{}]", l.iter().map(|(k, i, a)| format!("({}, {}, {})", k.coq(), oid_mark(i), a.coq())).collect::<Vec<_>>().join("; ")),
            Step::WriteAll(k) => format!("IWriteAll {}", k.coq()),
        };
        let qt: Vec<String> = qs.iter().map(|q| query_term(&q.q)).collect();
        steps.push(render(&format!("({}, [{}])", stt, qt.join("; ")), &ranks));
        let ot: Vec<String> = qs.iter().map(|q| q.obs.clone()).collect();
        obss.push(render(&format!("[{}]", ot.join("; ")), &ranks));
    }
    let input = format!("mkCase [{}] [{}]", objs.join("; "), steps.join("; "));
    let obs = format!("mkObs [{}] {} {}", obss.join("; "), render(&fin[0], &ranks), render(&fin[1], &ranks));
    run.case(id, input, obs);
    if ctx.steps.len() >= 3 {
        run.nontrivial(history.join("|"));
    }
    run.sample(json!({"case_id": id, "history": history}));
}

fn main() {
    quiet_panics();
    let mut run = Run::new(
        "C09",
        "model.CobCache",
        "each case: a fresh cache over a real repository (alice) with a second peer (bob); random history of patch/issue \
         creations, updates (revisions, comments, reviews, review comments, redactions, every lifecycle state, merge), removals, \
         write_all and fetched updates; after every step the cached and the direct store answer the same queries \
         (get, list, list_by_status, counts, find_by_revision with revision / redacted / comment / review / stale / unknown ids). \
         Non-trivial = history with at least 3 effective steps; distinct by the op history.",
    );
    run.shard_size(40);
    let seed = run.args.seed;
    let n = run.args.count(25, 160);
    let w = World::new();
    for i in 0..n {
        for stream in [0u64, 1u64, 2u64] {
            let id = format!("{}:{}", stream, i);
            if !run.args.wants(&id) {
                continue;
            }
            let mut r = Rng::for_case(seed, stream, i);
            // stream 0: short histories; stream 1: longer mixed histories; stream 2: long histories
            // focused on one patch (many revisions / comments / reviews / redactions on it)
            let len = match stream { 0 => 4 + r.below(5), 1 => 9 + r.below(10), _ => 12 + r.below(10) };
            one_case(&mut run, &w, &id, &mut r, len, stream == 2);
        }
    }
    if std::env::var("HW_TIMES").is_ok() {
        TIMES.with(|m| eprintln!("{:?}", m.borrow()));
    }
    run.finish();
}
