//! C05: collaborative object state is a function of the change set.
//!
//! Random change DAGs are written as REAL COB commits into a real radicle
//! test repository and exposed through different sets of namespace refs; the
//! real `radicle_cob::get` loads and evaluates them.
//!
//! Streams
//!   0: object type `Toy` (an `Evaluate` implementation of this harness that
//!      records every `apply` call with the siblings it is handed, and fails —
//!      atomically or after mutating — when the change's payload says so).
//!      Exact correspondence with coq/model/ChangeGraph.v: result kind,
//!      manifest, the recorded evaluation order, the sequence of apply calls,
//!      the pruned history graph and its tips.  Direct oracle: all ref layouts
//!      of one DAG with the same loadable closure give the same observation,
//!      and the history consists exactly of closure changes.
//!   1: the real `Issue` type (several actors, valid multi-action ops):
//!      direct oracle only — object JSON, history nodes and tips are identical
//!      across ref layouts with the same closure.
mod cobdag;
use cobdag::*;
use hw_common::*;
use radicle::cob::{self, Entry, EntryId, ObjectId, TypeName};
use radicle::git::Oid;
use radicle::storage::git::Repository;
use radicle_cob::change::Storage as _;
use std::cell::RefCell;
use std::collections::{BTreeMap, BTreeSet};
use std::str::FromStr;

// ---------------------------------------------------------------- the toy object

thread_local! {
    static CALLS: RefCell<Vec<(Oid, Vec<Oid>, bool)>> = const { RefCell::new(Vec::new()) };
}

#[derive(Debug)]
struct Toy {
    applied: Vec<(Oid, Vec<Oid>)>,
}

#[derive(Debug, thiserror::Error)]
#[error("toy: {0}")]
struct ToyError(&'static str);

fn payload_of(e: &Entry) -> u8 {
    e.contents().head.first().copied().unwrap_or(b'0') - b'0'
}

impl cob::Evaluate<Repository> for Toy {
    type Error = ToyError;

    fn init(entry: &Entry, _: &Repository) -> Result<Self, Self::Error> {
        if payload_of(entry) == 3 {
            return Err(ToyError("init"));
        }
        Ok(Toy { applied: vec![(*entry.id(), vec![])] })
    }

    fn apply<'a, I: Iterator<Item = (&'a EntryId, &'a Entry)>>(
        &mut self,
        entry: &Entry,
        concurrent: I,
        _: &Repository,
    ) -> Result<(), Self::Error> {
        let sibs: Vec<Oid> = concurrent.map(|(k, _)| *k).collect();
        let id = *entry.id();
        let r = match payload_of(entry) {
            0 => {
                self.applied.push((id, sibs.clone()));
                Ok(())
            }
            1 => Err(ToyError("apply")),
            2 => {
                self.applied.push((id, sibs.clone()));
                Err(ToyError("apply after mutation"))
            }
            _ => Ok(()),
        };
        CALLS.with(|c| c.borrow_mut().push((id, sibs, r.is_ok())));
        r
    }
}

// ---------------------------------------------------------------- DAG generation

#[derive(Clone, Debug)]
struct NodeSpec {
    parents: Vec<usize>,
    ts: u64,
    actor: usize,
    bad_sig: bool,
    payload: u8,
    plain: bool,    // not a change: an ordinary commit
    manifest: usize, // index into the type names
}

fn gen_dag(rng: &mut Rng, n: usize, hostile: bool) -> Vec<NodeSpec> {
    let mut nodes: Vec<NodeSpec> = vec![];
    let ts_span = rng.range(1, 4);
    // a third of the DAGs carry timestamps far ahead of any evaluator's wall clock (year 2100):
    // the evaluation order must be a function of the changes alone, not of "now"
    let ts_base: u64 = if rng.chance(1, 3) { 4_102_444_800 } else { 1000 };
    for i in 0..n {
        let mut parents = vec![];
        if i > 0 {
            // children of existing nodes; now and then a merge, now and then a second root
            let second_root = hostile && rng.chance(1, 12);
            if !second_root {
                let k = if rng.chance(1, 3) { rng.range(2, 3) } else { 1 } as usize;
                // prefer recent nodes half of the time (long chains), else anything (wide fans)
                for _ in 0..k {
                    let p = if rng.bool() { i - 1 - rng.below((i.min(3)) as u64) as usize } else { rng.below(i as u64) as usize };
                    if !parents.contains(&p) {
                        parents.push(p);
                    }
                }
            }
        }
        let plain = hostile && i > 0 && rng.chance(1, 10);
        nodes.push(NodeSpec {
            parents,
            ts: ts_base + rng.below(ts_span),
            actor: rng.below(N_ACTORS as u64) as usize,
            bad_sig: rng.chance(1, if hostile { 6 } else { 15 }),
            payload: match rng.below(10) {
                0 => 1,
                1 => 2,
                2 if hostile => 3,
                _ => 0,
            },
            plain,
            manifest: if hostile && rng.chance(1, 12) { 1 } else { 0 },
        });
    }
    if !hostile || rng.chance(4, 5) {
        // a sane root most of the time
        nodes[0].bad_sig = hostile && rng.chance(1, 15);
        nodes[0].payload = if hostile && rng.chance(1, 15) { 3 } else { 0 };
        nodes[0].plain = hostile && rng.chance(1, 20);
    }
    nodes
}

struct Written {
    oids: Vec<Oid>,
    entries: BTreeMap<Oid, Entry>, // what the real storage loads, for every change
}

fn write_dag(w: &World, types: &[TypeName], nodes: &[NodeSpec], tag: &str) -> Written {
    let mut oids: Vec<Oid> = vec![];
    let mut entries = BTreeMap::new();
    for (k, nd) in nodes.iter().enumerate() {
        let tips: Vec<Oid> = nd.parents.iter().map(|p| oids[*p]).collect();
        let oid = if nd.plain {
            w.plain_commit(&tips, &format!("{tag}:{k}"))
        } else {
            let e = w.store_change(&types[nd.manifest], &tips, nd.actor, nd.ts, vec![vec![b'0' + nd.payload]], nd.bad_sig, Some(w.resource), &format!("{tag}:{k}"));
            e.id
        };
        if let Ok(e) = w.repo().load(oid) {
            entries.insert(oid, e);
        }
        oids.push(oid);
    }
    Written { oids, entries }
}

/// The changes reachable from `tips` through parents of loadable changes.
fn closure(entries: &BTreeMap<Oid, Entry>, tips: &[Oid]) -> BTreeSet<Oid> {
    let mut seen = BTreeSet::new();
    let mut stack: Vec<Oid> = tips.to_vec();
    while let Some(x) = stack.pop() {
        if let Some(e) = entries.get(&x) {
            if seen.insert(x) {
                stack.extend(e.parents.iter().cloned());
            }
        }
    }
    seen
}

fn gen_layouts(rng: &mut Rng, nodes: &[NodeSpec], oids: &[Oid]) -> Vec<Vec<(usize, Oid)>> {
    let n = nodes.len();
    let mut has_child = vec![false; n];
    for nd in nodes {
        for p in &nd.parents {
            has_child[*p] = true;
        }
    }
    let mut tips: Vec<usize> = (0..n).filter(|i| !has_child[*i]).collect();
    rng.shuffle(&mut tips);
    tips.truncate(N_NAMESPACES);
    let mut layouts = vec![];
    // A: the DAG's tips, one namespace each
    let mut ns: Vec<usize> = (0..N_NAMESPACES).collect();
    rng.shuffle(&mut ns);
    layouts.push(tips.iter().enumerate().map(|(i, t)| (ns[i], oids[*t])).collect::<Vec<_>>());
    // B: the same tips under permuted namespaces
    rng.shuffle(&mut ns);
    layouts.push(tips.iter().enumerate().map(|(i, t)| (ns[i], oids[*t])).collect());
    // C: same closure, with duplicates and interior changes in the free namespaces
    rng.shuffle(&mut ns);
    let mut c: Vec<(usize, Oid)> = tips.iter().enumerate().map(|(i, t)| (ns[i], oids[*t])).collect();
    for i in tips.len()..N_NAMESPACES {
        if rng.chance(2, 3) {
            c.push((ns[i], oids[rng.below(n as u64) as usize]));
        }
    }
    layouts.push(c);
    // D: an arbitrary subset of the changes (usually a different closure)
    rng.shuffle(&mut ns);
    let k = rng.range(1, 3) as usize;
    layouts.push((0..k).map(|i| (ns[i], oids[rng.below(n as u64) as usize])).collect());
    layouts
}

// ---------------------------------------------------------------- observation

#[derive(Clone, Debug, PartialEq)]
enum Obs {
    None,
    MissingRoot,
    Signature,
    Init,
    Panic(String),
    Other(String),
    Ok { manifest: u64, obj: Vec<(u64, Vec<u64>)>, calls: Vec<(u64, Vec<u64>, bool)>, hist: Vec<(u64, (Vec<u64>, Vec<u64>))>, tips: Vec<u64> },
}
impl Coq for Obs {
    fn coq(&self) -> String {
        match self {
            Obs::None => "ONone".into(),
            Obs::MissingRoot => "OMissingRoot".into(),
            Obs::Signature => "OSignature".into(),
            Obs::Init => "OInit".into(),
            Obs::Panic(_) => "OPanic".into(),
            Obs::Other(_) => "OFuel".into(), // never matches
            Obs::Ok { manifest, obj, calls, hist, tips } => format!("(OOk {} {} {} ({}, {}))", manifest, obj.coq(), calls.coq(), hist.coq(), tips.coq()),
        }
    }
}

fn classify_err(e: &cob::object::collaboration::error::Retrieve) -> Obs {
    let s = e.to_string();
    if s.contains("missing from graph") {
        Obs::MissingRoot
    } else if s.contains("invalid signature for entry") {
        Obs::Signature
    } else if s.contains("unable to initialize object") {
        Obs::Init
    } else {
        Obs::Other(s)
    }
}

fn observe_toy(w: &World, types: &[TypeName], object: &ObjectId, ranks: &Ranks) -> Obs {
    CALLS.with(|c| c.borrow_mut().clear());
    let repo = w.repo();
    let r = catch(std::panic::AssertUnwindSafe(|| cob::get::<Toy, _>(repo, &types[0], object)));
    match r {
        Err(p) => Obs::Panic(p),
        Ok(Ok(None)) => Obs::None,
        Ok(Err(e)) => classify_err(&e),
        Ok(Ok(Some(co))) => {
            let (nodes, tips) = history_dump(&co.history);
            let manifest = types.iter().position(|t| t == co.typename()).map(|i| i as u64).unwrap_or(99);
            Obs::Ok {
                manifest,
                obj: co.object.applied.iter().map(|(k, s)| (ranks.of(k), ranks.list(s))).collect(),
                calls: CALLS.with(|c| c.borrow().iter().map(|(k, s, ok)| (ranks.of(k), ranks.list(s), *ok)).collect()),
                hist: nodes.iter().map(|(k, (d, p))| (ranks.of(k), (ranks.list(d), ranks.list(p)))).collect(),
                tips: ranks.list(&tips),
            }
        }
    }
}

fn store_term(wr: &Written, w: &World, types: &[TypeName], ranks: &Ranks) -> String {
    let mut rows = vec![];
    for (oid, e) in &wr.entries {
        let author = (0..N_ACTORS).position(|i| w.actor_key(i) == *e.author()).unwrap_or(99) as u64;
        let manifest = types.iter().position(|t| t == e.type_name()).map(|i| i as u64).unwrap_or(99);
        rows.push(format!(
            "({}, ({}, {}, {}, {}, {}, {}))",
            ranks.of(oid),
            ranks.list(&e.parents).coq(),
            e.timestamp,
            author,
            e.valid_signatures().coq(),
            manifest,
            payload_of(e)
        ));
    }
    format!("[{}]", rows.join("; "))
}

// ---------------------------------------------------------------- stream 0

fn stream_toy(run: &mut Run, w: &World, types: &[TypeName]) {
    let count = run.args.count(260, 1800);
    for i in 0..count {
        let mut rng = Rng::for_case(run.args.seed, 0, i);
        let hostile = i % 3 != 0;
        let n = rng.range(3, 12) as usize;
        let nodes = gen_dag(&mut rng, n, hostile);
        if !run.args.only.as_ref().map_or(true, |o| o.starts_with(&format!("0:{i}:"))) {
            continue;
        }
        let wr = write_dag(w, types, &nodes, &format!("{}:0:{i}", run.args.seed));
        let ranks = Ranks::new(wr.oids.iter().cloned());
        let layouts = gen_layouts(&mut rng, &nodes, &wr.oids);
        // the object id: the first node, sometimes another one
        let obj_ix = if hostile && rng.chance(1, 10) { rng.below(n as u64) as usize } else { 0 };
        let object = ObjectId::from(wr.oids[obj_ix]);
        let store = store_term(&wr, w, types, &ranks);
        let mut by_closure: BTreeMap<BTreeSet<Oid>, Vec<(usize, Obs)>> = BTreeMap::new();
        for (l, layout) in layouts.iter().enumerate() {
            let id = format!("0:{i}:{l}");
            w.set_refs(&types[0], &object, layout);
            let targets = w.ref_targets(&types[0], &object);
            let obs = observe_toy(w, types, &object, &ranks);
            run.eval();
            let cl = closure(&wr.entries, &targets);
            // ---- direct oracle, part 1: the history is made of closure changes only,
            //      and every change the toy saw applied is in the closure
            if let Obs::Ok { hist, calls, obj, .. } = &obs {
                let clr: BTreeSet<u64> = cl.iter().map(|o| ranks.of(o)).collect();
                if hist.iter().any(|(k, _)| !clr.contains(k)) || calls.iter().any(|(k, _, _)| !clr.contains(k)) {
                    run.fail(&id, "cob-history-outside-closure", format!("history or evaluation touches a change that is not reachable from the refs: {:?}", obs), json!({"nodes": format!("{:?}", nodes), "layout": format!("{:?}", layout)}));
                }
                // evaluation order respects dependencies
                let pos: BTreeMap<u64, usize> = obj.iter().enumerate().map(|(p, (k, _))| (*k, p)).collect();
                for (k, (deps, _)) in hist {
                    if let Some(pk) = pos.get(k) {
                        for d in deps {
                            if let Some(pd) = pos.get(d) {
                                if pd >= pk {
                                    run.fail(&id, "cob-evaluated-before-dependency", format!("change {k} applied before its parent {d}"), json!({"nodes": format!("{:?}", nodes)}));
                                }
                            }
                        }
                    }
                }
            }
            if let Obs::Panic(p) = &obs {
                run.fail(&id, "cob-get-panic", format!("get panicked: {p}"), json!({"nodes": format!("{:?}", nodes), "layout": format!("{:?}", layout)}));
            }
            if let Obs::Other(s) = &obs {
                run.fail(&id, "cob-get-unexpected-error", s.clone(), json!({"nodes": format!("{:?}", nodes)}));
            }
            run.tally(match &obs {
                Obs::None => "result:none",
                Obs::MissingRoot => "result:missing-root",
                Obs::Signature => "result:root-signature",
                Obs::Init => "result:init-error",
                Obs::Panic(_) => "result:panic",
                Obs::Other(_) => "result:other",
                Obs::Ok { .. } => "result:ok",
            });
            if let Obs::Ok { hist, calls, .. } = &obs {
                if hist.len() < cl.len() {
                    run.tally("ok:pruned-something");
                }
                if calls.iter().any(|(_, s, _)| !s.is_empty()) {
                    run.tally("ok:apply-saw-siblings");
                }
                if calls.iter().any(|c| !c.2) {
                    run.tally("ok:apply-error");
                }
                run.nontrivial(format!("{:?}", (hist, calls)));
            }
            if targets.iter().any(|t| !wr.entries.contains_key(t)) {
                run.tally("refs:unloadable-target");
            }
            if cl.iter().any(|c| wr.entries[c].parents.iter().any(|p| !wr.entries.contains_key(p))) {
                run.tally("closure:dangling-parent");
            }
            let tips_n = ranks.list(&targets);
            run.case(&id, format!("(CGet {} {} {})", store, tips_n.coq(), ranks.of(&wr.oids[obj_ix])), obs.coq());
            by_closure.entry(cl).or_default().push((l, obs));
        }
        // ---- direct oracle, part 2: same closure => same object, history, order
        for (cl, group) in &by_closure {
            if group.len() > 1 {
                run.tally("layouts:same-closure-group");
            }
            for (l, o) in &group[1..] {
                if *o != group[0].1 {
                    run.fail(&format!("0:{i}:{l}"), "cob-state-depends-on-refs", format!("layouts {} and {} have the same closure ({} changes) but evaluate differently: {:?} vs {:?}", group[0].0, l, cl.len(), group[0].1, o), json!({"nodes": format!("{:?}", nodes), "layouts": format!("{:?}", layouts)}));
                }
            }
        }
        if i < 3 {
            run.sample(json!({"nodes": format!("{:?}", nodes), "layouts": format!("{:?}", layouts.iter().map(|l| l.iter().map(|(n, o)| (*n, ranks.of(o))).collect::<Vec<_>>()).collect::<Vec<_>>())}));
        }
        w.set_refs(&types[0], &object, &[]);
    }
}

// ---------------------------------------------------------------- stream 1: real issues

fn enc(v: Value) -> Vec<u8> {
    serde_json::to_vec(&v).unwrap()
}

fn stream_issue(run: &mut Run, w: &World) {
    use radicle::cob::issue::{Issue, TYPENAME};
    let count = run.args.count(60, 400);
    for i in 0..count {
        let id0 = format!("1:{i}");
        if !run.args.wants(&id0) {
            continue;
        }
        let mut rng = Rng::for_case(run.args.seed, 1, i);
        let n = rng.range(3, 12) as usize;
        let shape = gen_dag(&mut rng, n, false);
        // write the issue ops
        let mut oids: Vec<Oid> = vec![];
        let mut comments: Vec<Oid> = vec![]; // ops that (try to) create a comment
        let mut kinds = vec![];
        for (k, nd) in shape.iter().enumerate() {
            let tips: Vec<Oid> = nd.parents.iter().map(|p| oids[*p]).collect();
            let mut actions = vec![];
            if k == 0 {
                actions.push(json!({"type": "comment", "body": "root"}));
                actions.push(json!({"type": "edit", "title": "t0"}));
            } else {
                let n_act = if rng.chance(1, 3) { 2 } else { 1 };
                let mut pushed = false;
                for a in 0..n_act {
                    // only ancestors' comments may be referenced (they exist when the op is applied)
                    let anc: Vec<Oid> = ancestors(&shape, k).into_iter().filter(|j| comments.contains(&oids[*j])).map(|j| oids[j]).collect();
                    let target = *rng.pick(&anc);
                    // an op may push its id on the thread timeline once only
                    // (`debug_assert!(!thread.timeline.contains(&id))` in radicle::cob::thread)
                    let mut kind = rng.below(7);
                    if matches!(kind, 0 | 4 | 5) {
                        if pushed {
                            kind = 1 + rng.below(3);
                        }
                        pushed = true;
                    }
                    kinds.push(kind);
                    actions.push(match kind {
                        0 => json!({"type": "comment", "body": format!("c{k}"), "replyTo": target.to_string()}),
                        1 => json!({"type": "edit", "title": format!("title {k}.{a}")}),
                        2 => json!({"type": "lifecycle", "state": if rng.bool() { json!({"status": "open"}) } else { json!({"status": "closed", "reason": "solved"}) }}),
                        3 => json!({"type": "label", "labels": [format!("l{}", rng.below(3))]}),
                        4 => json!({"type": "comment.react", "id": target.to_string(), "reaction": "👍", "active": rng.bool()}),
                        5 => json!({"type": "comment.edit", "id": target.to_string(), "body": format!("e{k}"), "embeds": []}),
                        _ => json!({"type": "assign", "assignees": []}),
                    });
                }
            }
            // delegate-only and author-only actions: let the delegate (actor 0) write most ops
            let actor = if rng.chance(2, 3) { 0 } else { nd.actor };
            let e = w.store_change(&TYPENAME, &tips, actor, nd.ts, actions.iter().cloned().map(enc).collect(), nd.bad_sig && k > 0, Some(w.resource), &format!("{}:1:{i}:{k}", run.args.seed));
            if actions.iter().any(|a| a["type"] == "comment") {
                comments.push(e.id);
            }
            oids.push(e.id);
        }
        let entries: BTreeMap<Oid, Entry> = oids.iter().map(|o| (*o, w.repo().load(*o).unwrap())).collect();
        let object = ObjectId::from(oids[0]);
        let layouts = gen_layouts(&mut rng, &shape, &oids);
        let mut by_closure: BTreeMap<BTreeSet<Oid>, Vec<(usize, String)>> = BTreeMap::new();
        for (l, layout) in layouts.iter().enumerate() {
            w.set_refs(&TYPENAME, &object, layout);
            let targets = w.ref_targets(&TYPENAME, &object);
            let cl = closure(&entries, &targets);
            let repo = w.repo();
            let r = catch(std::panic::AssertUnwindSafe(|| cob::get::<Issue, _>(repo, &TYPENAME, &object)));
            run.eval();
            let obs = match r {
                Err(p) => {
                    run.fail(&id0, "cob-get-panic", format!("get::<Issue> panicked: {p}"), json!({"shape": format!("{:?}", shape)}));
                    format!("panic {p}")
                }
                Ok(Ok(None)) => "none".to_string(),
                Ok(Err(e)) => format!("err {e}"),
                Ok(Ok(Some(co))) => {
                    let (nodes, tips) = history_dump(&co.history);
                    if nodes.len() < cl.len() {
                        run.tally("issue:pruned-something");
                    }
                    run.tally("issue:ok");
                    run.nontrivial(serde_json::to_string(&co.object).unwrap());
                    format!("{} | {:?} | {:?}", serde_json::to_string(&co.object).unwrap(), nodes, tips)
                }
            };
            by_closure.entry(cl).or_default().push((l, obs));
        }
        for group in by_closure.values() {
            if group.len() > 1 {
                run.tally("issue:same-closure-group");
            }
            for (l, o) in &group[1..] {
                if *o != group[0].1 {
                    run.fail(&id0, "cob-state-depends-on-refs", format!("issue: layouts {} and {} have the same closure but evaluate differently:\n{}\n{}", group[0].0, l, group[0].1, o), json!({"shape": format!("{:?}", shape), "layouts": format!("{:?}", layouts)}));
                }
            }
        }
        w.set_refs(&TYPENAME, &object, &[]);
    }
}

fn ancestors(shape: &[NodeSpec], k: usize) -> Vec<usize> {
    let mut seen = BTreeSet::new();
    let mut stack = shape[k].parents.clone();
    while let Some(x) = stack.pop() {
        if seen.insert(x) {
            stack.extend(shape[x].parents.iter().cloned());
        }
    }
    seen.into_iter().collect()
}

fn main() {
    quiet_panics();
    let mut run = Run::new(
        "C05",
        "model.ChangeGraph",
        "distinct (pruned history, apply-call sequence) pairs of successful toy evaluations, plus distinct issue states",
    );
    let w = World::new();
    let types = vec![TypeName::from_str("xyz.radicle.toy").unwrap(), TypeName::from_str("xyz.radicle.other").unwrap()];
    stream_toy(&mut run, &w, &types);
    stream_issue(&mut run, &w);
    run.note("ids are the ranks of the real commit oids (byte order); timestamps are the commit times set through GIT_COMMITTER_DATE; the model store is what the real change::Storage::load returns for every written commit".into());
    run.finish();
}
