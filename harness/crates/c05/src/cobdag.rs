//! Shared by hw-c05 and hw-c06: writes arbitrary change DAGs as REAL COB
//! commits into a real radicle test repository, exposes them through arbitrary
//! namespace refs, and evaluates them with the real `radicle_cob::get`.
#![allow(dead_code)]
use std::collections::{BTreeMap, BTreeSet};

use nonempty::NonEmpty;
use radicle::cob::object::Storage as _;
use radicle::cob::{self, change, Entry, ObjectId, TypeName};
use radicle::crypto::ssh::ExtendedSignature;
use radicle::crypto::test::signer::MockSigner;
use radicle::crypto::{PublicKey, Signature, Signer};
use radicle::git::Oid;
use radicle::storage::git::Repository;
use radicle::storage::ReadRepository;
use radicle::test::setup::NodeWithRepo;
use radicle_cob::change::Storage as _;

/// Signs something else than the message it is given: the change loads fine,
/// but `Entry::valid_signatures()` is false.
pub struct BadSigner<'a>(pub &'a MockSigner);

impl radicle::crypto::signature::Signer<ExtendedSignature> for BadSigner<'_> {
    fn try_sign(&self, msg: &[u8]) -> Result<ExtendedSignature, radicle::crypto::signature::Error> {
        let mut other = b"not the revision:".to_vec();
        other.extend_from_slice(msg);
        let sig: Signature = radicle::crypto::signature::Signer::<Signature>::try_sign(self.0, &other)?;
        Ok(ExtendedSignature::new(*self.0.public_key(), sig))
    }
}

pub struct World {
    pub node: NodeWithRepo,
    /// actor 0 is the repository's only delegate (the node's own key)
    pub actors: Vec<MockSigner>,
    /// keys that only serve as ref namespaces
    pub namespaces: Vec<PublicKey>,
    /// head of the identity document every change commits to
    pub resource: Oid,
}

pub const N_ACTORS: usize = 4;
pub const N_NAMESPACES: usize = 6;

impl World {
    pub fn new() -> World {
        // fixed commit time: the identity head (a parent of every change) and hence
        // all change ids are the same in every run
        std::env::set_var("GIT_COMMITTER_DATE", "1700000000");
        let alice = MockSigner::from_seed([0xA1; 32]);
        let tmp = tempfile::tempdir().unwrap();
        let node = radicle::test::setup::Node::new(tmp, alice.clone(), "alice");
        let repo = node.project();
        let node = NodeWithRepo { node, repo };
        let resource = node.repo.repo.identity_head().unwrap();
        let mut actors = vec![alice];
        for i in 1..N_ACTORS {
            actors.push(MockSigner::from_seed([0xB0 + i as u8; 32]));
        }
        let namespaces = (0..N_NAMESPACES)
            .map(|i| *MockSigner::from_seed([0xC0 + i as u8; 32]).public_key())
            .collect();
        std::env::remove_var("GIT_COMMITTER_DATE");
        World { node, actors, namespaces, resource }
    }

    pub fn repo(&self) -> &Repository {
        &self.node.repo.repo
    }

    pub fn actor_key(&self, i: usize) -> PublicKey {
        *self.actors[i].public_key()
    }

    /// Write one change commit. `tips` become the change's parents.
    pub fn store_change(
        &self,
        typename: &TypeName,
        tips: &[Oid],
        actor: usize,
        ts: u64,
        contents: Vec<Vec<u8>>,
        bad_sig: bool,
        resource: Option<Oid>,
        tag: &str,
    ) -> Entry {
        std::env::set_var("GIT_COMMITTER_DATE", ts.to_string());
        let template = change::Template {
            type_name: typename.clone(),
            tips: tips.to_vec(),
            // the message makes otherwise identical changes distinct commits
            message: format!("change {tag}"),
            embeds: vec![],
            contents: NonEmpty::from_vec(contents).expect("non-empty contents"),
        };
        let signer = &self.actors[actor];
        let entry = if bad_sig {
            self.repo().store(resource, vec![], &BadSigner(signer), template)
        } else {
            self.repo().store(resource, vec![], signer, template)
        };
        std::env::remove_var("GIT_COMMITTER_DATE");
        entry.expect("store change")
    }

    /// A commit that is *not* a change (no manifest, no signature): `load` fails on it.
    pub fn plain_commit(&self, parents: &[Oid], tag: &str) -> Oid {
        let raw = &self.repo().backend;
        let n = tag;
        let blob = raw.blob(format!("plain {n}").as_bytes()).unwrap();
        let mut tb = raw.treebuilder(None).unwrap();
        tb.insert("file", blob, 0o100644).unwrap();
        let tree = raw.find_tree(tb.write().unwrap()).unwrap();
        let sig = radicle::git::raw::Signature::new("x", "x@example.com", &radicle::git::raw::Time::new(1, 0)).unwrap();
        let ps: Vec<_> = parents.iter().map(|p| raw.find_commit(**p).unwrap()).collect();
        let prefs: Vec<_> = ps.iter().collect();
        raw.commit(None, &sig, &sig, &format!("plain {n}"), &tree, &prefs).unwrap().into()
    }

    /// Remove every ref of the object, then point namespace `ns` at `oid` for each pair.
    pub fn set_refs(&self, typename: &TypeName, object: &ObjectId, layout: &[(usize, Oid)]) {
        let pattern = format!("refs/namespaces/*/refs/cobs/{}/{}", typename, object);
        let raw = &self.repo().backend;
        let names: Vec<String> = raw
            .references_glob(&pattern)
            .unwrap()
            .filter_map(|r| r.ok().and_then(|r| r.name().map(|s| s.to_string())))
            .collect();
        for n in names {
            raw.find_reference(&n).unwrap().delete().unwrap();
        }
        for (ns, oid) in layout {
            self.repo().update(&self.namespaces[*ns], typename, object, oid).unwrap();
        }
    }

    /// The targets of the object's refs in the order `ChangeGraph::load` receives them.
    pub fn ref_targets(&self, typename: &TypeName, object: &ObjectId) -> Vec<Oid> {
        self.repo().objects(typename, object).unwrap().iter().map(|r| r.target.id).collect()
    }
}

/// Full dump of a history graph: per node (dependencies, dependents), tips.
pub fn history_dump(h: &cob::History) -> (BTreeMap<Oid, (Vec<Oid>, Vec<Oid>)>, BTreeSet<Oid>) {
    let g = h.graph();
    let mut nodes = BTreeMap::new();
    for k in g.sorted() {
        let n = g.get(&k).unwrap();
        nodes.insert(k, (n.dependencies.iter().cloned().collect(), n.dependents.iter().cloned().collect()));
    }
    (nodes, h.tips())
}

/// Order-preserving map oid -> small integer.
pub struct Ranks(pub BTreeMap<Oid, u64>);
impl Ranks {
    pub fn new(oids: impl IntoIterator<Item = Oid>) -> Ranks {
        let set: BTreeSet<Oid> = oids.into_iter().collect();
        Ranks(set.into_iter().enumerate().map(|(i, o)| (o, i as u64 + 1)).collect())
    }
    pub fn of(&self, o: &Oid) -> u64 {
        *self.0.get(o).unwrap_or_else(|| panic!("oid {o} not ranked"))
    }
    pub fn list<'a>(&self, os: impl IntoIterator<Item = &'a Oid>) -> Vec<u64> {
        os.into_iter().map(|o| self.of(o)).collect()
    }
}
