//! C21: textual identifiers round-trip — correspondence with coq/model/TextIds.v
//! and the direct oracle (print/parse round trips, canonical 'z' form, no panic
//! on arbitrary text) on the real `radicle-crypto` / `radicle` types.
use std::str::FromStr;

use hw_common::*;
use radicle::git::Oid;
use radicle::identity::{Did, IdError, RepoId};
use radicle::node::{Alias, AliasError, UserAgent};
use radicle_crypto::{PublicKey, PublicKeyError};

const B58: &str = "123456789ABCDEFGHJKLMNPQRSTUVWXYZabcdefghijkmnopqrstuvwxyz";
/// multibase codes whose decoders (crate data-encoding) are not re-implemented
/// in the model: their observed result is handed to the model as data.
const EXTERNAL: &str = "07fFbBcCvVtThmMuU";

// ------------------------------------------------------------ term helpers

fn chars(s: &str) -> String {
    s.chars().map(|c| c as u32 as u64).collect::<Vec<u64>>().coq()
}
fn ok_text(s: &str) -> String {
    format!("(Ok {})", chars(s))
}
fn ok_bytes(b: &[u8]) -> String {
    format!("(Ok {})", b.coq())
}
fn err(e: &str) -> String {
    format!("(Err {})", e)
}
const PANIC: &str = "(Panic 0)";

fn ext_for(text: &str) -> Option<Vec<u8>> {
    match text.chars().next() {
        Some(c) if EXTERNAL.contains(c) => multibase::decode(text).ok().map(|(_, b)| b),
        _ => None,
    }
}
fn ext_term(text: &str) -> String {
    match text.chars().next() {
        Some(c) if EXTERNAL.contains(c) => ext_for(text).coq(),
        _ => "None".to_string(),
    }
}

fn mb_err(e: &multibase::Error) -> &'static str {
    match e {
        multibase::Error::UnknownBase(_) => "EUnknownBase",
        multibase::Error::InvalidBaseString => "EInvalidBaseString",
    }
}
fn pk_err(e: &PublicKeyError) -> &'static str {
    match e {
        PublicKeyError::Multibase(m) => mb_err(m),
        PublicKeyError::Multicodec(_) => "EMulticodec",
        PublicKeyError::InvalidKey(_) => "EKeyLen",
        PublicKeyError::InvalidLength(_) => "EUnexpectedInvalidLength",
    }
}
fn did_err(e: &radicle::identity::did::DidError) -> &'static str {
    match e {
        radicle::identity::did::DidError::Did(_) => "EDid",
        radicle::identity::did::DidError::PublicKey(p) => pk_err(p),
    }
}
fn id_err(e: &IdError) -> &'static str {
    match e {
        IdError::InvalidOid(_) => "EOidLen",
        IdError::Multibase(m) => mb_err(m),
    }
}
fn alias_err(e: &AliasError) -> &'static str {
    match e {
        AliasError::Empty => "EAliasEmpty",
        AliasError::MaxBytesExceeded => "EAliasLen",
        AliasError::InvalidCharacter => "EAliasChar",
    }
}

// ------------------------------------------------------------ generators

fn boundary_bytes(r: &mut Rng, n: usize) -> Vec<u8> {
    match r.below(10) {
        0 => vec![0; n],
        1 => vec![0xFF; n],
        2 => {
            // k leading zero bytes then random
            let k = r.below(n as u64 + 1) as usize;
            let mut v = vec![0; k];
            v.extend(r.bytes(n - k));
            v
        }
        3 => {
            let mut v = vec![0; n];
            if n > 0 {
                v[n - 1] = 1 + r.below(255) as u8;
            }
            v
        }
        5 if n > 3 => {
            // 1..3 leading zero bytes, then a non-zero byte, then random
            let k = 1 + r.below(3) as usize;
            let mut v = vec![0; k];
            v.push(1 + r.below(255) as u8);
            v.extend(r.bytes(n - k - 1));
            v
        }
        4 => {
            // small value: mostly zeros with a few low bytes
            let mut v = vec![0; n];
            let k = r.below(3) as usize;
            for i in 0..k.min(n) {
                v[n - 1 - i] = r.next() as u8;
            }
            v
        }
        _ => r.bytes(n),
    }
}

fn rand_char(r: &mut Rng) -> char {
    loop {
        let c = match r.below(12) {
            0 => r.below(0x20) as u32,                         // C0 controls
            1 => 0x7F + r.below(0x21) as u32,                  // DEL + C1 controls
            2 => *r.pick(&[0x20u32, 0x85, 0xA0, 0x1680, 0x2000, 0x200A, 0x200B, 0x2028, 0x2029, 0x202F, 0x205F, 0x3000, 0xFEFF, 0x180E]),
            3 => 0x80 + r.below(0x780) as u32,                 // 2-byte
            4 => 0x800 + r.below(0xF800) as u32,               // 3-byte
            5 => 0x10000 + r.below(0x100000) as u32,           // 4-byte
            6 => *r.pick(&[b'/', b':', b' ', b'z', b'1']) as u32,
            _ => 0x21 + r.below(0x5E) as u32,                  // ASCII graphic
        };
        if let Some(ch) = char::from_u32(c) {
            return ch;
        }
    }
}
fn rand_text(r: &mut Rng, max: u64) -> String {
    let n = r.below(max + 1);
    (0..n).map(|_| rand_char(r)).collect()
}
fn b58_text(r: &mut Rng, max: u64) -> String {
    let n = r.below(max + 1);
    let a = B58.as_bytes();
    (0..n)
        .map(|_| if r.chance(1, 6) { '1' } else { a[r.below(58) as usize] as char })
        .collect()
}

const ALL_BASES: &[multibase::Base] = &[
    multibase::Base::Identity,
    multibase::Base::Base2,
    multibase::Base::Base8,
    multibase::Base::Base10,
    multibase::Base::Base16Lower,
    multibase::Base::Base16Upper,
    multibase::Base::Base32Lower,
    multibase::Base::Base32Upper,
    multibase::Base::Base32PadLower,
    multibase::Base::Base32PadUpper,
    multibase::Base::Base32HexLower,
    multibase::Base::Base32HexUpper,
    multibase::Base::Base32HexPadLower,
    multibase::Base::Base32HexPadUpper,
    multibase::Base::Base32Z,
    multibase::Base::Base36Lower,
    multibase::Base::Base36Upper,
    multibase::Base::Base58Flickr,
    multibase::Base::Base58Btc,
    multibase::Base::Base64,
    multibase::Base::Base64Pad,
    multibase::Base::Base64Url,
    multibase::Base::Base64UrlPad,
];

/// A text derived from the payload bytes `good` (what a valid identifier
/// encodes) by one of many malformations; returns (kind, text).
fn malformed(r: &mut Rng, good: &[u8]) -> (&'static str, String) {
    let canon = multibase::encode(multibase::Base::Base58Btc, good);
    match r.below(16) {
        0 => ("empty", String::new()),
        1 => ("bare-z", "z".to_string()),
        2 => {
            // other multibase base, valid payload (Identity only if valid UTF-8)
            let b = *r.pick(ALL_BASES);
            if b == multibase::Base::Identity && std::str::from_utf8(good).is_err() {
                let ascii: Vec<u8> = good.iter().map(|x| x & 0x7F).collect();
                ("other-base", multibase::encode(b, ascii))
            } else {
                ("other-base", multibase::encode(b, good))
            }
        }
        3 => {
            // flip one char to another base-58 char
            let mut cs: Vec<char> = canon.chars().collect();
            let i = r.below(cs.len() as u64) as usize;
            cs[i] = B58.as_bytes()[r.below(58) as usize] as char;
            ("flip-b58-char", cs.into_iter().collect())
        }
        4 => {
            let mut cs: Vec<char> = canon.chars().collect();
            let i = r.below(cs.len() as u64) as usize;
            cs[i] = *r.pick(&['0', 'O', 'I', 'l', ' ', '\n', '+', '/', '=', '\u{e9}', '\u{1F680}']);
            ("invalid-char", cs.into_iter().collect())
        }
        5 => {
            let mut cs: Vec<char> = canon.chars().collect();
            let i = r.below(cs.len() as u64) as usize;
            cs.remove(i);
            ("delete-char", cs.into_iter().collect())
        }
        6 => {
            let mut cs: Vec<char> = canon.chars().collect();
            let i = 1 + r.below(cs.len() as u64) as usize;
            cs.insert(i, if r.bool() { '1' } else { B58.as_bytes()[r.below(58) as usize] as char });
            ("insert-char", cs.into_iter().collect())
        }
        7 => {
            // wrong payload length
            let mut g = good.to_vec();
            if r.bool() { g.pop(); } else { g.push(r.next() as u8); }
            ("wrong-length", multibase::encode(multibase::Base::Base58Btc, g))
        }
        8 => {
            // wrong / truncated multicodec prefix
            let mut g = good.to_vec();
            match r.below(4) {
                0 => g[0] ^= 1,
                1 => g[1] ^= 0x80,
                2 => { g.remove(0); }
                _ => { g.truncate(r.below(3) as usize); }
            }
            ("wrong-prefix-bytes", multibase::encode(multibase::Base::Base58Btc, g))
        }
        9 => {
            // first char is multi-byte / unknown code
            let c = *r.pick(&['\u{e9}', '\u{1F680}', '\u{3000}', 'x', 'y', 'Y', '1', '-', ' ', '\u{7f}']);
            ("unknown-code", format!("{}{}", c, &canon[1..]))
        }
        10 => ("random-text", rand_text(r, 12)),
        11 => {
            // random base-58 payload of random length after 'z' (leading '1's frequent)
            ("random-b58", format!("z{}", b58_text(r, 60)))
        }
        12 => {
            // external base with random (mostly invalid) payload
            let c = EXTERNAL.as_bytes()[r.below(EXTERNAL.len() as u64) as usize] as char;
            ("external-random", format!("{}{}", c, b58_text(r, 10)))
        }
        13 => {
            // base-x bases with random digits
            let c = *r.pick(&['9', 'k', 'K', 'Z', '\0']);
            let body: String = (0..r.below(40)).map(|_| *r.pick(&['0', '1', '9', 'a', 'A', 'z', 'Z', 'm', '5'])).collect();
            ("basex-random", format!("{}{}", c, body))
        }
        14 => ("uppercase", canon.to_uppercase()),
        _ => ("leading-ones", format!("z{}{}", "1".repeat(1 + r.below(4) as usize), &canon[1..])),
    }
}

fn key_of(bytes: &[u8]) -> PublicKey {
    let mut a = [0u8; 32];
    a.copy_from_slice(bytes);
    PublicKey::from(a)
}

// ------------------------------------------------------------ observed parsers

fn obs_pk(s: &str) -> (String, Option<PublicKey>, bool) {
    let t = s.to_string();
    match catch(move || PublicKey::from_str(&t)) {
        Ok(Ok(k)) => (ok_bytes(k.as_ref()), Some(k), false),
        Ok(Err(e)) => (err(pk_err(&e)), None, false),
        Err(_) => (PANIC.to_string(), None, true),
    }
}
fn obs_did(s: &str) -> (String, Option<Did>, bool) {
    let t = s.to_string();
    match catch(move || Did::decode(&t)) {
        Ok(Ok(d)) => (ok_bytes(d.as_key().as_ref()), Some(d), false),
        Ok(Err(e)) => (err(did_err(&e)), None, false),
        Err(_) => (PANIC.to_string(), None, true),
    }
}
fn obs_rid(s: &str, canonical: bool) -> (String, Option<RepoId>, bool) {
    let t = s.to_string();
    match catch(move || if canonical { RepoId::from_canonical(&t) } else { RepoId::from_urn(&t) }) {
        Ok(Ok(id)) => (ok_bytes(id.as_bytes()), Some(id), false),
        Ok(Err(e)) => (err(id_err(&e)), None, false),
        Err(_) => (PANIC.to_string(), None, true),
    }
}

fn panic_fail(run: &mut Run, id: &str, what: &str, text: &str) {
    run.fail(id, "parse-panic", format!("{} panics on {:?}", what, text), json!({"parser": what, "text": text}));
}

/// All parsers on one text: correspondence cases + oracle (no panic; a parsed
/// value prints to a text that parses to the same value; an accepted 'z' text is
/// the printed text).
fn parse_everything(run: &mut Run, id: &str, kind: &str, text: &str) {
    // PublicKey
    let (o, k, p) = obs_pk(text);
    run.case(id, format!("CPkParse {} {}", ext_term(text), chars(text)), o);
    if p {
        panic_fail(run, id, "PublicKey::from_str", text);
    }
    if let Some(k) = k {
        run.tally(&format!("pk-parse-ok/{}", kind));
        let printed = k.to_human();
        if PublicKey::from_str(&printed).ok() != Some(k) {
            run.fail(id, "pk-parse-print-parse", format!("{:?} parses to a key whose text {:?} does not parse back", text, printed), json!({"text": text}));
        }
        if text.starts_with('z') && printed != text {
            run.fail(id, "pk-noncanonical-accepted", format!("base58btc text {:?} accepted but prints as {:?}", text, printed), json!({"text": text}));
        }
    }
    // Did (also with the prefix put in front)
    for t in [text.to_string(), format!("did:key:{}", text)] {
        let (o, d, p) = obs_did(&t);
        let stripped = t.strip_prefix("did:key:");
        run.case(id, format!("CDidParse {} {}", stripped.map(ext_term).unwrap_or("None".into()), chars(&t)), o);
        if p {
            panic_fail(run, id, "Did::decode", &t);
        }
        if let Some(d) = d {
            run.tally(&format!("did-parse-ok/{}", kind));
            let printed = d.encode();
            if Did::decode(&printed).ok() != Some(d) || Did::from_str(&printed).ok() != Some(d) {
                run.fail(id, "did-parse-print-parse", format!("{:?} parses to a DID whose text {:?} does not parse back", t, printed), json!({"text": t}));
            }
            if t.starts_with("did:key:z") && printed != t {
                run.fail(id, "did-noncanonical-accepted", format!("{:?} accepted but prints as {:?}", t, printed), json!({"text": t}));
            }
        }
    }
    // RepoId
    for t in [text.to_string(), format!("rad:{}", text)] {
        let stripped = t.strip_prefix("rad:").unwrap_or(&t).to_string();
        let (o, r1, p) = obs_rid(&t, false);
        run.case(id, format!("CRidFromUrn {} {}", ext_term(&stripped), chars(&t)), o);
        if p {
            panic_fail(run, id, "RepoId::from_urn", &t);
        }
        let (o, r2, p) = obs_rid(&t, true);
        run.case(id, format!("CRidFromCanonical {} {}", ext_term(&t), chars(&t)), o);
        if p {
            panic_fail(run, id, "RepoId::from_canonical", &t);
        }
        for (rid, canon) in [(r1, false), (r2, true)] {
            if let Some(rid) = rid {
                run.tally(&format!("rid-parse-ok/{}", kind));
                let printed = if canon { rid.canonical() } else { rid.urn() };
                let back = if canon { RepoId::from_canonical(&printed).ok() } else { RepoId::from_str(&printed).ok() };
                if back != Some(rid) {
                    run.fail(id, "rid-parse-print-parse", format!("{:?} parses to an id whose text {:?} does not parse back", t, printed), json!({"text": t}));
                }
                if (t.starts_with('z') || t.starts_with("rad:z")) && printed != t && format!("rad:{}", t) != printed && !canon {
                    run.fail(id, "rid-noncanonical-accepted", format!("{:?} accepted but prints as {:?}", t, printed), json!({"text": t}));
                }
                if canon && t.starts_with('z') && printed != t {
                    run.fail(id, "rid-noncanonical-accepted", format!("{:?} accepted but prints as {:?}", t, printed), json!({"text": t}));
                }
            }
        }
    }
    // multibase::decode itself
    let t = text.to_string();
    let o = match catch(move || multibase::decode(&t)) {
        Ok(Ok((_, b))) => ok_bytes(&b),
        Ok(Err(e)) => err(mb_err(&e)),
        Err(_) => {
            panic_fail(run, id, "multibase::decode", text);
            PANIC.to_string()
        }
    };
    run.case(id, format!("CMbDec {} {}", ext_term(text), chars(text)), o);
}

// ------------------------------------------------------------ streams

/// stream 0: valid keys / oids: print, parse, round trip.
fn valid_ids(run: &mut Run, id: &str, r: &mut Rng) {
    let kb = boundary_bytes(r, 32);
    let k = key_of(&kb);
    let human = k.to_human();
    run.case(id, format!("CPkPrint {}", kb.coq()), ok_text(&human));
    let z_b58 = |s: &str| s.starts_with('z') && s[1..].chars().all(|c| B58.contains(c));
    if k.to_string() != human || String::from(k) != human {
        run.fail(id, "pk-display-differs", format!("Display/String::from differ from to_human for {:?}", kb), json!({"key": kb}));
    }
    if !z_b58(&human) {
        run.fail(id, "pk-print-not-canonical", format!("to_human gives {:?}: not 'z' + base58btc", human), json!({"key": kb}));
    }
    match catch({ let h = human.clone(); move || PublicKey::from_str(&h) }) {
        Ok(Ok(k2)) if k2 == k => {}
        other => run.fail(id, "pk-roundtrip", format!("from_str(to_human(k)) = {:?} for key {:?}", other.map(|r| r.map(|k| k.to_human()).map_err(|e| e.to_string())), kb), json!({"key": kb, "text": human})),
    }
    let (o, _, _) = obs_pk(&human);
    run.case(id, format!("CPkParse None {}", chars(&human)), o);
    if PublicKey::try_from(human.clone()).ok() != Some(k) {
        run.fail(id, "pk-roundtrip", "TryFrom<String> differs".into(), json!({"key": kb}));
    }

    let d = Did::from(k);
    let enc = d.encode();
    run.case(id, format!("CDidPrint {}", kb.coq()), ok_text(&enc));
    if d.to_string() != enc || String::from(d) != enc || enc != format!("did:key:{}", human) {
        run.fail(id, "did-print-not-canonical", format!("Did prints as {:?}", enc), json!({"key": kb}));
    }
    if Did::decode(&enc).ok() != Some(d) || Did::from_str(&enc).ok() != Some(d) || Did::try_from(enc.clone()).ok() != Some(d) {
        run.fail(id, "did-roundtrip", format!("decode(encode(d)) differs for {:?}", enc), json!({"key": kb, "text": enc}));
    }
    let (o, _, _) = obs_did(&enc);
    run.case(id, format!("CDidParse None {}", chars(&enc)), o);

    let ob = boundary_bytes(r, 20);
    let oid = Oid::try_from(ob.as_slice()).unwrap();
    let rid = RepoId::from(oid);
    let (canon, urn) = (rid.canonical(), rid.urn());
    run.case(id, format!("CRidCanonical {}", ob.coq()), ok_text(&canon));
    run.case(id, format!("CRidUrn {}", ob.coq()), ok_text(&urn));
    if !z_b58(&canon) || urn != format!("rad:{}", canon) || rid.to_string() != urn {
        run.fail(id, "rid-print-not-canonical", format!("RepoId prints as {:?} / {:?}", canon, urn), json!({"oid": ob}));
    }
    let all = [
        RepoId::from_urn(&urn).ok(),
        RepoId::from_str(&urn).ok(),
        RepoId::from_urn(&canon).ok(),
        RepoId::from_canonical(&canon).ok(),
    ];
    if all.iter().any(|x| *x != Some(rid)) {
        run.fail(id, "rid-roundtrip", format!("parse(print(rid)) differs for {:?}", urn), json!({"oid": ob, "text": urn}));
    }
    let (o, _, _) = obs_rid(&urn, false);
    run.case(id, format!("CRidFromUrn None {}", chars(&urn)), o);
    let (o, _, _) = obs_rid(&canon, true);
    run.case(id, format!("CRidFromCanonical None {}", chars(&canon)), o);
    let (o, _, _) = obs_rid(&urn, true);
    run.case(id, format!("CRidFromCanonical None {}", chars(&urn)), o);

    let lz = |b: &[u8]| b.iter().take_while(|x| **x == 0).count();
    run.tally(&format!("key-leading-zero-bytes/{}", match lz(&kb) { 0 => "0", 1..=3 => "1-3", 32 => "all", _ => "4-31" }));
    run.tally(&format!("oid-leading-zero-bytes/{}", match lz(&ob) { 0 => "0", 1..=3 => "1-3", 20 => "all", _ => "4-19" }));
    run.nontrivial(format!("{:?}{:?}", kb, ob));
}

/// stream 1: base-58 on arbitrary byte strings (any length, leading zeros).
fn b58_bytes(run: &mut Run, id: &str, r: &mut Rng) {
    let n = match r.below(6) { 0 => r.below(4), 1 => 32 + r.below(4), 2 => r.below(200), _ => r.below(48) } as usize;
    let bs = boundary_bytes(r, n);
    let enc = multibase::encode(multibase::Base::Base58Btc, &bs);
    run.case(id, format!("CB58Enc {}", bs.coq()), ok_text(&enc));
    match multibase::decode(&enc) {
        Ok((multibase::Base::Base58Btc, back)) if back == bs => {}
        other => run.fail(id, "b58-crate-roundtrip", format!("multibase decode(encode({:?})) = {:?}", bs, other), json!({"bytes": bs})),
    }
    run.case(id, format!("CMbDec None {}", chars(&enc)), ok_bytes(&bs));
    let lz = bs.iter().take_while(|x| **x == 0).count();
    run.tally(&format!("b58-len/{}", match n { 0 => "0", 1..=8 => "1-8", 9..=40 => "9-40", _ => "41+" }));
    run.tally(&format!("b58-leading-zeros/{}", if lz == 0 { "0" } else if lz == n { "all" } else { "some" }));
    run.nontrivial(format!("{:?}", bs));
}

/// stream 2: malformed / foreign text through every parser.
fn malformed_text(run: &mut Run, id: &str, r: &mut Rng) {
    let is_key = r.bool();
    let good: Vec<u8> = if is_key {
        let mut g = vec![0xED, 0x01];
        g.extend(boundary_bytes(r, 32));
        g
    } else {
        boundary_bytes(r, 20)
    };
    let (kind, text) = malformed(r, &good);
    run.tally(&format!("malformed/{}", kind));
    parse_everything(run, id, kind, &text);
    run.nontrivial(text);
}

fn alias_case(run: &mut Run, id: &str, text: &str) {
    let t = text.to_string();
    match catch(move || Alias::from_str(&t)) {
        Ok(Ok(a)) => {
            run.tally("alias/accepted");
            let printed = a.to_string();
            run.case(id, format!("CAlias {}", chars(text)), ok_text(&printed));
            if printed != text || a.as_str() != text || String::from(a.clone()) != text {
                run.fail(id, "alias-print-differs", format!("alias parsed from {:?} prints as {:?}", text, printed), json!({"text": text}));
            }
            if Alias::from_str(&printed).ok() != Some(a.clone()) || Alias::try_from(printed.clone()).ok() != Some(a.clone()) {
                run.fail(id, "alias-roundtrip", format!("alias {:?} does not re-parse", printed), json!({"text": text}));
            }
            // wire form: fixed 32-byte array
            let a2 = a.clone();
            match catch(move || <[u8; 32]>::from(&a2)) {
                Ok(arr) => run.case(id, format!("CAliasToArray {}", chars(text)), ok_bytes(&arr)),
                Err(_) => {
                    run.case(id, format!("CAliasToArray {}", chars(text)), PANIC.to_string());
                    run.fail(id, "alias-to-array-panic", format!("<[u8;32]>::from(&alias) panics for parsed alias {:?}", text), json!({"text": text}));
                }
            }
        }
        Ok(Err(e)) => {
            run.tally(&format!("alias/{}", alias_err(&e)));
            run.case(id, format!("CAlias {}", chars(text)), err(alias_err(&e)));
        }
        Err(_) => {
            run.case(id, format!("CAlias {}", chars(text)), PANIC.to_string());
            panic_fail(run, id, "Alias::from_str", text);
        }
    }
}
fn agent_case(run: &mut Run, id: &str, text: &str) {
    let t = text.to_string();
    match catch(move || UserAgent::from_str(&t)) {
        Ok(Ok(a)) => {
            run.tally("agent/accepted");
            let printed = a.to_string();
            run.case(id, format!("CAgent {}", chars(text)), ok_text(&printed));
            if printed != text || a.as_str() != text {
                run.fail(id, "agent-print-differs", format!("agent parsed from {:?} prints as {:?}", text, printed), json!({"text": text}));
            }
            if UserAgent::from_str(&printed).ok() != Some(a) {
                run.fail(id, "agent-roundtrip", format!("agent {:?} does not re-parse", printed), json!({"text": text}));
            }
        }
        Ok(Err(_)) => {
            run.tally("agent/rejected");
            run.case(id, format!("CAgent {}", chars(text)), err("EAgent"));
        }
        Err(_) => {
            run.case(id, format!("CAgent {}", chars(text)), PANIC.to_string());
            panic_fail(run, id, "UserAgent::from_str", text);
        }
    }
}

/// The other textual entry point: a JSON string deserialized by serde. A value
/// obtained this way must also print to a text that parses back to it.
fn serde_case(run: &mut Run, id: &str, text: &str, is_agent: bool) {
    let js = serde_json::to_string(text).unwrap();
    if is_agent {
        let j = js.clone();
        match catch(move || serde_json::from_str::<UserAgent>(&j)) {
            Ok(Ok(a)) => {
                run.tally("agent-json/accepted");
                let printed = a.to_string();
                if UserAgent::from_str(&printed).ok().as_ref() != Some(&a) {
                    run.fail(id, "agent-deserialized-not-reparsable",
                        format!("UserAgent deserialized from JSON {} prints as {:?}, which UserAgent::from_str rejects", js, printed), json!({"json": js}));
                }
                if serde_json::to_string(&a).ok().as_deref() != Some(js.as_str()) {
                    run.fail(id, "agent-json-roundtrip", format!("UserAgent from JSON {} serializes differently", js), json!({"json": js}));
                }
            }
            Ok(Err(_)) => run.tally("agent-json/rejected"),
            Err(_) => panic_fail(run, id, "serde_json::from_str::<UserAgent>", &js),
        }
    } else {
        let j = js.clone();
        match catch(move || serde_json::from_str::<Alias>(&j)) {
            Ok(Ok(a)) => {
                run.tally("alias-json/accepted");
                let printed = a.to_string();
                if Alias::from_str(&printed).ok().as_ref() != Some(&a) {
                    run.fail(id, "alias-deserialized-not-reparsable",
                        format!("Alias deserialized from JSON {} prints as {:?}, which Alias::from_str rejects", js, printed), json!({"json": js}));
                }
            }
            Ok(Err(_)) => run.tally("alias-json/rejected"),
            Err(_) => panic_fail(run, id, "serde_json::from_str::<Alias>", &js),
        }
    }
}

fn word(r: &mut Rng, max: u64, exotic: bool) -> String {
    let n = r.below(max + 1);
    (0..n)
        .map(|_| {
            if exotic && r.chance(1, 5) {
                rand_char(r)
            } else {
                *r.pick(&['a', 'b', 'r', 'd', '0', '1', '.', '-', '@', '_', '~', '!']) as char
            }
        })
        .collect()
}

/// stream 3: aliases and user agents, around their limits.
fn alias_agent(run: &mut Run, id: &str, r: &mut Rng) {
    // alias
    let a = match r.below(8) {
        0 => String::new(),
        1 => "a".repeat(31 + r.below(4) as usize),
        2 => {
            // multi-byte chars around the 32-byte limit
            let c = *r.pick(&['\u{e9}', '\u{20ac}', '\u{1F600}']);
            let mut s: String = std::iter::repeat(c).take((30 / c.len_utf8()) as usize).collect();
            s.push_str(&"x".repeat(r.below(5) as usize));
            s
        }
        3 => rand_text(r, 10),
        4 => {
            let mut s = word(r, 12, false);
            s.insert(r.below(s.len() as u64 + 1) as usize, *r.pick(&[' ', '\t', '\n', '\0', '\u{7f}', '\u{85}', '\u{a0}', '\u{2028}', '\u{3000}', '\u{200b}', '\u{feff}']));
            s
        }
        _ => {
            let ex = r.chance(1, 3);
            word(r, 34, ex)
        }
    };
    run.tally(&format!("alias-bytes/{}", match a.len() { 0 => "0", 1..=30 => "1-30", 31 => "31", 32 => "32", 33 => "33", _ => "34+" }));
    alias_case(run, id, &a);
    serde_case(run, id, &a, false);

    // user agent
    let seg = |r: &mut Rng| -> String {
        match r.below(6) {
            0 => word(r, 8, false),
            1 => format!("{}:{}", word(r, 6, false), word(r, 6, false)),
            2 => {
                let ex = r.chance(1, 2);
                format!("{}:{}", word(r, 6, ex), word(r, 6, true))
            }
            3 => format!("{}:{}:{}", word(r, 3, false), word(r, 3, false), word(r, 3, false)),
            4 => rand_text(r, 5),
            _ => format!("radicle:{}.{}.{}", r.below(3), r.below(20), r.below(20)),
        }
    };
    let nseg = r.below(4);
    let mut body = (0..nseg).map(|_| seg(r)).collect::<Vec<_>>().join("/");
    let ua = match r.below(10) {
        0 => body,
        1 => format!("/{}", body),
        2 => format!("{}/", body),
        3 => "/".to_string(),
        4 => "//".to_string(),
        5 => {
            // pad to around the 64-byte limit
            while body.len() < 60 { body.push('v'); }
            body.truncate(60);
            format!("/{}{}/", body, "w".repeat(r.below(6) as usize))
        }
        _ => format!("/{}/", body),
    };
    run.tally(&format!("agent-bytes/{}", match ua.len() { 0..=62 => "0-62", 63 => "63", 64 => "64", 65 => "65", _ => "66+" }));
    agent_case(run, id, &ua);
    serde_case(run, id, &ua, true);
    if r.chance(1, 20) {
        agent_case(run, id, UserAgent::default().as_str());
    }
    run.nontrivial(format!("{:?}{:?}", a, ua));
}

/// stream 4: the Alias constructed from a node id (public `From<&NodeId>`).
fn alias_of_nid(run: &mut Run, id: &str, r: &mut Rng) {
    let kb = boundary_bytes(r, 32);
    let k = key_of(&kb);
    let made = catch(move || Alias::from(&k));
    match made {
        Ok(a) => {
            let printed = a.to_string();
            run.case(id, format!("CAliasOfNid {}", kb.coq()), ok_text(&printed));
            run.tally(&format!("alias-of-nid-bytes/{}", printed.len()));
            let back = Alias::from_str(&printed);
            if back.as_ref().ok() != Some(&a) {
                run.fail(id, "alias-from-nodeid-not-reparsable",
                    format!("Alias::from(&nid) prints as {:?} ({} bytes) which Alias::from_str rejects: {:?}", printed, printed.len(), back.err().map(|e| e.to_string())),
                    json!({"key": kb, "text": printed}));
            }
            let a2 = a.clone();
            match catch(move || <[u8; 32]>::from(&a2)) {
                Ok(arr) => run.case(id, format!("CAliasToArray {}", chars(&printed)), ok_bytes(&arr)),
                Err(_) => {
                    run.case(id, format!("CAliasToArray {}", chars(&printed)), PANIC.to_string());
                    run.fail(id, "alias-to-array-panic", format!("<[u8;32]>::from(&Alias::from(&nid)) panics ({:?})", printed), json!({"key": kb}));
                }
            }
        }
        Err(_) => {
            run.case(id, format!("CAliasOfNid {}", kb.coq()), PANIC.to_string());
            run.fail(id, "alias-from-nodeid-panic", "Alias::from(&nid) panics".into(), json!({"key": kb}));
        }
    }
}

fn char_class(run: &mut Run, id: &str, c: char) {
    let v: Vec<u64> = vec![c.is_control() as u64, c.is_whitespace() as u64, c.is_ascii_graphic() as u64, c.len_utf8() as u64];
    run.case(id, format!("CCharClass {}", c as u32), format!("(Ok {})", v.coq()));
}

fn main() {
    quiet_panics();
    let mut run = Run::new(
        "C21",
        "model.TextIds",
        "stream 0: valid keys/oids (all-zero, all-0xFF, k leading zero bytes, random) printed and parsed by every API; \
         stream 1: base-58 of arbitrary byte strings (len 0..200, leading zeros); stream 2: 16 kinds of malformed/foreign text \
         (other multibase bases, flipped/invalid/deleted/inserted chars, wrong length, wrong multicodec, bare prefixes, non-ASCII, random) \
         through every parser with and without did:key:/rad: prefix; stream 3: aliases / user agents around the 32/64-byte limits; \
         stream 4: Alias::from(&NodeId); stream 5: char classes. Non-trivial = distinct generated value/text.",
    );
    let seed = run.args.seed;
    let n = run.args.count(400, 2000);
    for i in 0..n {
        for stream in 0u64..5 {
            let id = format!("{}:{}", stream, i);
            if !run.args.wants(&id) {
                continue;
            }
            if stream == 4 && i % 8 != 0 {
                continue;
            }
            let mut r = Rng::for_case(seed, stream, i);
            run.eval();
            match stream {
                0 => valid_ids(&mut run, &id, &mut r),
                1 => b58_bytes(&mut run, &id, &mut r),
                2 => malformed_text(&mut run, &id, &mut r),
                3 => alias_agent(&mut run, &id, &mut r),
                _ => alias_of_nid(&mut run, &id, &mut r),
            }
        }
    }
    // stream 5: character classes — every boundary of the model's tables, plus a sweep
    let mut cs: Vec<u32> = vec![];
    for b in [0u32, 9, 13, 14, 31, 32, 33, 126, 127, 128, 133, 159, 160, 161, 0x7FF, 0x800, 5760, 0x180E, 8192, 8202, 8203, 8232, 8233, 8234, 8239, 8287, 12288, 0xD7FF, 0xE000, 0xFEFF, 0xFFFF, 0x10000, 0x10FFFF] {
        for d in [-1i64, 0, 1] {
            let x = b as i64 + d;
            if x >= 0 {
                cs.push(x as u32);
            }
        }
    }
    let sweep = if run.args.thorough { 0x3100 } else { 0x300 };
    cs.extend(0..sweep);
    for (j, c) in cs.iter().enumerate() {
        let id = format!("5:{}", j);
        if !run.args.wants(&id) {
            continue;
        }
        if let Some(ch) = char::from_u32(*c) {
            run.eval();
            char_class(&mut run, &id, ch);
        }
    }
    // exhaustive check of the model's tables against std, outside Coq: every scalar value
    if run.args.only.is_none() {
        let mut bad = 0u64;
        for c in (0..=0x10FFFFu32).filter_map(char::from_u32) {
            let n = c as u32;
            let ctrl = n <= 31 || (127..=159).contains(&n);
            let ws = (9..=13).contains(&n) || [32, 133, 160, 5760, 8232, 8233, 8239, 8287, 12288].contains(&n) || (8192..=8202).contains(&n);
            let gr = (33..=126).contains(&n);
            if ctrl != c.is_control() || ws != c.is_whitespace() || gr != c.is_ascii_graphic() {
                bad += 1;
                if bad < 4 {
                    run.fail("5:table", "char-class-table-differs", format!("std char classes differ from the model's table at U+{:04X}", n), json!({"char": n}));
                }
            }
        }
        run.note(format!("char-class tables compared with std on all 1112064 scalar values: {} differences", bad));
    }
    run.finish();
}
