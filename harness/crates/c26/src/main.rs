//! C26: terminal truncation stays within width and never panics.
//!
//! For generated texts / lines, widths and delimiters this runs the real
//! `radicle_term::cell::Cell::truncate` (through `str`, `String`, `Paint<&str>`,
//! `Paint<String>`, `Label`) and `Line::truncate` under `catch_unwind` and a
//! watchdog, evaluates the direct oracle (no panic, returns, display width of
//! the output <= requested width) and records the correspondence case for
//! coq/model/Term.v.  The Unicode data the model needs (grapheme segmentation
//! of every string it consults, double-wide and whitespace scalar values) is
//! computed here with the same crates radicle-term links against.
use hw_common::*;
use radicle_term::cell::Cell;
use radicle_term::{Label, Line, Paint};
use std::collections::{BTreeMap, BTreeSet};
use std::sync::mpsc;
use std::time::Duration;
use unicode_segmentation::UnicodeSegmentation;

fn cps(s: &str) -> Vec<u32> {
    s.chars().map(|c| c as u32).collect()
}

// ------------------------------------------------------------ Unicode tables

#[derive(Default)]
struct Tables {
    seg: BTreeMap<Vec<u32>, Vec<Vec<u32>>>,
    wide: BTreeSet<u32>,
    ws: BTreeSet<u32>,
}

impl Tables {
    /// Segmentation of `s` and, recursively, of its graphemes.
    fn add(&mut self, s: &str) {
        let key = cps(s);
        if self.seg.contains_key(&key) {
            return;
        }
        for c in s.chars() {
            if unicode_display_width::is_double_width(c) {
                self.wide.insert(c as u32);
            }
            if c.is_whitespace() {
                self.ws.insert(c as u32);
            }
        }
        let gs: Vec<&str> = s.graphemes(true).collect();
        self.seg.insert(key, gs.iter().map(|g| cps(g)).collect());
        for g in gs {
            self.add(g);
        }
    }
    /// `s` and every suffix of `s` that starts at a grapheme boundary.
    fn add_suffixes(&mut self, s: &str) {
        self.add("");
        self.add(s);
        for (off, _) in s.grapheme_indices(true) {
            self.add(&s[off..]);
        }
    }
    fn coq(&self) -> String {
        let seg: Vec<String> = self
            .seg
            .iter()
            .map(|(k, v)| format!("({}, {})", k.coq(), v.coq()))
            .collect();
        format!(
            "{{| t_seg := [{}]; t_wide := {}; t_ws := {} |}}",
            seg.join("; "),
            self.wide.iter().cloned().collect::<Vec<u32>>().coq(),
            self.ws.iter().cloned().collect::<Vec<u32>>().coq()
        )
    }
}

// ------------------------------------------------------------ generators

/// Scalar values that matter to truncation: narrow/wide, multi-byte
/// whitespace (NBSP 2 bytes, U+2003 and U+3000 3 bytes, U+3000 double-wide),
/// CR/LF (one grapheme, two whitespace chars), combining marks, variation
/// selector (makes its grapheme wide), ZWJ sequences, regional indicators,
/// Hangul jamo, Indic conjuncts, a Prepend char, controls, 4-byte emoji.
const ALPHABET: &[char] = &[
    'a', 'b', 'Z', '0', '-', ' ', ' ', '\t', '\u{a0}', '\u{2003}', '\u{3000}', '\u{1680}', '\u{85}',
    '\u{2028}', '\r', '\n', '世', '界', 'ｱ', 'é', 'ß', '\u{301}', '\u{308}', '\u{fe0f}', '\u{fe0e}',
    '\u{200d}', '\u{200b}', '\u{feff}', '❤', '🪵', '🍍', '👩', '👧', '\u{1f3fb}', '🇩', '🇪', '🇫',
    '\u{1100}', '\u{1161}', '\u{11a8}', '가', '\u{924}', '\u{94d}', '\u{928}', '\u{600}', '\u{7}',
    '\u{1b}', '…', '✅', '🛡',
];
const SMALL: &[char] = &['a', ' ', '\u{a0}', '\u{3000}', '世', '\u{301}'];
const DELIMS: &[&str] = &[
    "", "…", "...", " ", "世", "\u{fe0f}", "\u{301}", "\u{200d}👩", "🇪", "->", "\u{a0}", "🍎", "\u{3000}", "a\u{308}",
];

fn gen_string(r: &mut Rng, max: u64, flavour: u64) -> String {
    let mut n = r.below(max + 1);
    if n == 0 && r.chance(3, 4) {
        n = 1 + r.below(max);
    }
    let mut s = String::new();
    for _ in 0..n {
        let c = match flavour {
            0 => *r.pick(SMALL),
            1 => *r.pick(ALPHABET),
            // mostly ascii words with trailing whitespace runs (table cells)
            2 => *r.pick(&['a', 'b', 'c', ' ', ' ', '\u{a0}', '世']),
            // any scalar value
            _ => loop {
                let v = match r.below(4) {
                    0 => r.below(0x80),
                    1 => r.below(0x800),
                    2 => r.below(0x10000),
                    _ => r.below(0x110000),
                } as u32;
                if let Some(c) = char::from_u32(v) {
                    break c;
                }
            },
        };
        s.push(c);
    }
    if flavour == 2 || r.chance(1, 4) {
        // trailing whitespace: the branch that does not add the delimiter
        for _ in 0..r.below(4) {
            s.push(*r.pick(&[' ', ' ', '\u{a0}', '\u{3000}', '\t', '\u{2003}', '\r', '\n']));
        }
    }
    s
}

fn gen_delim(r: &mut Rng) -> String {
    if r.chance(4, 5) {
        r.pick(DELIMS).to_string()
    } else {
        gen_string(r, 3, 1)
    }
}

fn gen_width(r: &mut Rng, total: usize) -> usize {
    match r.below(20) {
        0 => usize::MAX,
        1 => total + 1,
        2 => total,
        3 => 0,
        4 | 5 => total.saturating_sub(1),
        _ => r.below(total as u64 + 1) as usize,
    }
}

// ------------------------------------------------------------ running the code

#[derive(Clone, Debug)]
enum Out {
    Panic(String),
    Hang,
    Str { out: String, width: usize },
    Line { items: Vec<String>, width: usize, text_width: usize },
}

/// Run `f` on its own thread; `None` if it has not answered in time.
fn watchdog<T: Send + 'static>(f: impl FnOnce() -> T + Send + 'static, limit: Duration) -> Option<T> {
    let (tx, rx) = mpsc::channel();
    std::thread::spawn(move || {
        let _ = tx.send(f());
    });
    rx.recv_timeout(limit).ok()
}

const LIMIT: Duration = Duration::from_secs(3);

/// Which `Cell` impl carries the call (all delegate to `str`).
fn run_str(via: u64, s: &str, w: usize, dl: &str) -> Out {
    let (s, dl) = (s.to_string(), dl.to_string());
    let r = watchdog(
        move || {
            catch(move || {
                let out: String = match via {
                    0 => Cell::truncate(s.as_str(), w, &dl),
                    1 => Cell::truncate(&s, w, &dl),
                    2 => Cell::truncate(&Paint::new(s.as_str()), w, &dl).item,
                    3 => Cell::truncate(&Paint::new(s.clone()), w, &dl).item,
                    4 => Cell::truncate(&&s.as_str(), w, &dl),
                    _ => Cell::truncate(&Label::new(&s), w, &dl).content().to_string(),
                };
                let width = Cell::width(out.as_str());
                (out, width)
            })
        },
        LIMIT,
    );
    match r {
        None => Out::Hang,
        Some(Err(p)) => Out::Panic(p),
        Some(Ok((out, width))) => Out::Str { out, width },
    }
}

fn run_line(via_cell: bool, items: &[String], w: usize, dl: &str) -> Out {
    let (items, dl) = (items.to_vec(), dl.to_string());
    let r = watchdog(
        move || {
            catch(move || {
                let mut line = Line::blank();
                for it in &items {
                    line.push(Label::new(it));
                }
                let line = if via_cell {
                    Cell::truncate(&line, w, &dl)
                } else {
                    Line::truncate(&mut line, w, &dl);
                    line
                };
                let width = Line::width(&line);
                let text = line.to_string();
                let text_width = Cell::width(text.as_str());
                let out: Vec<String> = line.into_iter().map(|l| l.content().to_string()).collect();
                (out, width, text_width)
            })
        },
        LIMIT,
    );
    match r {
        None => Out::Hang,
        Some(Err(p)) => Out::Panic(p),
        Some(Ok((items, width, text_width))) => Out::Line { items, width, text_width },
    }
}

fn obs_term(o: &Out) -> String {
    match o {
        Out::Panic(_) => "OPanic".into(),
        Out::Hang => "OHang".into(),
        Out::Str { out, width } => format!("(OStr {} {})", cps(out).coq(), width),
        Out::Line { items, width, .. } => {
            format!("(OLine {} {})", items.iter().map(|i| cps(i)).collect::<Vec<_>>().coq(), width)
        }
    }
}

fn wterm(w: usize) -> String {
    format!("{}", w)
}

// ------------------------------------------------------------ assumption monitors

/// The hypotheses of the Coq theorems about the Unicode tables, checked on the
/// strings of this case: the graphemes partition the string, none is empty,
/// and display width is sub-additive under concatenation.
fn monitor(run: &mut Run, id: &str, s: &str, dl: &str) {
    let gs: Vec<&str> = s.graphemes(true).collect();
    if gs.concat() != s || gs.iter().any(|g| g.is_empty()) {
        run.fail(id, "unicode-assumption-partition", format!("graphemes of {:?} do not partition it", s), json!({"s": s}));
    }
    let ws = Cell::width(s);
    let joined = format!("{s}{dl}");
    if Cell::width(joined.as_str()) > ws + Cell::width(dl) {
        run.fail(id, "unicode-assumption-subadditive",
            format!("width({:?}) > width({:?}) + width({:?})", joined, s, dl), json!({"a": s, "b": dl}));
    }
    for (i, _) in s.char_indices() {
        if Cell::width(&s[..i]) + Cell::width(&s[i..]) < ws {
            run.fail(id, "unicode-assumption-subadditive",
                format!("width({:?}) > width({:?}) + width({:?})", s, &s[..i], &s[i..]), json!({"a": &s[..i], "b": &s[i..]}));
        }
    }
}

// ------------------------------------------------------------ cases

/// Mirror of the documented algorithm, used only to label the input
/// distribution (never for a verdict).
fn classify(s: &str, w: usize, dl: &str) -> &'static str {
    if w >= Cell::width(s) {
        return "str:fits";
    }
    let d = Cell::width(dl);
    if w < d {
        return "str:delimiter-wider-than-width";
    }
    let (mut cols, mut boundary) = (0, 0);
    for g in s.graphemes(true) {
        let c = Cell::width(g);
        if cols + c + d > w {
            break;
        }
        boundary += g.len();
        cols += c;
    }
    let rest = &s[boundary..];
    if rest.trim().is_empty() {
        let g = rest.graphemes(true).next().unwrap_or("");
        if g.len() > 1 {
            if cols + Cell::width(g) <= w { "str:cut-in-whitespace-multibyte-kept" } else { "str:cut-in-whitespace-multibyte-dropped" }
        } else if cols + Cell::width(g) <= w {
            "str:cut-in-whitespace-kept"
        } else {
            "str:cut-in-whitespace-dropped"
        }
    } else if boundary == 0 {
        "str:cut-to-delimiter-only"
    } else {
        "str:cut-with-delimiter"
    }
}

fn str_case(run: &mut Run, id: &str, via: u64, s: &str, w: usize, dl: &str) {
    run.eval();
    // a Label drops '\n' and '\r' on construction; the cell is its content
    let content: String = if via >= 5 { Label::new(s).content().to_string() } else { s.to_string() };
    let s = content.as_str();
    let out = run_str(via, s, w, dl);
    let input = json!({"kind": "str", "via": via, "s": s, "s_scalars": cps(s), "width": w.to_string(), "delim": dl});
    let class = classify(s, w, dl);
    run.tally(class);
    run.tally(["via:str", "via:String", "via:Paint<&str>", "via:Paint<String>", "via:&&str", "via:Label"][via.min(5) as usize]);
    if dl.is_empty() {
        run.tally("str:empty-delimiter");
    }
    if s.chars().any(|c| c.is_whitespace() && c.len_utf8() > 1) {
        run.tally("str:has-multibyte-whitespace");
    }
    if s.graphemes(true).any(|g| g.chars().count() > 1) {
        run.tally("str:has-multi-scalar-grapheme");
    }
    if class != "str:fits" && class != "str:delimiter-wider-than-width" {
        run.nontrivial(format!("{:?}/{}/{:?}", s, w, dl));
    }
    match &out {
        Out::Panic(p) => run.fail(id, "truncate-panic", format!("{:?}.truncate({}, {:?}) panicked: {}", s, w, dl, p), input.clone()),
        Out::Hang => run.fail(id, "truncate-hang", format!("{:?}.truncate({}, {:?}) did not return", s, w, dl), input.clone()),
        Out::Str { out, width } => {
            if *width > w {
                run.fail(id, "truncate-width-overrun",
                    format!("{:?}.truncate({}, {:?}) = {:?} has display width {}", s, w, dl, out, width), input.clone());
            }
        }
        Out::Line { .. } => unreachable!(),
    }
    monitor(run, id, s, dl);
    let mut t = Tables::default();
    t.add_suffixes(s);
    t.add(dl);
    if let Out::Str { out, .. } = &out {
        t.add(out);
    }
    run.case(id, format!("CStr {} {} {} {}", t.coq(), cps(s).coq(), wterm(w), cps(dl).coq()), obs_term(&out));
}

fn line_case(run: &mut Run, id: &str, via_cell: bool, items: &[String], w: usize, dl: &str) {
    run.eval();
    let contents: Vec<String> = items.iter().map(|i| Label::new(i).content().to_string()).collect();
    let out = run_line(via_cell, items, w, dl);
    let input = json!({"kind": "line", "via_cell": via_cell, "items": contents, "width": w.to_string(), "delim": dl});
    let total: usize = contents.iter().map(|c| Cell::width(c.as_str())).sum();
    run.tally(if via_cell { "via:<Line as Cell>" } else { "via:Line::truncate" });
    match &out {
        Out::Panic(p) => run.fail(id, "line-truncate-panic", format!("Line{:?}.truncate({}, {:?}) panicked: {}", contents, w, dl, p), input.clone()),
        Out::Hang => run.fail(id, "line-truncate-hang", format!("Line{:?}.truncate({}, {:?}) did not return within {:?}", contents, w, dl, LIMIT), input.clone()),
        Out::Line { items: o, width, text_width } => {
            if *width > w {
                run.fail(id, "line-truncate-width-overrun",
                    format!("Line{:?}.truncate({}, {:?}) = {:?} has width {}", contents, w, dl, o, width), input.clone());
            } else if *text_width > w {
                run.fail(id, "line-truncate-text-width-overrun",
                    format!("Line{:?}.truncate({}, {:?}) prints {:?} of display width {}", contents, w, dl, o.concat(), text_width), input.clone());
            }
            let popped = contents.len() - o.len();
            let cut = o.last().map(|l| Some(l) != contents.get(o.len() - 1)).unwrap_or(false);
            run.tally(match (total <= w, popped, cut) {
                (true, _, _) => "line:fits",
                (_, 0, true) => "line:cut-last-item",
                (_, 0, false) => "line:unchanged?",
                (_, _, true) => "line:popped-and-cut",
                (_, _, false) => "line:popped-only",
            });
            if total > w {
                run.nontrivial(format!("{:?}/{}/{:?}", contents, w, dl));
            }
        }
        Out::Str { .. } => unreachable!(),
    }
    for c in &contents {
        monitor(run, id, c, dl);
    }
    let mut t = Tables::default();
    t.add("");
    t.add(dl);
    for c in &contents {
        t.add_suffixes(c);
    }
    if let Out::Line { items: o, .. } = &out {
        for c in o {
            t.add_suffixes(c);
        }
    }
    run.case(id,
        format!("CLine {} {} {} {}", t.coq(), contents.iter().map(|c| cps(c)).collect::<Vec<_>>().coq(), wterm(w), cps(dl).coq()),
        obs_term(&out));
}

/// Inputs that broke the code as found (before the `fix:` commit), kept as a
/// regression corpus, plus the crate's own test vectors.
const CORPUS_STR: &[(&str, usize, &str)] = &[
    ("a\u{a0}\u{a0}", 2, "…"),   // sliced inside a 2-byte whitespace char: panic
    ("a  ", 1, ""),              // kept a space although it did not fit: width 2 > 1
    ("a\u{3000}\u{3000}", 2, "…"), // 3-byte, double-wide whitespace
    ("ab\u{3000}", 3, "…"),
    ("a\r\n", 1, ""),
    ("\u{a0}\u{a0}", 1, ""),
    ("abc   ", 4, "…"),
    ("🍍", 1, "…"), ("🍍", 1, ""), ("🍍🍍", 2, "…"), ("🍍🍍", 3, "…"), ("🍍", 1, "🍎"), ("🍍", 2, "🍎"),
    ("🍍🍍", 3, "🍎"), ("🍍🍍🍍", 4, "🍎"), ("hello", 3, "…"),
    ("❤ab", 1, "\u{fe0f}"), ("❤ab", 3, "\u{fe0f}"), ("👩x👩", 3, "\u{200d}👩"), ("🇩🇪🇫", 3, "🇪"),
];
const CORPUS_LINE: &[(&[&str], usize, &str)] = &[
    (&["a  "], 1, ""),           // Line::truncate never returned
    (&["x", "a  "], 2, ""),
    (&["a\u{a0}\u{a0}"], 2, "…"),
    (&["banana", "peach", "apple"], 9, "…"),
    (&["banana", "peach", "apple"], 7, "…"),
    (&["banana", "peach", "apple"], 1, "…"),
    (&["banana", "peach", "apple"], 0, "…"),
    (&[], 0, "…"),
    (&["", ""], 0, ""),
];

fn main() {
    quiet_panics();
    let mut run = Run::new(
        "C26",
        "model.Term",
        "stream 0: corpus (inputs that broke the code as found + the crate's test vectors); stream 1: strings over \
         {a, space, NBSP, U+3000, 世, U+0301} (equal-width collisions and multi-byte whitespace frequent); stream 2: strings over a \
         50-scalar alphabet of wide/zero-width/joining/whitespace/control values, table-cell-like strings with trailing whitespace runs, \
         and arbitrary scalar values; stream 3: lines of 0..6 labels; thorough adds stream 4: every string of length <= 4 over the small \
         alphabet x widths 0..5 x delimiters {empty, U+2026, and (length <= 3) a wide one}. Widths 0..total+1 plus usize::MAX; delimiters incl. empty, wide, joining (VS16, ZWJ, \
         combining, regional indicator). Non-trivial = the text does not fit and the delimiter does (the scan loop and a slice execute); \
         distinct by (text, width, delimiter).",
    );
    run.shard_size(300);
    let seed = run.args.seed;
    let mut hangs = 0;

    // stream 0: corpus
    for (i, (s, w, dl)) in CORPUS_STR.iter().enumerate() {
        let id = format!("0:{}", i);
        if run.args.wants(&id) {
            str_case(&mut run, &id, (i % 6) as u64, s, *w, dl);
            run.sample(json!({"case_id": id, "s": s, "width": w, "delim": dl}));
        }
    }
    for (i, (items, w, dl)) in CORPUS_LINE.iter().enumerate() {
        let id = format!("0:{}", 1000 + i);
        if run.args.wants(&id) {
            let items: Vec<String> = items.iter().map(|s| s.to_string()).collect();
            line_case(&mut run, &id, i % 2 == 0, &items, *w, dl);
        }
    }

    // streams 1, 2: single strings
    let n = run.args.count(1200, 6000);
    for i in 0..n {
        for stream in [1u64, 2] {
            let id = format!("{}:{}", stream, i);
            if !run.args.wants(&id) {
                continue;
            }
            let mut r = Rng::for_case(seed, stream, i);
            let flavour = if stream == 1 { 0 } else { [1, 1, 2, 3][(i % 4) as usize] };
            let max = if r.chance(1, 25) { 40 } else { 10 };
            let s = gen_string(&mut r, max, flavour);
            let dl = gen_delim(&mut r);
            let w = gen_width(&mut r, Cell::width(s.as_str()));
            str_case(&mut run, &id, r.below(6), &s, w, &dl);
        }
    }

    // stream 3: lines
    let n = run.args.count(500, 2500);
    for i in 0..n {
        let id = format!("3:{}", i);
        if !run.args.wants(&id) {
            continue;
        }
        if hangs >= 3 {
            run.tally("line:skipped-after-3-hangs");
            continue;
        }
        let mut r = Rng::for_case(seed, 3, i);
        let k = r.below(7);
        let flavour = [0, 1, 2, 2][(i % 4) as usize];
        let items: Vec<String> = (0..k).map(|_| gen_string(&mut r, 6, flavour)).collect();
        let dl = gen_delim(&mut r);
        let total: usize = items.iter().map(|c| Cell::width(Label::new(c).content())).sum();
        let w = gen_width(&mut r, total);
        let before = run.failures.len();
        line_case(&mut run, &id, r.bool(), &items, w, &dl);
        if run.failures[before..].iter().any(|f| f.class == "line-truncate-hang") {
            hangs += 1;
        }
    }

    // stream 4 (thorough): exhaustive small scope
    if run.args.thorough {
        let mut strings: Vec<String> = vec![String::new()];
        let mut frontier = vec![String::new()];
        for _ in 0..4 {
            let mut next = vec![];
            for p in &frontier {
                for c in SMALL {
                    let mut q = p.clone();
                    q.push(*c);
                    next.push(q);
                }
            }
            strings.extend(next.iter().cloned());
            frontier = next;
        }
        let mut i = 0u64;
        for s in &strings {
            for w in 0..6usize {
                for dl in ["", "…", "世"] {
                    let id = format!("4:{}", i);
                    i += 1;
                    if dl == "世" && s.chars().count() == 4 {
                        continue; // wide delimiter only up to length 3
                    }
                    if run.args.wants(&id) && (run.args.scale == 1 || i % run.args.scale == 0) {
                        str_case(&mut run, &id, 0, s, w, dl);
                    }
                }
            }
        }
        run.note(format!("stream 4 enumerated {} strings x 6 widths x 2-3 delimiters", strings.len()));
    }
    run.finish();
    // threads stuck in a non-terminating truncate are abandoned here
    std::process::exit(0);
}
