//! Construction of the two real storages of one fetch scenario.
//!
//! The *server* repository is the "forge": it holds every object of the
//! scenario's universe (identity commits, data commits, every signed-refs
//! commit of every namespace, valid or tampered) and exactly the references
//! the scenario's server state lists.  The *local* (fetching) repository holds
//! only the objects reachable from its own references, so that the real pack
//! negotiation and transfer is exercised.
use std::collections::{BTreeMap, BTreeSet};
use std::path::{Path, PathBuf};

use radicle::crypto::test::signer::MockSigner;
use radicle::crypto::signature::Signer as _;
use radicle::crypto::PublicKey;
use radicle::git::raw as git2;
use radicle::git::{Oid, RefString};
use radicle::identity::doc::{RawDoc, Visibility};
use radicle::identity::project::Project;
use radicle::identity::{Did, Doc, RepoId};
use radicle::node::device::Device;
use radicle::node::Alias;
use radicle::storage::git::{Repository, Storage};
use radicle::storage::refs::Refs;

/// The reference names a scenario can use, with the number the model knows
/// them by.  Numeric order = string order (the order a `BTreeMap<RefString,_>`
/// iterates in).  `5` is a name that is not `Qualified`.
pub const NAMES: &[(u64, &str)] = &[
    (5, "foo"),
    (10, "refs/cobs/xyz.radicle.issue/d96f425412c9f8ad5d9a9a05c9831d0728e2338d"),
    (20, "refs/heads/a"),
    (21, "refs/heads/b"),
    (30, "refs/notes/n"),
    (40, "refs/rad/id"),
    (41, "refs/rad/root"),
    (42, "refs/rad/sigrefs"),
    (43, "refs/rad/x"),
    (50, "refs/tags/t"),
];
pub const N_ID: u64 = 40;
pub const N_ROOT: u64 = 41;
pub const N_SIGREFS: u64 = 42;

pub fn name_str(n: u64) -> &'static str {
    NAMES.iter().find(|(k, _)| *k == n).map(|(_, s)| *s).expect("known name")
}
pub fn name_num(s: &str) -> Option<u64> {
    NAMES.iter().find(|(_, x)| *x == s).map(|(k, _)| *k)
}

pub struct World {
    pub tmp: tempfile::TempDir,
    pub rid: RepoId,
    /// Peers, sorted by public key; the index is the model's node id.
    pub keys: Vec<Device<MockSigner>>,
    /// The server repository (bare), holding the whole universe of objects.
    pub server: Repository,
    pub server_path: PathBuf,
    pub local_storage: Storage,
    /// Every commit of the universe, in creation order; index+1 = model oid.
    pub oids: Vec<Oid>,
    /// parents (indices into `oids`) of each commit
    pub parents: Vec<Vec<usize>>,
    /// identity root commit
    pub i0: Oid,
    pub doc: Doc,
}

fn sig() -> git2::Signature<'static> {
    git2::Signature::new("verif", "verif@example.org", &git2::Time::new(1514817556, 0)).unwrap()
}

impl World {
    /// `seeds`: one key seed per peer.  `delegates`/`threshold` index into the
    /// *sorted* key list.
    pub fn new(seeds: &[[u8; 32]], delegates: &[usize], threshold: usize) -> World {
        let tmp = if std::path::Path::new("/dev/shm").is_dir() {
            tempfile::tempdir_in("/dev/shm").unwrap()
        } else {
            tempfile::tempdir().unwrap()
        };
        let mut keys: Vec<Device<MockSigner>> =
            seeds.iter().map(|s| Device::mock_from_seed(*s)).collect();
        keys.sort_by(|a, b| a.public_key().cmp(b.public_key()));
        let dids: Vec<Did> = delegates.iter().map(|i| Did::from(*keys[*i].public_key())).collect();
        let project = Project::new(
            "acme".try_into().unwrap(),
            "scenario".to_string(),
            radicle::git::RefString::try_from("master").unwrap(),
        )
        .unwrap();
        let doc = RawDoc::new(project, dids, threshold, Visibility::Public).verified().unwrap();
        let info = radicle::git::UserInfo { alias: Alias::new("server"), key: *keys[delegates[0]].public_key() };
        let storage = Storage::open(tmp.path().join("server"), info).unwrap();
        let (server, i0) = Repository::init(&doc, &storage, &keys[delegates[0]]).unwrap();
        let rid = server.id;
        // drop every reference `init` created: the scenario writes its own
        let names: Vec<String> = server
            .backend
            .references()
            .unwrap()
            .filter_map(|r| r.ok().and_then(|r| r.name().map(|s| s.to_string())))
            .collect();
        // symbolic refs first (rad/id -> cobs/...)
        for pass in 0..2 {
            for n in &names {
                if let Ok(mut r) = server.backend.find_reference(n) {
                    let symbolic = r.kind() == Some(git2::ReferenceType::Symbolic);
                    if (pass == 0) == symbolic {
                        r.delete().ok();
                    }
                }
            }
        }
        let server_path = server.backend.path().to_path_buf();
        let linfo = radicle::git::UserInfo { alias: Alias::new("local"), key: *keys[0].public_key() };
        let local_storage = Storage::open(tmp.path().join("local"), linfo).unwrap();
        let mut w = World {
            tmp,
            rid,
            keys,
            server,
            server_path,
            local_storage,
            oids: vec![],
            parents: vec![],
            i0,
            doc,
        };
        w.oids.push(i0);
        w.parents.push(vec![]);
        w
    }

    pub fn pk(&self, i: usize) -> PublicKey {
        *self.keys[i].public_key()
    }

    pub fn nid_of(&self, pk: &PublicKey) -> Option<usize> {
        self.keys.iter().position(|k| k.public_key() == pk)
    }

    /// model number of a commit (1-based; 0 is never used)
    pub fn num(&self, oid: Oid) -> u64 {
        self.oids.iter().position(|o| *o == oid).map(|i| i as u64 + 1).unwrap_or(0)
    }

    pub fn oid(&self, num: u64) -> Oid {
        self.oids[num as usize - 1]
    }

    fn register(&mut self, oid: Oid, parents: &[Oid]) -> Oid {
        if self.num(oid) == 0 {
            let ps = parents.iter().map(|p| self.num(*p) as usize - 1).collect();
            self.oids.push(oid);
            self.parents.push(ps);
        }
        oid
    }

    /// `a` is an ancestor of (or equal to) `b` in the universe DAG.
    pub fn anc(&self, a: u64, b: u64) -> bool {
        let (a, b) = (a as usize - 1, b as usize - 1);
        let mut seen = BTreeSet::new();
        let mut todo = vec![b];
        while let Some(x) = todo.pop() {
            if x == a {
                return true;
            }
            if seen.insert(x) {
                todo.extend(self.parents[x].iter().copied());
            }
        }
        false
    }

    /// A commit with the tree of `like` (so that an identity document stays
    /// loadable) or the empty tree.
    pub fn commit(&mut self, msg: &str, parents: &[Oid], like: Option<Oid>) -> Oid {
        let raw = &self.server.backend;
        let tree = match like {
            Some(c) => raw.find_commit(*c).unwrap().tree().unwrap(),
            None => {
                let tb = raw.treebuilder(None).unwrap();
                raw.find_tree(tb.write().unwrap()).unwrap()
            }
        };
        let ps: Vec<git2::Commit> = parents.iter().map(|p| raw.find_commit(**p).unwrap()).collect();
        let prefs: Vec<&git2::Commit> = ps.iter().collect();
        let oid: Oid = raw.commit(None, &sig(), &sig(), msg, &tree, &prefs).unwrap().into();
        drop(prefs);
        drop(ps);
        drop(tree);
        self.register(oid, parents)
    }

    /// A root commit carrying a *different* (valid) identity document.
    pub fn foreign_identity(&mut self) -> Oid {
        let raw = &self.server.backend;
        let other = self
            .doc
            .clone()
            .with_edits(|d| {
                d.payload.insert(
                    radicle::identity::doc::PayloadId::project(),
                    radicle::identity::doc::Payload::from(
                        serde_json_value(&Project::new(
                            "other".try_into().unwrap(),
                            "another repository".to_string(),
                            radicle::git::RefString::try_from("master").unwrap(),
                        )
                        .unwrap()),
                    ),
                );
            })
            .unwrap();
        let (_, bytes) = other.encode().unwrap();
        let blob = raw.blob(&bytes).unwrap();
        let mut embeds = raw.treebuilder(None).unwrap();
        embeds.insert("radicle.json", blob, 0o100_644).unwrap();
        let embeds_oid = embeds.write().unwrap();
        drop(embeds);
        let embeds = embeds_oid;
        let mut root = raw.treebuilder(None).unwrap();
        root.insert("embeds", embeds, 0o040_000).unwrap();
        let tree = raw.find_tree(root.write().unwrap()).unwrap();
        let oid: Oid = raw.commit(None, &sig(), &sig(), "foreign identity", &tree, &[]).unwrap().into();
        drop(tree);
        drop(root);
        self.register(oid, &[])
    }

    /// A signed-refs commit of namespace `nid` with the given content.
    /// `signer`: whose key signs; `flip`: corrupt the signature blob;
    /// `garbage`: write an unparsable refs blob.
    pub fn sigrefs_commit(
        &mut self,
        nid: usize,
        content: &BTreeMap<u64, Oid>,
        parents: &[Oid],
        signer: usize,
        flip: bool,
        garbage: bool,
        salt: &str,
    ) -> Oid {
        let mut map: BTreeMap<RefString, Oid> = BTreeMap::new();
        for (n, o) in content {
            map.insert(RefString::try_from(name_str(*n)).unwrap(), *o);
        }
        let refs = Refs::from(map);
        let canonical = refs.canonical();
        let signed: radicle::crypto::Signature = self.keys[signer].sign(&canonical);
        let mut signature: Vec<u8> = signed.to_vec();
        if flip {
            signature[7] ^= 0x10;
        }
        let raw = &self.server.backend;
        let refs_blob = if garbage { raw.blob(b"this is not a refs file\n").unwrap() } else { raw.blob(&canonical).unwrap() };
        let sig_blob = raw.blob(&signature).unwrap();
        let mut tb = raw.treebuilder(None).unwrap();
        tb.insert("refs", refs_blob, 0o100_644).unwrap();
        tb.insert("signature", sig_blob, 0o100_644).unwrap();
        let tree = raw.find_tree(tb.write().unwrap()).unwrap();
        let ps: Vec<git2::Commit> = parents.iter().map(|p| raw.find_commit(**p).unwrap()).collect();
        let prefs: Vec<&git2::Commit> = ps.iter().collect();
        let msg = format!("Update signed refs\n\n{} {}\n", self.pk(nid), salt);
        let oid: Oid = raw.commit(None, &sig(), &sig(), &msg, &tree, &prefs).unwrap().into();
        drop(prefs);
        drop(ps);
        drop(tree);
        drop(tb);
        self.register(oid, parents)
    }

    pub fn refname(&self, nid: usize, name: u64) -> String {
        format!("refs/namespaces/{}/{}", self.pk(nid), name_str(name))
    }

    pub fn set_server_ref(&self, nid: usize, name: u64, oid: Oid) {
        self.server.backend.reference(&self.refname(nid, name), *oid, true, "scenario").unwrap();
    }

    pub fn set_server_canonical(&self) {
        self.server.backend.reference("refs/rad/id", *self.i0, true, "scenario").unwrap();
    }

    /// Create the local repository with the given references (and only the
    /// objects reachable from them).
    pub fn make_local(&self, canonical: bool, refs: &[(usize, u64, Oid)]) -> Repository {
        let path = radicle::storage::git::paths::repository(&self.local_storage, &self.rid);
        let repo = Repository::create(&path, self.rid, self.local_storage_info()).unwrap();
        let mut tips: Vec<Oid> = refs.iter().map(|r| r.2).collect();
        if canonical {
            tips.push(self.i0);
        }
        copy_closure(&self.server.backend, &repo.backend, &tips);
        if canonical {
            repo.backend.reference("refs/rad/id", *self.i0, true, "scenario").unwrap();
        }
        for (nid, name, oid) in refs {
            repo.backend.reference(&self.refname(*nid, *name), **oid, true, "scenario").unwrap();
        }
        repo
    }

    fn local_storage_info(&self) -> &radicle::git::UserInfo {
        use radicle::storage::ReadStorage as _;
        self.local_storage.info()
    }
}

fn serde_json_value<T: serde::Serialize>(t: &T) -> serde_json::Value {
    serde_json::to_value(t).unwrap()
}

/// Copy every object reachable from `tips` from `src` to `dst`.
pub fn copy_closure(src: &git2::Repository, dst: &git2::Repository, tips: &[Oid]) {
    let sodb = src.odb().unwrap();
    let dodb = dst.odb().unwrap();
    let mut seen: BTreeSet<git2::Oid> = BTreeSet::new();
    let mut todo: Vec<git2::Oid> = tips.iter().map(|o| **o).collect();
    while let Some(id) = todo.pop() {
        if !seen.insert(id) {
            continue;
        }
        let obj = sodb.read(id).unwrap();
        let kind = obj.kind();
        let w = dodb.write(kind, obj.data()).unwrap();
        assert_eq!(w, id);
        match kind {
            git2::ObjectType::Commit => {
                let c = src.find_commit(id).unwrap();
                todo.push(c.tree_id());
                todo.extend(c.parent_ids());
            }
            git2::ObjectType::Tree => {
                let t = src.find_tree(id).unwrap();
                for e in t.iter() {
                    todo.push(e.id());
                }
            }
            _ => {}
        }
    }
}

/// Every reference under `refs/namespaces/` of `repo`, as
/// (nid index or key string, name, oid).
pub fn dump_refs(repo: &git2::Repository) -> BTreeMap<String, Oid> {
    let mut out = BTreeMap::new();
    for r in repo.references().unwrap() {
        let r = r.unwrap();
        let name = r.name().unwrap().to_string();
        let target = r.resolve().ok().and_then(|r| r.target());
        if let Some(t) = target {
            out.insert(name, t.into());
        }
    }
    out
}

pub fn _unused(_: &Path) {}
