//! A `ConnectionStream` over a real `git upload-pack` process serving the
//! scenario's server repository — invoked the way radicle-node's
//! `worker::upload_pack` invokes it (protocol v2, allowAnySha1InWant,
//! allowRefInWant, lsrefs.unborn=ignore, `--strict`).
use std::io::{self, Write};
use std::path::Path;
use std::process::{Child, ChildStdin, ChildStdout, Command, Stdio};

use radicle_fetch::transport::{ConnectionStream, SignalEof};

pub struct UploadPack {
    child: Child,
    out: ChildStdout,
    inp: StripHeader,
}

/// The client opens with the git-daemon request line
/// (`git-upload-pack /<rid>\0host=..\0\0version=2\0`), which radicle-node's
/// worker consumes before it spawns `git upload-pack`; this writer does the same.
pub struct StripHeader {
    stdin: Option<ChildStdin>,
    hdr: Vec<u8>,
    skip: Option<usize>,
}

impl Write for StripHeader {
    fn write(&mut self, buf: &[u8]) -> io::Result<usize> {
        let mut buf = buf;
        let total = buf.len();
        if self.skip.is_none() {
            let need = 4 - self.hdr.len();
            let take = need.min(buf.len());
            self.hdr.extend_from_slice(&buf[..take]);
            buf = &buf[take..];
            if self.hdr.len() == 4 {
                let s = std::str::from_utf8(&self.hdr).map_err(|_| io::ErrorKind::InvalidData)?;
                let n = usize::from_str_radix(s, 16).map_err(|_| io::ErrorKind::InvalidData)?;
                self.skip = Some(n.saturating_sub(4));
            } else {
                return Ok(total);
            }
        }
        if let Some(k) = self.skip {
            if k > 0 {
                let take = k.min(buf.len());
                buf = &buf[take..];
                self.skip = Some(k - take);
            }
        }
        if !buf.is_empty() {
            match self.stdin.as_mut() {
                Some(w) => w.write_all(buf)?,
                None => return Err(io::ErrorKind::BrokenPipe.into()),
            }
        }
        Ok(total)
    }
    fn flush(&mut self) -> io::Result<()> {
        match self.stdin.as_mut() {
            Some(w) => w.flush(),
            None => Ok(()),
        }
    }
}

impl SignalEof for StripHeader {
    type Error = io::Error;
    fn eof(&mut self) -> Result<(), io::Error> {
        self.stdin.take();
        Ok(())
    }
}

impl UploadPack {
    pub fn spawn(git_dir: &Path) -> io::Result<Self> {
        let mut child = Command::new("git")
            .current_dir(git_dir)
            .env_clear()
            .envs(std::env::vars().filter(|(k, _)| k == "PATH"))
            .env("GIT_PROTOCOL", "version=2")
            .args([
                "-c",
                "uploadpack.allowAnySha1InWant=true",
                "-c",
                "uploadpack.allowRefInWant=true",
                "-c",
                "lsrefs.unborn=ignore",
                "upload-pack",
                "--strict",
                "--timeout=30",
                ".",
            ])
            .stdin(Stdio::piped())
            .stdout(Stdio::piped())
            .stderr(Stdio::null())
            .spawn()?;
        let stdin = child.stdin.take();
        let out = child.stdout.take().unwrap();
        Ok(UploadPack { child, out, inp: StripHeader { stdin, hdr: vec![], skip: None } })
    }
}

impl ConnectionStream for UploadPack {
    type Read = ChildStdout;
    type Write = StripHeader;
    type Error = io::Error;
    fn open(&mut self) -> Result<(&mut ChildStdout, &mut StripHeader), io::Error> {
        Ok((&mut self.out, &mut self.inp))
    }
}

impl Drop for UploadPack {
    fn drop(&mut self) {
        self.inp.stdin.take();
        let _ = self.child.kill();
        let _ = self.child.wait();
    }
}
