//! C01 / C02 — correspondence + direct oracles for `radicle_fetch::{clone, pull}`.
//!
//! Every case builds two real storages (server = universe "forge", local =
//! fetching node), runs the real `radicle_fetch::clone`/`pull` over a real
//! `git upload-pack` process serving the (tampered) server repository, dumps
//! the local reference store before/after, evaluates the direct property
//! oracles on it, and records the abstract scenario + observation for the Coq
//! model `model/Fetch.v`.
//!
//! `--prop C01|C02` selects whose oracle failures are reported.
mod transport;
mod world;

use std::collections::{BTreeMap, BTreeSet, HashSet};
use std::panic::AssertUnwindSafe;

use hw_common::{catch, ctor, json, quiet_panics, Coq, Raw, Rng, Run, Value};
use radicle::crypto::PublicKey;
use radicle::git::Oid;
use radicle::storage::refs::{RefsAt, SignedRefs};
use radicle::storage::{RemoteRepository, ValidateRepository};
use radicle_fetch::{Allowed, BlockList, FetchLimit, FetchResult, Handle};

use world::*;

type NsMap = BTreeMap<usize, BTreeMap<u64, u64>>; // nid -> name -> oid number

#[derive(Clone, Debug)]
struct SigObj {
    num: u64,
    nid: usize,
    content: BTreeMap<u64, u64>,
    sig_ok: bool,
    root_ok: bool,
    kind: &'static str,
}

#[derive(Clone, Debug)]
struct Scenario {
    npeers: usize,
    delegates: Vec<usize>,
    threshold: usize,
    local: usize,
    blocked: Vec<usize>,
    followed: Option<Vec<usize>>,
    clone: bool,
    refs_at: Option<Vec<(usize, u64)>>,
    srv_canon: bool,
    l: NsMap,
    s: NsMap,
    u: Vec<SigObj>,
    /// all (a, b), a != b, a ancestor of b
    anc: Vec<(u64, u64)>,
    /// an oid number that no repository has (announced `at` nobody can serve)
    unknown: u64,
    tags: Vec<String>,
}

/// What to put where; produced by the generators, realised by `build`.
struct Plan {
    seeds: Vec<[u8; 32]>,
    delegates: Vec<usize>,
    threshold: usize,
    local: usize,
    blocked: Vec<usize>,
    followed: Option<Vec<usize>>,
    clone: bool,
    srv_canon: bool,
    /// per peer: the sigrefs objects to create: (parent index within the peer's
    /// list or None, content spec, validity kind)
    objs: Vec<Vec<ObjSpec>>,
    /// per peer: server state
    srv: Vec<NsSpec>,
    /// per peer: local state
    loc: Vec<NsSpec>,
    /// (peer, AtSpec)
    refs_at: Option<Vec<(usize, AtSpec)>>,
    tags: Vec<String>,
}

#[derive(Clone, Debug)]
struct ObjSpec {
    parent: Option<usize>,
    /// name -> commit slot (see `Commits`)
    content: BTreeMap<u64, usize>,
    kind: &'static str, // "ok" | "flip" | "otherkey" | "garbage" | "foreignroot" | "dataroot"
}

#[derive(Clone, Debug, Default)]
struct NsSpec {
    present: bool,
    /// index of the object the sigrefs ref points at (None: no sigrefs ref)
    sigrefs: Option<usize>,
    /// copy the content of this object as the namespace's refs
    refs_of: Option<usize>,
    /// then apply: (name, Some(slot)) set / (name, None) delete
    edits: Vec<(u64, Option<usize>)>,
}

#[derive(Clone, Debug)]
enum AtSpec {
    Obj(usize),
    Unknown,
}

/// Slots of the shared commit pool: 0..=3 identity (I0, I1, I1b, I2), 4..=8 data
/// (D0, D1, D2, D1b, E0), 9 foreign identity root.
const SLOT_I0: usize = 0;
const NSLOTS: usize = 10;

fn gen_content(r: &mut Rng, weird: bool) -> BTreeMap<u64, usize> {
    let mut c = BTreeMap::new();
    for n in [10u64, 20, 21, 30, 50] {
        if r.chance(1, 2) {
            c.insert(n, 4 + r.below(5) as usize);
        }
    }
    if r.chance(17, 20) {
        c.insert(N_ID, *r.pick(&[0usize, 0, 1, 1, 2, 3]));
    }
    if r.chance(17, 20) {
        c.insert(N_ROOT, SLOT_I0);
    }
    if r.chance(1, 10) {
        c.insert(43, *r.pick(&[0usize, 1, 4, 5]));
    }
    if weird && r.chance(1, 40) {
        c.insert(N_SIGREFS, 4 + r.below(5) as usize);
    }
    if weird && r.chance(1, 40) {
        c.insert(5, 4 + r.below(5) as usize);
    }
    c
}

/// The standard object family of one peer: 0:s0, 1:s1(s0), 2:s2(s1), 3:s1b(s0),
/// 4.. invalid ones.
fn gen_objs(r: &mut Rng, weird: bool) -> Vec<ObjSpec> {
    let mut v = vec![
        ObjSpec { parent: None, content: gen_content(r, false), kind: "ok" },
        ObjSpec { parent: Some(0), content: gen_content(r, weird), kind: "ok" },
        ObjSpec { parent: Some(1), content: gen_content(r, weird), kind: "ok" },
        ObjSpec { parent: Some(0), content: gen_content(r, weird), kind: "ok" },
    ];
    for kind in ["flip", "otherkey", "garbage", "foreignroot", "dataroot"] {
        let parent = Some(r.below(2) as usize);
        let mut content = gen_content(r, false);
        if kind == "foreignroot" {
            content.insert(N_ROOT, 9);
        }
        if kind == "dataroot" {
            content.insert(N_ROOT, 4);
        }
        v.push(ObjSpec { parent, content, kind });
    }
    v
}

fn subset(r: &mut Rng, n: usize, num: u64, den: u64) -> Vec<usize> {
    (0..n).filter(|_| r.chance(num, den)).collect()
}

fn gen_random(r: &mut Rng) -> Plan {
    let npeers = r.range(2, 5) as usize;
    let seeds: Vec<[u8; 32]> = (0..npeers)
        .map(|_| {
            let b = r.bytes(32);
            let mut s = [0u8; 32];
            s.copy_from_slice(&b);
            s
        })
        .collect();
    let mut delegates = subset(r, npeers, 1, 2);
    if delegates.is_empty() {
        delegates.push(r.below(npeers as u64) as usize);
    }
    delegates.truncate(3);
    let threshold = r.range(1, delegates.len() as u64) as usize;
    let local = r.below(npeers as u64) as usize;
    let clone = r.chance(1, 4);
    let weird = r.chance(1, 3);
    let mut tags = vec![];
    let objs: Vec<Vec<ObjSpec>> = (0..npeers).map(|_| gen_objs(r, weird)).collect();
    let mut srv = vec![];
    let mut loc = vec![];
    for p in 0..npeers {
        // server
        let mut s = NsSpec::default();
        if r.chance(17, 20) {
            s.present = true;
            let o = if r.chance(3, 4) { r.below(4) as usize } else { 4 + r.below(5) as usize };
            s.sigrefs = if r.chance(19, 20) { Some(o) } else { None };
            s.refs_of = Some(o);
            if r.chance(1, 4) {
                // tamper with the advertised/unadvertised refs
                let n = *r.pick(&[10u64, 20, 21, 30, 50, N_ID, N_ID, N_ID]);
                let v = if r.chance(1, 3) { None } else { Some(if n == N_ID { r.below(4) as usize } else { 4 + r.below(5) as usize }) };
                s.edits.push((n, v));
            }
        }
        srv.push(s);
        // local
        let mut l = NsSpec::default();
        if !clone && r.chance(3, 5) {
            l.present = true;
            let o = if r.chance(19, 20) { r.below(4) as usize } else { 4 + r.below(5) as usize };
            l.sigrefs = if r.chance(19, 20) { Some(o) } else { None };
            l.refs_of = Some(o);
            if r.chance(1, 4) {
                let n = *r.pick(&[10u64, 20, 21, 30, 50, N_ID, 43, N_ROOT]);
                let v = if r.chance(1, 3) { None } else { Some(if n == N_ID || n == N_ROOT { r.below(4) as usize } else { 4 + r.below(5) as usize }) };
                l.edits.push((n, v));
            }
        }
        loc.push(l);
        let _ = p;
    }
    let refs_at = if !clone && r.chance(2, 5) {
        let mut v = vec![];
        for p in 0..npeers {
            if r.chance(1, 2) {
                let at = if r.chance(3, 5) && srv[p].sigrefs.is_some() {
                    AtSpec::Obj(srv[p].sigrefs.unwrap())
                } else if r.chance(1, 25) {
                    AtSpec::Unknown
                } else if r.chance(3, 4) {
                    AtSpec::Obj(r.below(4) as usize)
                } else {
                    AtSpec::Obj(4 + r.below(5) as usize)
                };
                v.push((p, at));
                if r.chance(1, 30) {
                    v.push((p, AtSpec::Obj(r.below(4) as usize)));
                    tags.push("refs_at-dup".into());
                }
            }
        }
        Some(v)
    } else {
        None
    };
    let blocked = if r.chance(3, 20) { vec![r.below(npeers as u64) as usize] } else { vec![] };
    let followed = if r.chance(1, 2) { None } else { Some(subset(r, npeers, 1, 2)) };
    let srv_canon = !r.chance(1, 50);
    Plan { seeds, delegates, threshold, local, blocked, followed, clone, srv_canon, objs, srv, loc, refs_at, tags }
}

struct Built {
    w: World,
    sc: Scenario,
    local_repo: radicle::storage::git::Repository,
    /// sorted-index -> object numbers per peer
    objnum: Vec<Vec<u64>>,
}

/// Realise a plan: create keys, commits, objects, both repositories.
fn build(plan: &Plan) -> Built {
    let npeers = plan.seeds.len();
    // Peer indices in a plan refer to the *sorted* key order; the seeds are
    // just entropy, so sorting does not change the distribution.
    let mut w = World::new(&plan.seeds, &plan.delegates, plan.threshold);
    // shared commit pool
    let i0 = w.i0;
    let i1 = w.commit("identity 1", &[i0], Some(i0));
    let i1b = w.commit("identity 1b", &[i0], Some(i0));
    let i2 = w.commit("identity 2", &[i1], Some(i0));
    let d0 = w.commit("data 0", &[], None);
    let d1 = w.commit("data 1", &[d0], None);
    let d2 = w.commit("data 2", &[d1], None);
    let d1b = w.commit("data 1b", &[d0], None);
    let e0 = w.commit("unrelated", &[], None);
    let x0 = w.foreign_identity();
    let slots = [i0, i1, i1b, i2, d0, d1, d2, d1b, e0, x0];
    assert_eq!(slots.len(), NSLOTS);
    let mut u = vec![];
    let mut objnum: Vec<Vec<u64>> = vec![];
    for p in 0..npeers {
        // only the objects the plan refers to (and their ancestors) are created
        let mut needed: BTreeSet<usize> = BTreeSet::new();
        for spec in [&plan.srv[p], &plan.loc[p]] {
            needed.extend(spec.sigrefs);
            needed.extend(spec.refs_of);
        }
        if let Some(v) = &plan.refs_at {
            for (q, a) in v {
                if let (true, AtSpec::Obj(o)) = (*q == p, a) {
                    needed.insert(*o);
                }
            }
        }
        loop {
            let more: Vec<usize> = needed.iter().filter_map(|i| plan.objs[p][*i].parent).filter(|i| !needed.contains(i)).collect();
            if more.is_empty() {
                break;
            }
            needed.extend(more);
        }
        let mut made: Vec<Oid> = vec![];
        let mut nums = vec![];
        for (j, o) in plan.objs[p].iter().enumerate() {
            if !needed.contains(&j) {
                made.push(w.i0);
                nums.push(0);
                continue;
            }
            let content: BTreeMap<u64, Oid> = o.content.iter().map(|(n, s)| (*n, slots[*s])).collect();
            let parents: Vec<Oid> = o.parent.map(|i| vec![made[i]]).unwrap_or_default();
            let signer = if o.kind == "otherkey" { (p + 1) % npeers } else { p };
            let oid = w.sigrefs_commit(p, &content, &parents, signer, o.kind == "flip", o.kind == "garbage", &format!("{p}/{j}"));
            made.push(oid);
            let num = w.num(oid);
            nums.push(num);
            let sig_ok = !matches!(o.kind, "flip" | "otherkey" | "garbage");
            let root_ok = !matches!(o.kind, "foreignroot" | "dataroot");
            u.push(SigObj {
                num,
                nid: p,
                content: o.content.iter().map(|(n, s)| (*n, w.num(slots[*s]))).collect(),
                sig_ok,
                root_ok,
                kind: o.kind,
            });
        }
        objnum.push(nums);
    }
    let ns_state = |spec: &NsSpec, p: usize| -> Option<BTreeMap<u64, u64>> {
        if !spec.present {
            return None;
        }
        let mut m: BTreeMap<u64, u64> = BTreeMap::new();
        if let Some(o) = spec.refs_of {
            for (n, s) in &plan.objs[p][o].content {
                if *n != N_SIGREFS && *n != 5 {
                    m.insert(*n, w.num(slots[*s]));
                }
            }
        }
        for (n, v) in &spec.edits {
            match v {
                Some(s) => {
                    m.insert(*n, w.num(slots[*s]));
                }
                None => {
                    m.remove(n);
                }
            }
        }
        if let Some(o) = spec.sigrefs {
            m.insert(N_SIGREFS, objnum[p][o]);
        } else {
            m.remove(&N_SIGREFS);
        }
        if m.is_empty() {
            None
        } else {
            Some(m)
        }
    };
    let mut s: NsMap = BTreeMap::new();
    let mut l: NsMap = BTreeMap::new();
    for p in 0..npeers {
        if let Some(m) = ns_state(&plan.srv[p], p) {
            s.insert(p, m);
        }
        if !plan.clone {
            if let Some(m) = ns_state(&plan.loc[p], p) {
                l.insert(p, m);
            }
        }
    }
    // server refs
    if plan.srv_canon {
        w.set_server_canonical();
    }
    for (p, m) in &s {
        for (n, o) in m {
            w.set_server_ref(*p, *n, w.oid(*o));
        }
    }
    // local repository
    let lrefs: Vec<(usize, u64, Oid)> =
        l.iter().flat_map(|(p, m)| m.iter().map(|(n, o)| (*p, *n, w.oid(*o))).collect::<Vec<_>>()).collect();
    let local_repo = w.make_local(!plan.clone, &lrefs);
    let unknown = w.oids.len() as u64 + 1;
    let refs_at = plan.refs_at.as_ref().map(|v| {
        v.iter()
            .map(|(p, a)| {
                (*p, match a {
                    AtSpec::Obj(o) => objnum[*p][*o],
                    AtSpec::Unknown => unknown,
                })
            })
            .collect::<Vec<_>>()
    });
    let n = w.oids.len() as u64;
    let mut anc = vec![];
    for a in 1..=n {
        for b in 1..=n {
            if a != b && w.anc(a, b) {
                anc.push((a, b));
            }
        }
    }
    let sc = Scenario {
        npeers,
        delegates: plan.delegates.clone(),
        threshold: plan.threshold,
        local: plan.local,
        blocked: plan.blocked.clone(),
        followed: plan.followed.clone(),
        clone: plan.clone,
        refs_at,
        srv_canon: plan.srv_canon,
        l,
        s,
        u,
        anc,
        unknown,
        tags: plan.tags.clone(),
    };
    Built { w, sc, local_repo, objnum }
}

#[derive(Clone, Debug, PartialEq, Eq)]
enum Outcome {
    Success,
    Failed,
    /// 1 layout (insufficient refs), 2 sigrefs load/verification, 3 diverged delegate,
    /// 4 non-fast-forward abort while applying, 5 transport (object cannot be served), 9 other
    Err(u64, String),
    Panic(String),
}

fn classify_err(e: &radicle_fetch::Error) -> (u64, String) {
    let s = format!("{e:?}");
    let c = if s.contains("InsufficientRefs") || s.contains("MissingRequiredRefs") {
        1
    } else if s.contains("Diverged {") && s.contains("Protocol(Diverged") {
        3
    } else if s.contains("NonFF") {
        4
    } else if s.contains("RemoteRefs(") || s.contains("Protocol(Refs(") {
        2
    } else if s.contains("Step(Io(") || s.contains("Protocol(Io(") {
        5
    } else {
        9
    };
    (c, s.chars().take(300).collect())
}

/// nid -> name -> oid number, from a raw reference dump
fn abstract_refs(w: &World, dump: &BTreeMap<String, Oid>) -> (NsMap, Vec<String>) {
    let mut m: NsMap = BTreeMap::new();
    let mut odd = vec![];
    for (name, oid) in dump {
        let Some(rest) = name.strip_prefix("refs/namespaces/") else {
            if name != "refs/rad/id" {
                odd.push(name.clone());
            }
            continue;
        };
        let Some((ns, suffix)) = rest.split_once('/') else {
            odd.push(name.clone());
            continue;
        };
        let nid = ns.parse::<PublicKey>().ok().and_then(|pk| w.nid_of(&pk));
        match (nid, name_num(suffix)) {
            (Some(nid), Some(n)) if w.num(*oid) != 0 => {
                m.entry(nid).or_default().insert(n, w.num(*oid));
            }
            _ => odd.push(name.clone()),
        }
    }
    (m, odd)
}

struct Observed {
    outcome: Outcome,
    before: BTreeMap<String, Oid>,
    after: BTreeMap<String, Oid>,
    remotes: BTreeSet<usize>,
}

fn execute(b: &mut Built) -> Observed {
    let w = &b.w;
    let sc = &b.sc;
    let before = dump_refs(&b.local_repo.backend);
    let local_pk = w.pk(sc.local);
    let allowed = match &sc.followed {
        None => Allowed::All,
        Some(v) => Allowed::Followed { remotes: v.iter().map(|i| w.pk(*i)).collect::<HashSet<_>>() },
    };
    let blocked: BlockList = sc.blocked.iter().map(|i| w.pk(*i)).collect();
    // the server is "some other node": its key plays no role beyond != local
    let remote_pk = w.pk((sc.local + 1) % sc.npeers);
    let repo = radicle::storage::git::Repository::open(b.local_repo.backend.path(), w.rid).unwrap();
    let stream = transport::UploadPack::spawn(&w.server_path).unwrap();
    let mut handle = Handle::new(local_pk, repo, allowed, blocked, stream).unwrap();
    let refs_at: Option<Vec<RefsAt>> = sc.refs_at.as_ref().map(|v| {
        v.iter()
            .map(|(p, at)| RefsAt {
                remote: w.pk(*p),
                at: if *at == sc.unknown {
                    "ffffffffffffffffffffffffffffffffffffffff".parse().unwrap()
                } else {
                    w.oid(*at)
                },
            })
            .collect()
    });
    let clone = sc.clone;
    let res = catch(AssertUnwindSafe(|| {
        if clone {
            radicle_fetch::clone(&mut handle, FetchLimit::default(), remote_pk)
        } else {
            radicle_fetch::pull(&mut handle, FetchLimit::default(), remote_pk, refs_at)
        }
    }));
    let mut remotes = BTreeSet::new();
    let outcome = match res {
        Err(p) => Outcome::Panic(p),
        Ok(Err(e)) => {
            let (c, s) = classify_err(&e);
            Outcome::Err(c, s)
        }
        Ok(Ok(FetchResult::Success { remotes: rs, .. })) => {
            for r in rs {
                if let Some(i) = w.nid_of(&r) {
                    remotes.insert(i);
                }
            }
            Outcome::Success
        }
        Ok(Ok(FetchResult::Failed { .. })) => Outcome::Failed,
    };
    drop(handle);
    let after = dump_refs(&b.local_repo.backend);
    Observed { outcome, before, after, remotes }
}

// ------------------------------------------------------------------ model terms

fn coq_nsmap(m: &NsMap) -> String {
    let v: Vec<(u64, Vec<(u64, u64)>)> =
        m.iter().map(|(p, r)| (*p as u64, r.iter().map(|(a, b)| (*a, *b)).collect())).collect();
    v.coq()
}

fn coq_case(sc: &Scenario) -> String {
    let u: Vec<Raw> = sc
        .u
        .iter()
        .map(|o| {
            let c: Vec<(u64, u64)> = o.content.iter().map(|(a, b)| (*a, *b)).collect();
            Raw(format!("({}, {})", o.num, ctor("mkSigObj", &[c.coq(), o.sig_ok.coq(), o.root_ok.coq()])))
        })
        .collect();
    let cfg = ctor(
        "mkCfg",
        &[
            sc.delegates.iter().map(|x| *x as u64).collect::<Vec<_>>().coq(),
            (sc.threshold as u64).coq(),
            (sc.local as u64).coq(),
            sc.blocked.iter().map(|x| *x as u64).collect::<Vec<_>>().coq(),
            sc.followed.as_ref().map(|v| v.iter().map(|x| *x as u64).collect::<Vec<_>>()).coq(),
            sc.clone.coq(),
            sc.refs_at.as_ref().map(|v| v.iter().map(|(p, a)| (*p as u64, *a)).collect::<Vec<_>>()).coq(),
            sc.srv_canon.coq(),
        ],
    );
    ctor("mkCase", &[cfg, u.coq(), sc.anc.coq(), coq_nsmap(&sc.l), coq_nsmap(&sc.s)])
}

fn coq_obs(o: &Outcome, after: &NsMap) -> String {
    let r = match o {
        Outcome::Success => "RSuccess".to_string(),
        Outcome::Failed => "RFailed".to_string(),
        Outcome::Err(c, _) => format!("(RErr {c})"),
        Outcome::Panic(_) => "RPanic".to_string(),
    };
    format!("(mkObs {} {})", r, coq_nsmap(after))
}

fn scenario_json(sc: &Scenario) -> Value {
    json!({
        "npeers": sc.npeers, "delegates": sc.delegates, "threshold": sc.threshold, "local": sc.local,
        "blocked": sc.blocked, "followed": sc.followed, "clone": sc.clone, "refs_at": sc.refs_at,
        "srv_canon": sc.srv_canon,
        "L": format!("{:?}", sc.l), "S": format!("{:?}", sc.s),
        "U": sc.u.iter().map(|o| json!({"oid": o.num, "ns": o.nid, "kind": o.kind, "content": format!("{:?}", o.content)})).collect::<Vec<_>>(),
        "names": NAMES.iter().map(|(k, s)| format!("{k}={s}")).collect::<Vec<_>>(),
        "tags": sc.tags,
    })
}

// ------------------------------------------------------------------ table generators

fn ns(obj: usize) -> NsSpec {
    NsSpec { present: true, sigrefs: Some(obj), refs_of: Some(obj), edits: vec![] }
}

fn base_plan(r: &mut Rng, npeers: usize) -> Plan {
    let seeds: Vec<[u8; 32]> = (0..npeers)
        .map(|_| {
            let b = r.bytes(32);
            let mut s = [0u8; 32];
            s.copy_from_slice(&b);
            s
        })
        .collect();
    let objs: Vec<Vec<ObjSpec>> = (0..npeers).map(|_| gen_objs(r, false)).collect();
    Plan {
        seeds,
        delegates: vec![0],
        threshold: 1,
        local: 0,
        blocked: vec![],
        followed: None,
        clone: false,
        srv_canon: true,
        objs,
        srv: vec![NsSpec::default(); npeers],
        loc: vec![NsSpec::default(); npeers],
        refs_at: None,
        tags: vec![],
    }
}

#[derive(Clone, Debug)]
struct TamperRow {
    kind: &'static str,
    nskind: &'static str, // delegate | nd-followed | nd-all | nd-unfollowed
    mode: &'static str,   // clone | pull-present | pull-absent
    refs_at: bool,
}

const COMMON_KINDS: &[&str] = &[
    "none", "extra-ref", "moved-ref", "missing-ref", "flip", "otherkey", "garbage", "foreignroot", "dataroot",
    "rewound", "forked", "radid-unsigned", "radid-moved", "radid-diverged", "lone-radid", "nonqualified",
    "sigrefs-signed", "stale-rad", "no-canonical",
];
const AT_KINDS: &[&str] = &["at-behind-tip", "at-ahead-of-tip", "at-invalid", "at-unknown", "at-absent-ns", "at-dup", "at-dup-rev", "at-blocked"];

fn tamper_table() -> Vec<TamperRow> {
    let mut v = vec![];
    for kind in COMMON_KINDS {
        for nskind in ["delegate", "nd-followed", "nd-all", "nd-unfollowed"] {
            v.push(TamperRow { kind, nskind, mode: "clone", refs_at: false });
            for mode in ["pull-present", "pull-absent"] {
                for refs_at in [false, true] {
                    v.push(TamperRow { kind, nskind, mode, refs_at });
                }
            }
        }
    }
    for kind in AT_KINDS {
        for nskind in ["delegate", "nd-all"] {
            for mode in ["pull-present", "pull-absent"] {
                v.push(TamperRow { kind, nskind, mode, refs_at: true });
            }
        }
    }
    v
}

fn gen_tamper(r: &mut Rng, row: &TamperRow) -> Plan {
    let mut p = base_plan(r, 4);
    let mut roles = [0usize, 1, 2, 3];
    r.shuffle(&mut roles);
    let (t, d, x, b) = (roles[0], roles[1], roles[2], roles[3]);
    p.local = x;
    p.tags.push(format!("tamper:{}", row.kind));
    p.tags.push(format!("ns:{}", row.nskind));
    match row.nskind {
        "delegate" => {
            p.delegates = vec![t, d];
            p.delegates.sort();
            p.threshold = r.range(1, 2) as usize;
            p.followed = if r.bool() { None } else { Some(vec![]) };
        }
        "nd-followed" => {
            p.delegates = vec![d];
            p.followed = Some(vec![t]);
        }
        "nd-all" => {
            p.delegates = vec![d];
            p.followed = None;
        }
        _ => {
            p.delegates = vec![d];
            p.followed = Some(vec![b]);
        }
    }
    p.clone = row.mode == "clone";
    p.srv[d] = ns(1);
    p.srv[b] = ns(r.below(3) as usize);
    p.srv[t] = ns(2);
    if !p.clone {
        p.loc[d] = ns(r.below(2) as usize);
        if r.bool() {
            p.loc[b] = ns(0);
        }
        if row.mode == "pull-present" {
            p.loc[t] = ns(1);
        }
    }
    let data_names: Vec<u64> = p.objs[t][2].content.keys().copied().filter(|n| *n < 40 || *n >= 50).collect();
    let mut at: Vec<(usize, AtSpec)> = vec![];
    let mut at_default = true;
    match row.kind {
        "none" => {}
        "extra-ref" => {
            let free: Vec<u64> = [10u64, 20, 21, 30, 50].into_iter().filter(|n| !p.objs[t][2].content.contains_key(n)).collect();
            let n = if free.is_empty() { 43 } else { *r.pick(&free) };
            p.srv[t].edits.push((n, Some(4 + r.below(5) as usize)));
        }
        "moved-ref" => {
            if !data_names.is_empty() {
                let n = *r.pick(&data_names);
                let cur = p.objs[t][2].content[&n];
                p.srv[t].edits.push((n, Some(4 + (cur - 4 + 1 + r.below(4) as usize) % 5)));
            }
        }
        "missing-ref" => {
            if !data_names.is_empty() {
                p.srv[t].edits.push((*r.pick(&data_names), None));
            }
        }
        "flip" => p.srv[t] = ns(4),
        "otherkey" => p.srv[t] = ns(5),
        "garbage" => p.srv[t] = ns(6),
        "foreignroot" => p.srv[t] = ns(7),
        "dataroot" => p.srv[t] = ns(8),
        "rewound" => p.srv[t] = ns(0),
        "forked" => p.srv[t] = ns(3),
        "radid-unsigned" => {
            p.objs[t][2].content.remove(&N_ID);
            p.srv[t].edits.push((N_ID, Some(r.below(4) as usize)));
        }
        "radid-moved" => {
            p.objs[t][2].content.insert(N_ID, 1);
            p.srv[t].edits.push((N_ID, Some(*r.pick(&[0usize, 2, 3]))));
        }
        "radid-diverged" => {
            p.objs[t][1].content.insert(N_ID, 1);
            p.objs[t][2].content.insert(N_ID, 2);
        }
        "lone-radid" => {
            p.srv[t] = NsSpec { present: true, sigrefs: None, refs_of: None, edits: vec![(N_ID, Some(r.below(4) as usize))] };
        }
        "nonqualified" => {
            p.objs[t][2].content.insert(5, 4 + r.below(5) as usize);
        }
        "sigrefs-signed" => {
            p.objs[t][2].content.insert(N_SIGREFS, 4 + r.below(5) as usize);
        }
        "stale-rad" => {
            p.objs[t][1].content.insert(43, 4);
            p.objs[t][1].content.insert(N_ROOT, SLOT_I0);
            p.objs[t][2].content.remove(&43);
            if r.bool() {
                p.objs[t][2].content.remove(&N_ROOT);
            }
        }
        "no-canonical" => p.srv_canon = false,
        "at-behind-tip" => {
            if row.mode == "pull-present" {
                p.loc[t] = ns(0);
            }
            at.push((t, AtSpec::Obj(1)));
            at_default = false;
        }
        "at-ahead-of-tip" => {
            p.srv[t] = ns(1);
            at.push((t, AtSpec::Obj(2)));
            at_default = false;
        }
        "at-invalid" => {
            at.push((t, AtSpec::Obj(4 + r.below(5) as usize)));
            at_default = false;
        }
        "at-unknown" => {
            at.push((t, AtSpec::Unknown));
            at_default = false;
        }
        "at-absent-ns" => {
            p.srv[t] = NsSpec::default();
            at.push((t, AtSpec::Obj(2)));
            at_default = false;
        }
        "at-dup" => {
            if row.mode == "pull-present" {
                p.loc[t] = ns(0);
            }
            at.push((t, AtSpec::Obj(1)));
            at.push((t, AtSpec::Obj(2)));
            at_default = false;
        }
        "at-dup-rev" => {
            if row.mode == "pull-present" {
                p.loc[t] = ns(0);
            }
            at.push((t, AtSpec::Obj(2)));
            at.push((t, AtSpec::Obj(1)));
            at_default = false;
        }
        "at-blocked" => {
            p.blocked = vec![t];
            at.push((t, AtSpec::Obj(2)));
            at_default = false;
        }
        _ => unreachable!(),
    }
    if row.refs_at && !p.clone {
        if at_default {
            if let Some(o) = p.srv[t].sigrefs {
                at.push((t, AtSpec::Obj(o)));
            } else {
                at.push((t, AtSpec::Obj(2)));
            }
        }
        if r.bool() {
            at.push((d, AtSpec::Obj(1)));
        }
        p.refs_at = Some(at);
    }
    p
}

#[derive(Clone, Debug)]
struct DelegRow {
    states: Vec<u8>, // per delegate: 0 missing, 1 behind, 2 equal, 3 ahead, 4 diverged, 5 invalid
    threshold: usize,
    local_delegate: bool,
}

fn deleg_table() -> Vec<DelegRow> {
    let mut v = vec![];
    for k in 1..=3usize {
        let total = 6usize.pow(k as u32);
        for code in 0..total {
            let mut states = vec![];
            let mut c = code;
            for _ in 0..k {
                states.push((c % 6) as u8);
                c /= 6;
            }
            for local_delegate in [false, true] {
                let n = if local_delegate { k + 1 } else { k };
                for threshold in 1..=n {
                    v.push(DelegRow { states: states.clone(), threshold, local_delegate });
                }
            }
        }
    }
    v
}

fn gen_deleg(r: &mut Rng, row: &DelegRow) -> Plan {
    let k = row.states.len();
    let extra = r.bool();
    let npeers = k + 1 + extra as usize;
    let mut p = base_plan(r, npeers);
    let mut roles: Vec<usize> = (0..npeers).collect();
    r.shuffle(&mut roles);
    let ds: Vec<usize> = roles[..k].to_vec();
    let x = roles[k];
    p.local = x;
    p.delegates = ds.clone();
    if row.local_delegate {
        p.delegates.push(x);
    }
    p.delegates.sort();
    p.threshold = row.threshold;
    p.clone = r.chance(1, 6);
    p.followed = if r.bool() { None } else { Some(subset(r, npeers, 1, 2)) };
    p.tags.push(format!("deleg-k{}", k));
    for (i, d) in ds.iter().enumerate() {
        if !p.clone {
            p.loc[*d] = ns(1);
        }
        p.srv[*d] = match row.states[i] {
            0 => NsSpec::default(),
            1 => ns(0),
            2 => ns(1),
            3 => ns(2),
            4 => ns(3),
            _ => ns(4 + r.below(5) as usize),
        };
    }
    if extra {
        let b = roles[k + 1];
        p.srv[b] = ns(r.below(4) as usize);
        if !p.clone && r.bool() {
            p.loc[b] = ns(0);
        }
    }
    if !p.clone && r.bool() {
        // the local node's own namespace
        p.loc[x] = ns(1);
        if r.bool() {
            p.srv[x] = ns(r.below(4) as usize);
        }
    }
    if !p.clone && r.chance(1, 4) {
        let v: Vec<(usize, AtSpec)> =
            ds.iter().filter_map(|d| p.srv[*d].sigrefs.map(|o| (*d, AtSpec::Obj(o)))).collect();
        if !v.is_empty() {
            p.refs_at = Some(v);
        }
    }
    p
}

/// Hand-picked rows that reproduce each defect found (all repaired or recorded).
fn witnesses() -> Vec<Plan> {
    let rows = [
        TamperRow { kind: "at-behind-tip", nskind: "nd-all", mode: "pull-present", refs_at: true },
        TamperRow { kind: "at-invalid", nskind: "delegate", mode: "pull-present", refs_at: true },
        TamperRow { kind: "at-absent-ns", nskind: "nd-all", mode: "pull-present", refs_at: true },
        TamperRow { kind: "lone-radid", nskind: "nd-all", mode: "pull-absent", refs_at: false },
        TamperRow { kind: "stale-rad", nskind: "nd-all", mode: "pull-present", refs_at: false },
        TamperRow { kind: "nonqualified", nskind: "nd-all", mode: "pull-present", refs_at: false },
        TamperRow { kind: "no-canonical", nskind: "delegate", mode: "clone", refs_at: false },
        TamperRow { kind: "at-blocked", nskind: "nd-all", mode: "pull-present", refs_at: true },
        TamperRow { kind: "at-dup-rev", nskind: "nd-all", mode: "pull-present", refs_at: true },
        TamperRow { kind: "radid-diverged", nskind: "delegate", mode: "pull-present", refs_at: false },
        TamperRow { kind: "forked", nskind: "nd-all", mode: "pull-present", refs_at: false },
        TamperRow { kind: "forked", nskind: "nd-followed", mode: "pull-present", refs_at: true },
        TamperRow { kind: "rewound", nskind: "nd-all", mode: "pull-present", refs_at: true },
    ];
    rows.iter().enumerate().map(|(i, row)| gen_tamper(&mut Rng::new(7000 + i as u64), row)).collect()
}

// ------------------------------------------------------------------ oracles

fn lookup_obj(sc: &Scenario, num: u64) -> Option<&SigObj> {
    sc.u.iter().find(|o| o.num == num)
}

struct Fail {
    prop: &'static str,
    class: &'static str,
    what: String,
}

/// Direct property oracles on what the real fetch did to the real storage
/// (independent of the model).
fn oracles(b: &Built, ob: &Observed, before: &NsMap, after: &NsMap, tallies: &mut Vec<String>) -> Vec<Fail> {
    let sc = &b.sc;
    let w = &b.w;
    let mut fails: Vec<Fail> = vec![];
    let mut fail = |prop: &'static str, class: &'static str, what: String| fails.push(Fail { prop, class, what });
    let repo = radicle::storage::git::Repository::open(b.local_repo.backend.path(), w.rid).unwrap();
    let all: BTreeSet<usize> = before.keys().chain(after.keys()).copied().collect();
    let empty = BTreeMap::new();
    let eff_blocked: BTreeSet<usize> = sc.blocked.iter().copied().chain((!sc.clone).then_some(sc.local)).collect();
    for n in &all {
        let bf = before.get(n).unwrap_or(&empty);
        let af = after.get(n).unwrap_or(&empty);
        if bf == af {
            continue;
        }
        tallies.push("ns-changed".into());
        if eff_blocked.contains(n) {
            fail("C01", "blocked-namespace-changed", format!("namespace {n} is blocked (or the local node's own on a pull) but was changed by the fetch"));
        }
        // ---- C01, against the scenario's ground truth (independent of the code's own
        // verification): the object rad/sigrefs now points at was built validly signed by
        // this namespace's key over its canonical refs and naming this repository
        match af.get(&N_SIGREFS).and_then(|t| lookup_obj(sc, *t)) {
            Some(o) if o.sig_ok && o.root_ok && o.nid == *n => {}
            Some(o) => fail("C01", "changed-namespace-points-at-tampered-sigrefs", format!(
                "namespace {n} was changed by the fetch ({:?}) and its rad/sigrefs is object {} built as '{}' for namespace {}", ob.outcome, o.num, o.kind, o.nid)),
            None => fail("C01", "changed-namespace-without-sigrefs", format!(
                "namespace {n} was changed by the fetch ({:?}) and has no rad/sigrefs pointing at a signed-refs object: {:?}", ob.outcome, af.get(&N_SIGREFS))),
        }
        // ---- C01: the changed namespace matches its owner's signed refs
        let pk = w.pk(*n);
        match SignedRefs::load(pk, &repo) {
            Err(e) => {
                let class = if af.get(&N_SIGREFS).is_none() { "changed-namespace-without-sigrefs" } else { "changed-namespace-invalid-sigrefs" };
                fail("C01", class, format!("namespace {n} was changed by the fetch ({:?}) but its signed refs do not load/verify from local storage: {e}", ob.outcome));
            }
            Ok(sr) => {
                let signed: BTreeMap<String, Oid> = sr.refs.iter().map(|(k, v)| (k.to_string(), *v)).collect();
                let prefix = format!("refs/namespaces/{pk}/");
                let have: BTreeMap<String, Oid> = ob
                    .after
                    .iter()
                    .filter_map(|(k, v)| k.strip_prefix(&prefix).map(|s| (s.to_string(), *v)))
                    .filter(|(k, _)| k != "refs/rad/sigrefs")
                    .collect();
                if signed != have {
                    let extra: Vec<&String> = have.keys().filter(|k| !signed.contains_key(*k)).collect();
                    let missing: Vec<&String> = signed.keys().filter(|k| !have.contains_key(*k)).collect();
                    let moved: Vec<&String> = have.iter().filter(|(k, v)| signed.get(*k).map(|s| s != *v).unwrap_or(false)).map(|(k, _)| k).collect();
                    // KnownClass: the only difference is `refs/rad/*` references that were in
                    // local storage before the fetch, are unchanged, and are no longer signed
                    // (DataRefs never prunes refs/rad/*).
                    let only_stale_rad = missing.is_empty()
                        && moved.is_empty()
                        && extra.iter().all(|k| {
                            k.starts_with("refs/rad/")
                                && ob.before.get(&format!("{prefix}{k}")).is_some()
                                && ob.before.get(&format!("{prefix}{k}")) == ob.after.get(&format!("{prefix}{k}"))
                        });
                    let class = if only_stale_rad { "c01-stale-rad-ref-kept" } else { "changed-namespace-mismatch" };
                    fail("C01", class, format!(
                        "namespace {n} changed by the fetch ({:?}) does not match its stored signed refs: extra {extra:?} missing {missing:?} moved {moved:?}",
                        ob.outcome));
                } else {
                    // the storage's own validator must agree
                    let remote = repo.remote(&pk);
                    match remote.map(|r| repo.validate_remote(&r)) {
                        Ok(Ok(v)) if v.is_empty() => {}
                        other => fail("C01", "validate-remote-disagrees", format!("namespace {n}: refs equal the signed map but validate_remote says {other:?}")),
                    }
                }
            }
        }
    }
    // ---- C02: no namespace's (a fortiori no delegate's) sigrefs moves backwards / sideways / away
    for n in &all {
        let bf = before.get(n).unwrap_or(&empty);
        let af = after.get(n).unwrap_or(&empty);
        let class_moved = if sc.delegates.contains(n) { "delegate-sigrefs-rewound" } else { "sigrefs-rewound" };
        match (bf.get(&N_SIGREFS), af.get(&N_SIGREFS)) {
            (Some(a), Some(bb)) if a != bb => {
                tallies.push(if sc.delegates.contains(n) { "sigrefs-moved:delegate".into() } else { "sigrefs-moved:other".into() });
                let desc = repo.backend.graph_descendant_of(*w.oid(*bb), *w.oid(*a)).unwrap_or(false);
                if !desc {
                    fail("C02", class_moved, format!("namespace {n}: rad/sigrefs moved {a} -> {bb}, which is not a descendant"));
                }
            }
            (Some(_), None) => fail("C02", "sigrefs-deleted", format!("namespace {n}: rad/sigrefs deleted")),
            _ => {}
        }
    }
    // ---- storage unchanged on Failed / errors other than a mid-apply abort
    match &ob.outcome {
        Outcome::Failed => {
            if ob.before != ob.after {
                fail("C02", "failed-fetch-changed-storage", "fetch reported Failed but local storage changed".into());
            }
        }
        Outcome::Err(c, s) if *c != 4 => {
            if ob.before != ob.after {
                fail("C01", "error-changed-storage", format!("fetch returned an error ({s}) but local storage changed"));
            }
        }
        Outcome::Panic(p) => {
            fail("C01", "fetch-panicked", format!("fetch panicked: {p}"));
            fail("C02", "fetch-panicked", format!("fetch panicked: {p}"));
        }
        _ => {}
    }
    // ---- C02: success needs the threshold.  Independent count: delegates (not blocked)
    // that end up with a rad/sigrefs in local storage which loads and verifies.
    if ob.outcome == Outcome::Success {
        let is_delegate = sc.delegates.contains(&sc.local);
        let thr = if is_delegate { sc.threshold - 1 } else { sc.threshold };
        let have: usize = sc
            .delegates
            .iter()
            .filter(|d| !eff_blocked.contains(d))
            .filter(|d| after.get(d).and_then(|m| m.get(&N_SIGREFS)).is_some())
            .count();
        if have < thr {
            fail("C02", "success-below-threshold", format!("fetch succeeded with {have} delegate namespaces stored, threshold {thr}"));
        }
        tallies.push(format!("success-margin:{}", (have - thr.min(have)).min(3)));
    }
    if ob.outcome == Outcome::Failed {
        tallies.push("failed-below-threshold".into());
    }
    fails
}

// ------------------------------------------------------------------ driver

struct CaseOut {
    id: String,
    tallies: Vec<String>,
    nontrivial: Option<String>,
    fails: Vec<Fail>,
    input: Value,
    sample: Value,
    term_in: String,
    term_obs: String,
    probe: String,
}

fn compute(id: &str, plan: &Plan) -> CaseOut {
    let t0 = std::time::Instant::now();
    let mut b = build(plan);
    let t1 = t0.elapsed();
    let ob = execute(&mut b);
    let t2 = t0.elapsed();
    if std::env::var("HW_TIMING").is_ok() {
        eprintln!("{id}: build {:?} execute {:?}", t1, t2 - t1);
    }
    let (before, odd1) = abstract_refs(&b.w, &ob.before);
    let (after, odd2) = abstract_refs(&b.w, &ob.after);
    assert_eq!(before, b.sc.l, "local repository was not built as planned");
    let sc = &b.sc;
    let mut tallies: Vec<String> = vec![];
    let mut fails = vec![];
    if !odd1.is_empty() || !odd2.is_empty() {
        fails.push(Fail { prop: "*", class: "harness-unknown-ref", what: format!("unexpected references {odd1:?} {odd2:?}") });
    }
    tallies.push(
        match &ob.outcome {
            Outcome::Success => "out:success",
            Outcome::Failed => "out:failed",
            Outcome::Err(1, _) => "out:err-layout",
            Outcome::Err(2, _) => "out:err-sigrefs",
            Outcome::Err(3, _) => "out:err-diverged",
            Outcome::Err(4, _) => "out:err-nonff",
            Outcome::Err(5, _) => "out:err-transport",
            Outcome::Err(_, _) => "out:err-other",
            Outcome::Panic(_) => "out:panic",
        }
        .into(),
    );
    tallies.push((if sc.clone { "mode:clone" } else if sc.refs_at.is_some() { "mode:pull-refs_at" } else { "mode:pull" }).into());
    let nontrivial = if before != after {
        tallies.push("storage-changed".into());
        Some(format!("{:?}|{:?}|{:?}", ob.outcome, before, after))
    } else {
        None
    };
    for t in &sc.tags {
        tallies.push(format!("tag:{t}"));
    }
    let probe = format!("{id}: {:?}\n  before {:?}\n  after  {:?}\n  remotes {:?}", ob.outcome, before, after, ob.remotes);
    fails.extend(oracles(&b, &ob, &before, &after, &mut tallies));
    if let Outcome::Err(9, s) = &ob.outcome {
        fails.push(Fail { prop: "*", class: "unclassified-fetch-error", what: s.clone() });
    }
    CaseOut {
        id: id.to_string(),
        tallies,
        nontrivial,
        fails,
        input: scenario_json(sc),
        sample: json!({"case": id, "outcome": format!("{:?}", ob.outcome), "scenario": scenario_json(sc), "after": format!("{after:?}")}),
        term_in: coq_case(sc),
        term_obs: coq_obs(&ob.outcome, &after),
        probe,
    }
}

fn known_classes(prop: &str) -> BTreeSet<String> {
    // read-only: which classes the committed known-findings file lists for this property
    let mut out = BTreeSet::new();
    let mut dir = std::env::current_dir().ok();
    let mut path = None;
    while let Some(d) = dir {
        if d.join("known_findings.json").exists() {
            path = Some(d.join("known_findings.json"));
            break;
        }
        dir = d.parent().map(|p| p.to_path_buf());
    }
    let path = path.unwrap_or_else(|| "/verif/known_findings.json".into());
    if let Ok(txt) = std::fs::read_to_string(path) {
        if let Ok(v) = serde_json::from_str::<Value>(&txt) {
            for f in v["findings"].as_array().cloned().unwrap_or_default() {
                if f["property"] == prop && f["status"] == "known" {
                    if let Some(c) = f["class"].as_str() {
                        out.insert(c.to_string());
                    }
                }
            }
        }
    }
    out
}

fn main() {
    quiet_panics();
    let prop = {
        let a: Vec<String> = std::env::args().collect();
        a.iter().position(|x| x == "--prop").map(|i| a[i + 1].clone()).unwrap_or("C01".into())
    };
    let mut run = Run::new(
        &prop,
        "model.Fetch",
        "distinct (outcome, local refs before, local refs after) triples among the cases in which the real fetch changed local storage",
    );
    run.shard_size(60);
    run.case_ty = "(case * obs)".into();
    let probe = run.args.extra.iter().any(|x| x == "--probe");
    let seed = run.args.seed;
    let thorough = run.args.thorough;
    // ---- the work list
    let mut work: Vec<(String, Plan)> = vec![];
    for (i, p) in witnesses().into_iter().enumerate() {
        work.push((format!("wit:{i}"), p));
    }
    // tamper table: complete in the thorough tier; the quick tier takes one row of every
    // tamper kind (namespace kind / mode / refs_at drawn at random)
    let tampers = tamper_table();
    if thorough {
        for i in 0..(tampers.len() as u64 * run.args.scale) {
            let mut r = Rng::for_case(seed, 2, i);
            work.push((format!("tamper:{i}"), gen_tamper(&mut r, &tampers[i as usize % tampers.len()])));
        }
    } else {
        let kinds: Vec<&str> = COMMON_KINDS.iter().chain(AT_KINDS.iter()).copied().collect();
        for i in 0..(kinds.len() as u64 * run.args.scale) {
            let kind = kinds[i as usize % kinds.len()];
            // rows in which the tamper is visible to the fetch: the namespace is in scope, and
            // the rad/id tampers are not combined with refs_at (SigrefsAt never sees rad/id)
            let rows: Vec<&TamperRow> = tampers
                .iter()
                .filter(|t| t.kind == kind && t.nskind != "nd-unfollowed")
                .filter(|t| !(t.refs_at && ["radid-unsigned", "radid-moved", "radid-diverged", "lone-radid"].contains(&t.kind)))
                .collect();
            let row = rows[Rng::for_case(seed, 20, i).below(rows.len() as u64) as usize];
            let mut r = Rng::for_case(seed, 2, i);
            work.push((format!("tamper:{i}"), gen_tamper(&mut r, row)));
            // and one row of the kind in which the namespace is already present locally (a
            // pull over an existing rad/sigrefs: the ancestry checks only run there) — a
            // seeded change in the non-delegate Diverged arm was missed by the single draw
            let present: Vec<&&TamperRow> = rows.iter().filter(|t| t.mode == "pull-present").collect();
            if !present.is_empty() {
                let row = present[Rng::for_case(seed, 23, i).below(present.len() as u64) as usize];
                let mut r = Rng::for_case(seed, 24, i);
                work.push((format!("tamper-present:{i}"), gen_tamper(&mut r, row)));
            }
        }
        // and a few rows with the namespace out of scope (it must stay untouched)
        let out: Vec<&TamperRow> = tampers.iter().filter(|t| t.nskind == "nd-unfollowed").collect();
        for i in 0..3 * run.args.scale {
            let row = out[Rng::for_case(seed, 21, i).below(out.len() as u64) as usize];
            let mut r = Rng::for_case(seed, 22, i);
            work.push((format!("tamper-out:{i}"), gen_tamper(&mut r, row)));
        }
    }
    // delegate-state table: k <= 2 is always enumerated completely in the thorough tier;
    // k = 3 (1512 rows) completely when HW_FULL=1 or under an escalated search (--scale > 1),
    // otherwise a slice of it that rotates with the seed
    let full = std::env::var("HW_FULL").is_ok() || run.args.scale > 1;
    let delegs = deleg_table();
    let small: Vec<&DelegRow> = delegs.iter().filter(|r| r.states.len() <= 2).collect();
    let big: Vec<&DelegRow> = delegs.iter().filter(|r| r.states.len() == 3).collect();
    let mut rows: Vec<&DelegRow> = vec![];
    if thorough {
        rows.extend(small.iter().copied());
        if full {
            rows.extend(big.iter().copied());
        } else {
            let start = (seed as usize * 40) % big.len();
            rows.extend((0..40).map(|j| big[(start + j) % big.len()]));
        }
    } else {
        for i in 0..run.args.count(15, 0) {
            rows.push(&delegs[Rng::for_case(seed, 30, i).below(delegs.len() as u64) as usize]);
        }
    }
    for (i, row) in rows.iter().enumerate() {
        let mut r = Rng::for_case(seed, 3, i as u64);
        work.push((format!("deleg:{i}"), gen_deleg(&mut r, row)));
    }
    let n_rand = if thorough { if full { 300 } else { 30 } } else { run.args.count(15, 0) };
    for i in 0..n_rand {
        let mut r = Rng::for_case(seed, 1, i);
        work.push((format!("rand:{i}"), gen_random(&mut r)));
    }
    work.retain(|(id, _)| run.args.wants(id));
    // `exhaustive` only when every finite table is enumerated completely (HW_FULL / escalation)
    run.exhaustive = thorough && (std::env::var("HW_FULL").is_ok() || run.args.scale > 1);
    if thorough {
        run.note(format!(
            "thorough: enumerated completely: the {} tamper-kind x namespace-kind x mode x refs_at rows and the {} delegate-state^k x threshold x local-role rows for k <= 2; k = 3: {} (all 1512 rows with HW_FULL=1; the complete enumeration, 2432 cases, was run on 2026-09-22 with 0 oracle failures outside the recorded class and 0 correspondence mismatches)",
            tampers.len(), small.len(), if full { "all 1512 rows".to_string() } else { "a 40-row slice rotating with the seed".to_string() }));
    }
    // ---- execute in parallel, report in order
    let nthreads = std::env::var("HW_THREADS").ok().and_then(|s| s.parse().ok()).unwrap_or(12usize).max(1);
    let work = std::sync::Arc::new(work);
    let next = std::sync::Arc::new(std::sync::atomic::AtomicUsize::new(0));
    let (tx, rx) = std::sync::mpsc::channel::<(usize, CaseOut)>();
    let mut handles = vec![];
    for _ in 0..nthreads {
        let (work, next, tx) = (work.clone(), next.clone(), tx.clone());
        handles.push(std::thread::spawn(move || loop {
            let i = next.fetch_add(1, std::sync::atomic::Ordering::SeqCst);
            if i >= work.len() {
                break;
            }
            let (id, plan) = &work[i];
            let out = match catch(AssertUnwindSafe(|| compute(id, plan))) {
                Ok(o) => o,
                Err(p) => CaseOut {
                    id: id.clone(),
                    tallies: vec!["harness-panic".into()],
                    nontrivial: None,
                    fails: vec![Fail { prop: "*", class: "harness-panic", what: p }],
                    input: json!({}),
                    sample: json!({}),
                    term_in: String::new(),
                    term_obs: String::new(),
                    probe: String::new(),
                },
            };
            tx.send((i, out)).ok();
        }));
    }
    drop(tx);
    let mut outs: BTreeMap<usize, CaseOut> = rx.iter().collect();
    for h in handles {
        h.join().ok();
    }
    let known = known_classes(&prop);
    let mut stale_rad = 0u64;
    for i in 0..work.len() {
        let Some(o) = outs.remove(&i) else { continue };
        run.eval();
        run.tally(&format!("stream:{}", o.id.split(':').next().unwrap()));
        for t in &o.tallies {
            run.tally(t);
        }
        if let Some(k) = o.nontrivial {
            run.nontrivial(k);
        }
        if probe {
            println!("{}", o.probe);
        }
        for f in o.fails {
            if f.class == "c01-stale-rad-ref-kept" {
                stale_rad += 1;
                run.tally("finding:c01-stale-rad-ref-kept");
                // reported as an oracle failure exactly when the committed known-findings
                // file lists this class (bin/check then prints KNOWN-FINDING); until it is
                // recorded there it is counted here and described in the notes.
                if !(prop == "C01" && known.contains(f.class)) {
                    continue;
                }
            }
            if f.prop == "*" || f.prop == prop {
                if probe {
                    println!("  FAIL {} {}", f.class, f.what);
                }
                run.fail(&o.id, f.class, f.what, o.input.clone());
            }
        }
        if !o.term_in.is_empty() {
            run.sample(o.sample);
            run.case(&o.id, o.term_in, o.term_obs);
        }
    }
    if stale_rad > 0 {
        run.note(format!(
            "proposed known finding c01-stale-rad-ref-kept observed {stale_rad} time(s): a changed namespace keeps refs/rad/* references (other than rad/sigrefs) that are no longer in its signed refs, because DataRefs never prunes refs/rad/* (Coq: C01_exact_match_refuted_by_stale_rad_ref)"));
    }
    run.finish();
}
