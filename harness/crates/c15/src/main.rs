//! C15: wire messages round-trip and have a unique encoding — correspondence with
//! coq/model/WireMsg.v and the direct oracles (fits the frame, round trip, re-encoding of
//! whatever decodes equals the input) on the real `radicle_node::wire` codec.
//!
//! Streams (case id = `<stream>:<index>`, plus `c:0` for the constants):
//!   e  structured messages of every type (typical / at the limits / beyond the limits):
//!      Message::encode observed (bytes | error | panic)
//!   d  the same messages: wire::deserialize of their encoding (round trip)
//!   q  messages from the crate's own qcheck `Arbitrary for Message` (seeded): both directions
//!   m  mutations of valid encodings (flips, truncations, extensions, length tweaks, padding,
//!      agent surgery): wire::deserialize observed, re-encoding compared with the input
//!   g  grammar-directed byte strings with faults injected field by field
//!   s  the string checks alone (String::from_utf8, Alias::from_str, UserAgent::from_str)
use std::collections::BTreeSet;
use std::io;
use std::panic::AssertUnwindSafe;
use std::str::FromStr;

use cyphernet::addr::tor::OnionAddrV3;
use cyphernet::addr::{Addr as _, HostName, NetAddr};
use cyphernet::EcPk as _;
use hw_common::*;
use radicle::crypto::{PublicKey, Signature};
use radicle::git;
use radicle::identity::RepoId;
use radicle::node::{Address, Alias, Features, UserAgent};
use radicle::storage::refs::RefsAt;
use radicle_node::bounded::BoundedVec;
use radicle_node::service::filter::{BloomFilter, Filter, FILTER_SIZES};
use radicle_node::service::message::*;
use radicle_node::service::Message;
use radicle_node::wire::{self, Encode};
use radicle_node::{LocalTime, Timestamp};

// ------------------------------------------------------------------ mirror of the model types

#[derive(Clone, Debug, PartialEq)]
enum Host {
    Ip4([u8; 4]),
    Ip6([u8; 16]),
    Dns(Vec<u8>),
    Onion([u8; 35]),
}
#[derive(Clone, Debug, PartialEq)]
struct Addr {
    host: Host,
    port: u16,
}
#[derive(Clone, Debug, PartialEq)]
struct NodeAnn {
    version: u8,
    features: u64,
    timestamp: u64,
    alias: Vec<u8>,
    addresses: Vec<Addr>,
    nonce: u64,
    agent: Vec<u8>,
}
#[derive(Clone, Debug, PartialEq)]
enum Ann {
    Inventory(Vec<[u8; 20]>, u64),
    Node(NodeAnn),
    Refs([u8; 20], Vec<([u8; 32], [u8; 20])>, u64),
}
#[derive(Clone, Debug, PartialEq)]
enum Msg {
    Subscribe(Vec<u8>, u64, u64),
    Announcement([u8; 32], [u8; 64], Ann),
    Info([u8; 20], [u8; 20]),
    Ping(u16, u16),
    Pong(u16),
}

impl Msg {
    fn kind(&self) -> &'static str {
        match self {
            Msg::Subscribe(..) => "subscribe",
            Msg::Announcement(_, _, Ann::Inventory(..)) => "inventory",
            Msg::Announcement(_, _, Ann::Node(..)) => "node",
            Msg::Announcement(_, _, Ann::Refs(..)) => "refs",
            Msg::Info(..) => "info",
            Msg::Ping(..) => "ping",
            Msg::Pong(..) => "pong",
        }
    }
}

// ------------------------------------------------------------------ Coq rendering (run-length compressed)

/// `list N` term: literal chunks of at most 200 bytes, `rpt n b` runs and `rptb n pattern`
/// periodic stretches, joined by `++`.
fn cbytes(b: &[u8]) -> String {
    if b.is_empty() {
        return "[]".into();
    }
    let mut parts: Vec<String> = vec![];
    let mut lit: Vec<u8> = vec![];
    let flush = |lit: &mut Vec<u8>, parts: &mut Vec<String>| {
        for c in lit.chunks(200) {
            parts.push(c.coq());
        }
        lit.clear();
    };
    let mut i = 0;
    while i < b.len() {
        // longest stretch starting at i that is periodic with period p (p = 1: a run)
        let mut best = (1usize, 1usize); // (period, length)
        if b.len() - i >= 24 {
            for p in [1usize, 22, 54, 2, 4, 20, 32, 52, 64] {
                if i + p >= b.len() {
                    continue;
                }
                let mut j = i + p;
                while j < b.len() && b[j] == b[j - p] {
                    j += 1;
                }
                let len = ((j - i) / p) * p;
                if len >= 24.max(3 * p) && len > best.1 {
                    best = (p, len);
                }
            }
        }
        if best.1 > 1 {
            flush(&mut lit, &mut parts);
            if best.0 == 1 {
                parts.push(format!("rpt {} {}", best.1, b[i]));
            } else {
                parts.push(format!("rptb {} {}", best.1 / best.0, b[i..i + best.0].coq()));
            }
            i += best.1;
        } else {
            lit.push(b[i]);
            i += 1;
        }
    }
    flush(&mut lit, &mut parts);
    format!("({})", parts.join(" ++ "))
}

/// list of items: runs of equal items become `rptl n item`, the rest literal chunks.
fn clist<T: PartialEq>(xs: &[T], f: impl Fn(&T) -> String) -> String {
    if xs.is_empty() {
        return "[]".into();
    }
    let mut parts: Vec<String> = vec![];
    let mut lit: Vec<String> = vec![];
    let flush = |lit: &mut Vec<String>, parts: &mut Vec<String>| {
        for c in lit.chunks(100) {
            parts.push(format!("[{}]", c.join("; ")));
        }
        lit.clear();
    };
    let mut i = 0;
    while i < xs.len() {
        let mut j = i;
        while j < xs.len() && xs[j] == xs[i] {
            j += 1;
        }
        if j - i >= 8 {
            flush(&mut lit, &mut parts);
            parts.push(format!("rptl {} {}", j - i, f(&xs[i])));
        } else {
            for x in &xs[i..j] {
                lit.push(f(x));
            }
        }
        i = j;
    }
    flush(&mut lit, &mut parts);
    format!("({})", parts.join(" ++ "))
}

fn caddr(a: &Addr) -> String {
    let h = match &a.host {
        Host::Ip4(o) => format!("(HIp4 {})", cbytes(o)),
        Host::Ip6(o) => format!("(HIp6 {})", cbytes(o)),
        Host::Dns(s) => format!("(HDns {})", cbytes(s)),
        Host::Onion(o) => format!("(HOnion {})", cbytes(o)),
    };
    format!("(mkAddr {} {})", h, a.port)
}

fn cmsg(m: &Msg) -> String {
    match m {
        Msg::Subscribe(f, s, u) => format!("(MSubscribe {} {} {})", cbytes(f), s, u),
        Msg::Announcement(n, sg, a) => {
            let am = match a {
                Ann::Inventory(inv, ts) => format!("(AInventory {} {})", clist(inv, |o| cbytes(o)), ts),
                Ann::Node(na) => format!(
                    "(ANode (mkNodeAnn {} {} {} {} {} {} {}))",
                    na.version,
                    na.features,
                    na.timestamp,
                    cbytes(&na.alias),
                    clist(&na.addresses, caddr),
                    na.nonce,
                    cbytes(&na.agent)
                ),
                Ann::Refs(rid, refs, ts) => format!(
                    "(ARefs {} {} {})",
                    cbytes(rid),
                    clist(refs, |(n, o)| format!("(mkRefsAt {} {})", cbytes(n), cbytes(o))),
                    ts
                ),
            };
            format!("(MAnnouncement {} {} {})", cbytes(n), cbytes(sg), am)
        }
        Msg::Info(rid, at) => format!("(MInfo (IRefsAlreadySynced {} {}))", cbytes(rid), cbytes(at)),
        Msg::Ping(p, z) => format!("(MPing {} {})", p, z),
        Msg::Pong(z) => format!("(MPong {})", z),
    }
}

// ------------------------------------------------------------------ to / from the real types

fn oid(b: &[u8; 20]) -> git::Oid {
    git::Oid::try_from(b.as_slice()).unwrap()
}
fn oid_bytes(o: &git::Oid) -> [u8; 20] {
    let mut b = [0u8; 20];
    b.copy_from_slice(o.as_bytes());
    b
}
fn timestamp(ms: u64) -> Timestamp {
    // `From<LocalTime>` does not check Timestamp::MAX: values above it are constructible.
    Timestamp::from(LocalTime::from_millis(ms as u128))
}

/// None where the public API refuses to construct the value (invalid alias / agent /
/// onion address, vectors over their BoundedVec limit, invalid UTF-8 in a String).
fn to_real(m: &Msg) -> Option<Message> {
    Some(match m {
        Msg::Subscribe(f, s, u) => Message::Subscribe(Subscribe {
            filter: Filter::from(BloomFilter::from(f.clone())),
            since: timestamp(*s),
            until: timestamp(*u),
        }),
        Msg::Announcement(n, sg, a) => {
            let message: AnnouncementMessage = match a {
                Ann::Inventory(inv, ts) => InventoryAnnouncement {
                    inventory: BoundedVec::try_from(inv.iter().map(|o| RepoId::from(oid(o))).collect::<Vec<_>>()).ok()?,
                    timestamp: timestamp(*ts),
                }
                .into(),
                Ann::Refs(rid, refs, ts) => RefsAnnouncement {
                    rid: RepoId::from(oid(rid)),
                    refs: BoundedVec::try_from(
                        refs.iter().map(|(n, o)| RefsAt { remote: PublicKey::from(*n), at: oid(o) }).collect::<Vec<_>>(),
                    )
                    .ok()?,
                    timestamp: timestamp(*ts),
                }
                .into(),
                Ann::Node(na) => {
                    let mut addrs = vec![];
                    for a in &na.addresses {
                        let host = match &a.host {
                            Host::Ip4(o) => HostName::Ip(std::net::IpAddr::V4(std::net::Ipv4Addr::from(*o))),
                            Host::Ip6(o) => HostName::Ip(std::net::IpAddr::V6(std::net::Ipv6Addr::from(*o))),
                            Host::Dns(s) => HostName::Dns(String::from_utf8(s.clone()).ok()?),
                            Host::Onion(o) => HostName::Tor(OnionAddrV3::from_raw_bytes(*o).ok()?),
                        };
                        addrs.push(Address::from(NetAddr { host, port: a.port }));
                    }
                    NodeAnnouncement {
                        version: na.version,
                        features: Features::from(na.features),
                        timestamp: timestamp(na.timestamp),
                        alias: Alias::from_str(std::str::from_utf8(&na.alias).ok()?).ok()?,
                        addresses: BoundedVec::try_from(addrs).ok()?,
                        nonce: na.nonce,
                        agent: UserAgent::from_str(std::str::from_utf8(&na.agent).ok()?).ok()?,
                    }
                    .into()
                }
            };
            Message::Announcement(Announcement { node: PublicKey::from(*n), signature: Signature::from(*sg), message })
        }
        Msg::Info(rid, at) => Message::Info(Info::RefsAlreadySynced { rid: RepoId::from(oid(rid)), at: oid(at) }),
        Msg::Ping(p, z) => Message::Ping(Ping { ponglen: *p, zeroes: ZeroBytes::new(*z) }),
        Msg::Pong(z) => Message::Pong { zeroes: ZeroBytes::new(*z) },
    })
}

fn from_real(m: &Message) -> Msg {
    match m {
        Message::Subscribe(Subscribe { filter, since, until }) => {
            Msg::Subscribe(filter.as_bytes().to_vec(), **since, **until)
        }
        Message::Announcement(Announcement { node, signature, message }) => {
            let a = match message {
                AnnouncementMessage::Inventory(i) => {
                    Ann::Inventory(i.inventory.iter().map(|r| oid_bytes(r)).collect(), *i.timestamp)
                }
                AnnouncementMessage::Refs(r) => Ann::Refs(
                    oid_bytes(&r.rid),
                    r.refs.iter().map(|x| (**x.remote, oid_bytes(&x.at))).collect(),
                    *r.timestamp,
                ),
                AnnouncementMessage::Node(n) => Ann::Node(NodeAnn {
                    version: n.version,
                    features: *n.features,
                    timestamp: *n.timestamp,
                    alias: n.alias.as_str().as_bytes().to_vec(),
                    addresses: n
                        .addresses
                        .iter()
                        .map(|a| Addr {
                            host: match &a.host {
                                HostName::Ip(std::net::IpAddr::V4(ip)) => Host::Ip4(ip.octets()),
                                HostName::Ip(std::net::IpAddr::V6(ip)) => Host::Ip6(ip.octets()),
                                HostName::Dns(s) => Host::Dns(s.as_bytes().to_vec()),
                                HostName::Tor(o) => Host::Onion(o.into_raw_bytes()),
                                _ => unreachable!("cyphernet is built with tor + dns only"),
                            },
                            port: a.port(),
                        })
                        .collect(),
                    nonce: n.nonce,
                    agent: n.agent.as_str().as_bytes().to_vec(),
                }),
            };
            Msg::Announcement(***node, ***signature, a)
        }
        Message::Info(Info::RefsAlreadySynced { rid, at }) => Msg::Info(oid_bytes(rid), oid_bytes(at)),
        Message::Ping(Ping { ponglen, zeroes }) => Msg::Ping(*ponglen, zeroes.len() as u16),
        Message::Pong { zeroes } => Msg::Pong(zeroes.len() as u16),
    }
}

fn err_term(e: &wire::Error) -> String {
    use wire::Error::*;
    match e {
        Io(err) if err.kind() == io::ErrorKind::UnexpectedEof => "XEof".into(),
        FromUtf8(_) => "XUtf8".into(),
        InvalidSize { expected, actual } => format!("(XInvalidSize {} {})", expected, actual),
        InvalidFilterSize(n) => format!("(XInvalidFilterSize {})", n),
        InvalidAlias(_) => "XInvalidAlias".into(),
        InvalidUserAgent(_) => "XInvalidUserAgent".into(),
        InvalidOnionAddr(_) => "XInvalidOnion".into(),
        InvalidTimestamp(n) => format!("(XInvalidTimestamp {})", n),
        UnknownAddressType(n) => format!("(XUnknownAddressType {})", n),
        UnknownMessageType(n) => format!("(XUnknownMessageType {})", n),
        UnknownInfoType(n) => format!("(XUnknownInfoType {})", n),
        UnexpectedBytes => "XUnexpectedBytes".into(),
        _ => "XOther".into(),
    }
}
fn err_kind(e: &wire::Error) -> &'static str {
    use wire::Error::*;
    match e {
        Io(err) if err.kind() == io::ErrorKind::UnexpectedEof => "eof",
        Io(_) => "io-other",
        FromUtf8(_) => "utf8",
        InvalidSize { .. } => "invalid-size",
        InvalidFilterSize(_) => "invalid-filter-size",
        InvalidAlias(_) => "invalid-alias",
        InvalidUserAgent(_) => "invalid-user-agent",
        InvalidOnionAddr(_) => "invalid-onion",
        InvalidTimestamp(_) => "invalid-timestamp",
        UnknownAddressType(_) => "unknown-address-type",
        UnknownMessageType(_) => "unknown-message-type",
        UnknownInfoType(_) => "unknown-info-type",
        UnexpectedBytes => "unexpected-bytes",
        _ => "other",
    }
}

// ------------------------------------------------------------------ value generators

const DEFAULT_AGENT: &[u8] = b"/radicle/";

fn arr<const K: usize>(r: &mut Rng) -> [u8; K] {
    let mut a = [0u8; K];
    match r.below(8) {
        0 => {}                                  // all zero
        1 => a = [0xff; K],
        _ => a.copy_from_slice(&r.bytes(K)),
    }
    a
}
fn onion_valid(r: &mut Rng) -> [u8; 35] {
    let pk = cyphernet::ed25519::PublicKey::from_pk_compressed(arr::<32>(r)).unwrap();
    OnionAddrV3::from(pk).into_raw_bytes()
}
fn ts(r: &mut Rng, over: bool) -> u64 {
    const MAX: u64 = 9223372036854775807;
    match r.below(10) {
        0 => 0,
        1 => MAX,
        2 => MAX - 1,
        3 if over => MAX + 1 + r.below(5),
        4 if over => u64::MAX,
        5 => 1_700_000_000_000 + r.below(1 << 32),
        _ => r.next() >> 1,
    }
}
fn u64b(r: &mut Rng) -> u64 {
    match r.below(6) {
        0 => 0,
        1 => u64::MAX,
        2 => 1,
        _ => r.next(),
    }
}
fn u16b(r: &mut Rng) -> u16 {
    match r.below(6) {
        0 => 0,
        1 => u16::MAX,
        2 => 255,
        3 => 256,
        _ => r.next() as u16,
    }
}

/// interesting scalar values for aliases / host names: ASCII plus the edges of
/// is_control / is_whitespace and of the UTF-8 length classes
const SCALARS: &[u32] = &[
    0x21, 0x40, 0x7e, 0x61, 0x5a, 0x2f, 0x3a, 0xa1, 0xff, 0x7ff, 0x800, 0xfffd, 0xffff, 0x10000, 0x10ffff,
    0x200b, 0x180e, 0xfeff, 0x2060, 0x00ad, 0xd7ff, 0xe000, 0x4e2d, 0x1f600,
];
const BAD_ALIAS_SCALARS: &[u32] = &[
    0x00, 0x09, 0x0a, 0x0d, 0x1f, 0x20, 0x7f, 0x80, 0x85, 0x9f, 0xa0, 0x1680, 0x2000, 0x200a, 0x2028, 0x2029, 0x202f,
    0x205f, 0x3000, 0x0b, 0x0c, 0x1c,
];
fn push_scalar(out: &mut Vec<u8>, c: u32) {
    let ch = char::from_u32(c).unwrap();
    let mut b = [0u8; 4];
    out.extend_from_slice(ch.encode_utf8(&mut b).as_bytes());
}
/// a valid alias of (about) the given byte length
fn alias_valid_str(r: &mut Rng, target: usize) -> Vec<u8> {
    let mut out = vec![];
    while out.len() < target {
        let c = if r.chance(3, 4) { 0x21 + r.below(0x5e) as u32 } else { *r.pick(SCALARS) };
        let mut t = vec![];
        push_scalar(&mut t, c);
        if out.len() + t.len() > target {
            out.push(b'a');
        } else {
            out.extend(t);
        }
    }
    if out.is_empty() {
        out.push(b'x');
    }
    out
}
/// a valid user agent of exactly `target` bytes (target >= 3)
fn agent_valid_str(r: &mut Rng, target: usize) -> Vec<u8> {
    let target = target.max(3);
    let mut mid: Vec<u8> = vec![];
    let n = target - 2;
    match r.below(4) {
        0 => mid.extend(std::iter::repeat(b'a').take(n)),
        1 if n >= 3 => {
            // client:version
            let k = 1 + r.below(n as u64 - 2) as usize;
            mid.extend(std::iter::repeat(b'c').take(k));
            mid.push(b':');
            while mid.len() < n {
                mid.push(*r.pick(b"0123456789.:-x "));
            }
        }
        2 => {
            // several segments, some empty, non-ASCII allowed where there is no ':'
            while mid.len() < n {
                match r.below(5) {
                    0 => mid.push(b'/'),
                    1 if mid.len() + 2 <= n => push_scalar(&mut mid, 0xe9),
                    _ => mid.push(b'a' + r.below(26) as u8),
                }
            }
        }
        _ => {
            while mid.len() < n {
                mid.push(0x21 + r.below(0x5e) as u8);
            }
            // make it valid: no ':' (would need non-empty sides) and no accidental '/'-only problems
            for b in mid.iter_mut() {
                if *b == b':' {
                    *b = b'.';
                }
            }
        }
    }
    let mut out = vec![b'/'];
    out.extend(mid);
    out.push(b'/');
    out
}
fn dns_str(r: &mut Rng, target: usize) -> Vec<u8> {
    let mut out = vec![];
    while out.len() < target {
        if r.chance(1, 10) && out.len() + 4 <= target {
            push_scalar(&mut out, *r.pick(SCALARS));
        } else {
            out.push(*r.pick(b"abcdefghijklmnopqrstuvwxyz0123456789-."));
        }
    }
    out
}

#[derive(Clone, Copy, PartialEq, Debug)]
enum Profile {
    Typical,
    Limit,  // everything at (or just below) its limit, still constructible
    Over,   // beyond what encodes / decodes (padding, host name, filter size, timestamp)
}

fn gen_addr(r: &mut Rng, p: Profile) -> Addr {
    let host = match r.below(4) {
        0 => Host::Ip4(arr(r)),
        1 => {
            // random octets almost never land in a special range: half of the IPv6 hosts are
            // structured (IPv4-mapped ::ffff:a.b.c.d, IPv4-compatible ::a.b.c.d, loopback,
            // unspecified, link-local, unique-local, documentation, 6to4, NAT64)
            let mut o: [u8; 16] = arr(r);
            match r.below(12) {
                0 | 1 => { for b in o.iter_mut().take(10) { *b = 0; } o[10] = 0xff; o[11] = 0xff; }
                2 => { for b in o.iter_mut().take(12) { *b = 0; } }
                3 => { o = [0; 16]; o[15] = 1; }
                4 => { o = [0; 16]; }
                5 => { o[0] = 0xfe; o[1] = 0x80; }
                6 => { o[0] = 0xfd; }
                7 => { o[0] = 0x20; o[1] = 0x01; o[2] = 0x0d; o[3] = 0xb8; }
                8 => { o[0] = 0x20; o[1] = 0x02; }
                9 => { o[0] = 0x00; o[1] = 0x64; o[2] = 0xff; o[3] = 0x9b; for b in o.iter_mut().take(12).skip(4) { *b = 0; } }
                _ => {}
            }
            Host::Ip6(o)
        }
        2 => {
            let n = match p {
                Profile::Typical => r.below(40) as usize,
                Profile::Limit => *r.pick(&[0usize, 1, 254, 255, 255]),
                Profile::Over => *r.pick(&[255usize, 256, 257, 300, 1000]),
            };
            Host::Dns(dns_str(r, n))
        }
        _ => Host::Onion(onion_valid(r)),
    };
    Addr { host, port: u16b(r) }
}

fn count(r: &mut Rng, p: Profile, limit: usize, typical: u64) -> usize {
    match p {
        Profile::Typical => r.below(typical) as usize,
        _ => *r.pick(&[0usize, 1, limit - 1, limit, limit]),
    }
}

fn gen_items<T: Clone>(r: &mut Rng, n: usize, mut f: impl FnMut(&mut Rng) -> T) -> Vec<T> {
    // large vectors are mostly repetitive (compact case files), with a few distinct items
    if n > 64 && !r.chance(1, 12) {
        let base = f(r);
        let mut v = vec![base; n];
        for _ in 0..r.below(6) {
            let i = r.below(n as u64) as usize;
            v[i] = f(r);
        }
        v
    } else {
        (0..n).map(|_| f(r)).collect()
    }
}

fn gen_msg(r: &mut Rng, kind: u64, p: Profile) -> Msg {
    let over = p == Profile::Over;
    match kind % 7 {
        0 => {
            let size = match p {
                Profile::Over => *r.pick(&[8usize, 100, 1023, 1025, 4095, 16385, 65535, 65536, 70000]),
                _ => *r.pick(&FILTER_SIZES),
            };
            let mut f = vec![if r.bool() { 0 } else { 0xff }; size];
            for _ in 0..r.below(40) {
                let i = r.below(size as u64) as usize;
                f[i] = r.next() as u8;
            }
            Msg::Subscribe(f, ts(r, over), ts(r, over))
        }
        1 => {
            let n = count(r, p, INVENTORY_LIMIT, 12);
            Msg::Announcement(arr(r), arr(r), Ann::Inventory(gen_items(r, n, |r| arr::<20>(r)), ts(r, over)))
        }
        2 => {
            let n = count(r, p, REF_REMOTE_LIMIT, 10);
            Msg::Announcement(
                arr(r),
                arr(r),
                Ann::Refs(arr(r), gen_items(r, n, |r| (arr::<32>(r), arr::<20>(r))), ts(r, over)),
            )
        }
        3 => {
            let n = count(r, p, ADDRESS_LIMIT, 5);
            let alias_len = match p {
                Profile::Typical => 1 + r.below(16) as usize,
                _ => *r.pick(&[1usize, 31, 32, 32]),
            };
            let agent = match p {
                Profile::Typical if r.chance(1, 3) => DEFAULT_AGENT.to_vec(),
                Profile::Typical => { let k = 3 + r.below(30) as usize; agent_valid_str(r, k) }
                _ => { let k = *r.pick(&[3usize, 63, 64, 64]); agent_valid_str(r, k) }
            };
            Msg::Announcement(
                arr(r),
                arr(r),
                Ann::Node(NodeAnn {
                    version: r.next() as u8,
                    features: u64b(r),
                    timestamp: ts(r, over),
                    alias: alias_valid_str(r, alias_len),
                    addresses: (0..n).map(|_| gen_addr(r, p)).collect(),
                    nonce: u64b(r),
                    agent,
                }),
            )
        }
        4 => Msg::Info(arr(r), arr(r)),
        5 => {
            let z = match p {
                Profile::Typical => r.below(64) as u16,
                Profile::Limit => *r.pick(&[0, 1, Ping::MAX_PING_ZEROES - 1, Ping::MAX_PING_ZEROES]),
                Profile::Over => *r.pick(&[Ping::MAX_PING_ZEROES + 1, Ping::MAX_PING_ZEROES + 2, u16::MAX]),
            };
            Msg::Ping(u16b(r), z)
        }
        _ => {
            let z = match p {
                Profile::Typical => r.below(64) as u16,
                Profile::Limit => *r.pick(&[0, 1, Ping::MAX_PONG_ZEROES - 1, Ping::MAX_PONG_ZEROES]),
                Profile::Over => *r.pick(&[Ping::MAX_PONG_ZEROES + 1, Ping::MAX_PONG_ZEROES + 3, u16::MAX]),
            };
            Msg::Pong(z)
        }
    }
}

// ------------------------------------------------------------------ observing the implementation

enum EncObs {
    Bytes(Vec<u8>, usize),
    TooBig,
    StrPanic,
    OtherPanic(String),
    OtherErr(String),
}

fn observe_encode(m: &Message) -> EncObs {
    let mut buf = Vec::new();
    let r = catch(AssertUnwindSafe(|| m.encode(&mut buf)));
    match r {
        Ok(Ok(n)) => EncObs::Bytes(buf, n),
        Ok(Err(e)) if e.kind() == io::ErrorKind::InvalidData => EncObs::TooBig,
        Ok(Err(e)) => EncObs::OtherErr(e.to_string()),
        Err(p) if p.contains("self.len() <= u8::MAX") => EncObs::StrPanic,
        Err(p) => EncObs::OtherPanic(p),
    }
}

fn onion_windows(bs: &[u8]) -> Vec<[u8; 35]> {
    let mut seen = BTreeSet::new();
    if bs.len() >= 35 {
        for i in 0..=bs.len() - 35 {
            if bs[i + 34] == 3 {
                let mut a = [0u8; 35];
                a.copy_from_slice(&bs[i..i + 35]);
                if OnionAddrV3::from_raw_bytes(a).is_ok() {
                    seen.insert(a);
                }
            }
        }
    }
    seen.into_iter().collect()
}

/// Is `bs` a node announcement that ends right after the nonce, `re` being `bs` followed
/// by the length-prefixed default agent?  (independent of the model: plain byte comparison)
fn is_agent_exception(m: &Msg, bs: &[u8], re: &[u8]) -> bool {
    if let Msg::Announcement(_, _, Ann::Node(na)) = m {
        let mut want = bs.to_vec();
        want.push(DEFAULT_AGENT.len() as u8);
        want.extend_from_slice(DEFAULT_AGENT);
        na.agent == DEFAULT_AGENT && re == want.as_slice()
    } else {
        false
    }
}

fn hex(b: &[u8]) -> String {
    let mut s = String::new();
    let show = if b.len() > 600 { &b[..600] } else { b };
    for x in show {
        s.push_str(&format!("{:02x}", x));
    }
    if b.len() > 600 {
        s.push_str(&format!("..(+{} bytes)", b.len() - 600));
    }
    s
}

/// wire::deserialize on `bs`: correspondence case + the direct "unique encoding" oracle.
fn decode_case(run: &mut Run, id: &str, bs: &[u8], origin: &str) {
    run.eval();
    let res = catch(AssertUnwindSafe(|| wire::deserialize::<Message>(bs)));
    let onions = onion_windows(bs);
    let input = format!("CDec {} {}", cbytes(bs), clist(&onions, |o| cbytes(o)));
    match res {
        Err(p) => {
            run.fail(id, "decode-panic", format!("wire::deserialize panicked: {}", p), json!({"bytes": hex(bs), "origin": origin}));
            run.case(id, input, "ODec (DecErr XOther)".into());
        }
        Ok(Err(e)) => {
            run.tally(&format!("{}:err:{}", origin, err_kind(&e)));
            run.case(id, input, format!("ODec (DecErr {})", err_term(&e)));
        }
        Ok(Ok(msg)) => {
            let m = from_real(&msg);
            run.tally(&format!("{}:ok:{}", origin, m.kind()));
            run.case(id, input, format!("ODec (DecOk {})", cmsg(&m)));
            // --- direct oracle: whatever decodes re-encodes to the very same bytes
            let pingpong = matches!(m, Msg::Ping(..) | Msg::Pong(..));
            match catch(AssertUnwindSafe(|| wire::serialize(&msg))) {
                Err(p) => {
                    let class = if pingpong { "pingpong-oversize-not-reencodable" } else { "decoded-message-not-encodable" };
                    run.fail(id, class, format!("a {} message decoded from {} bytes cannot be serialized again: {}", m.kind(), bs.len(), p),
                        json!({"bytes": hex(bs), "origin": origin}));
                }
                Ok(re) => {
                    if re.len() > wire::Size::MAX as usize {
                        run.fail(id, "reencoding-exceeds-frame", format!("re-encoding has {} bytes", re.len()), json!({"bytes": hex(bs)}));
                    }
                    if re == bs {
                        if origin != "d" && origin != "q" && origin != "b" {
                            run.nontrivial(format!("{:x?}", &bs[..bs.len().min(64)]));
                        }
                    } else if is_agent_exception(&m, bs, &re) {
                        run.tally("exception:node-ann-without-agent");
                    } else {
                        let class = if pingpong {
                            "pingpong-nonzero-padding"
                        } else if m.kind() == "node" {
                            "node-ann-agent-garbage"
                        } else {
                            "reencoding-differs"
                        };
                        run.fail(id, class,
                            format!("{} message decodes from {} bytes but re-encodes to {} different bytes", m.kind(), bs.len(), re.len()),
                            json!({"bytes": hex(bs), "reencoded": hex(&re), "origin": origin}));
                    }
                    match wire::deserialize::<Message>(&re) {
                        Ok(m2) if m2 == msg => {}
                        other => run.fail(id, "reencoding-does-not-decode-back",
                            format!("decode(encode(m)) = {:?}", other.map(|x| format!("{:?}", x)).map_err(|e| e.to_string())),
                            json!({"bytes": hex(bs)})),
                    }
                }
            }
        }
    }
}

/// Message::encode on a constructed message: correspondence case + fits-frame / round-trip oracle.
/// Returns the encoding if there is one.
fn encode_case(run: &mut Run, id: &str, m: &Msg, real: &Message, constructible: bool, origin: &str) -> Option<Vec<u8>> {
    run.eval();
    let obs = observe_encode(real);
    let (term, out) = match obs {
        EncObs::Bytes(b, n) => {
            if n != b.len() {
                run.fail(id, "encode-length-mismatch", format!("encode returned {} but wrote {} bytes", n, b.len()), json!({"msg": format!("{:?}", m)}));
            }
            run.tally(&format!("{}:enc:ok:{}", origin, m.kind()));
            (format!("OEnc (EBytes {})", cbytes(&b)), Some(b))
        }
        EncObs::TooBig => {
            run.tally(&format!("{}:enc:too-big:{}", origin, m.kind()));
            ("OEnc ETooBig".to_string(), None)
        }
        EncObs::StrPanic => {
            run.tally(&format!("{}:enc:string-assert-panic:{}", origin, m.kind()));
            ("OEnc EStrTooLong".to_string(), None)
        }
        EncObs::OtherPanic(p) => {
            run.fail(id, "encode-panic", format!("Message::encode panicked: {}", p), json!({"msg": format!("{:?}", m)}));
            ("OEnc EStrTooLong".to_string(), None)
        }
        EncObs::OtherErr(e) => {
            run.fail(id, "encode-error", format!("Message::encode failed: {}", e), json!({"msg": format!("{:?}", m)}));
            ("OEnc ETooBig".to_string(), None)
        }
    };
    run.case(id, format!("CEnc {}", cmsg(m)), term);
    if constructible {
        match &out {
            None => run.fail(id, "constructible-message-exceeds-frame",
                format!("a {} message within all limits does not encode", m.kind()), json!({"msg": format!("{:?}", m).chars().take(2000).collect::<String>()})),
            Some(b) => {
                if b.len() > wire::Size::MAX as usize {
                    run.fail(id, "constructible-message-exceeds-frame", format!("{} bytes", b.len()), json!({"kind": m.kind()}));
                }
                match catch(AssertUnwindSafe(|| wire::deserialize::<Message>(b))) {
                    Ok(Ok(back)) if back == *real => {}
                    other => run.fail(id, "roundtrip-mismatch",
                        format!("deserialize(serialize(m)) is not m for a {} message: {:?}", m.kind(),
                            other.map(|r| r.map(|_| "a different message").map_err(|e| e.to_string()))),
                        json!({"bytes": hex(b)})),
                }
            }
        }
    }
    out
}

// ------------------------------------------------------------------ mutations

fn mutate(r: &mut Rng, m: &Msg, enc: &[u8]) -> (Vec<u8>, &'static str) {
    let mut b = enc.to_vec();
    let n = b.len();
    let pos = |r: &mut Rng| -> usize {
        // bias towards the structured head of the message
        if r.chance(2, 3) { r.below(n.min(140) as u64) as usize } else { r.below(n as u64) as usize }
    };
    let is_node = m.kind() == "node";
    let is_pp = matches!(m, Msg::Ping(..) | Msg::Pong(..));
    let agent_len = if let Msg::Announcement(_, _, Ann::Node(na)) = m { na.agent.len() + 1 } else { 0 };
    loop {
        match r.below(14) {
            0 => { let i = pos(r); b[i] ^= 1 << r.below(8); return (b, "bit-flip"); }
            1 => { let i = pos(r); b[i] = *r.pick(&[0u8, 1, 3, 0x7f, 0x80, 0xff]); return (b, "byte-set"); }
            2 => { let k = if r.bool() { n - 1 - r.below(n.min(12) as u64 - 1) as usize } else { r.below(n as u64) as usize }; b.truncate(k); return (b, "truncate"); }
            3 => { let k = 1 + r.below(4) as usize; b.extend(r.bytes(k)); return (b, "append"); }
            4 if n >= 4 => { // tweak a big-endian u16 somewhere (length / count / tag fields)
                let i = pos(r).min(n - 2);
                let v = u16::from_be_bytes([b[i], b[i + 1]]);
                let v2 = match r.below(4) { 0 => v.wrapping_add(1), 1 => v.wrapping_sub(1), 2 => 0, _ => 0xffff };
                b[i..i + 2].copy_from_slice(&v2.to_be_bytes());
                return (b, "u16-tweak");
            }
            5 => { b[1] = *r.pick(&[0u8, 1, 2, 3, 4, 6, 8, 10, 12, 14, 16]); return (b, "type-tag"); }
            6 if is_pp => { // non-zero padding
                let hdr = if matches!(m, Msg::Ping(..)) { 6 } else { 4 };
                if n > hdr { let i = hdr + r.below((n - hdr) as u64) as usize; b[i] = 1 + r.below(255) as u8; return (b, "padding-nonzero"); }
            }
            7 if is_pp => { // declared padding length vs. actual
                let hdr = if matches!(m, Msg::Ping(..)) { 4 } else { 2 };
                let v = u16::from_be_bytes([b[hdr], b[hdr + 1]]);
                let v2 = if r.bool() { v.wrapping_add(1) } else { v.saturating_sub(1) };
                b[hdr..hdr + 2].copy_from_slice(&v2.to_be_bytes());
                return (b, "padding-length");
            }
            8 if is_node => { b.truncate(n - agent_len); return (b, "agent-stripped"); }
            9 if is_node => { // agent cut short / garbage tail after the nonce
                b.truncate(n - agent_len);
                let l = 1 + r.below(255) as usize;
                b.push(l as u8);
                let k = r.below(l as u64) as usize;
                b.extend(r.bytes(k));
                return (b, "agent-truncated");
            }
            10 if is_node => { // replace the agent by another (often invalid) string
                b.truncate(n - agent_len);
                let s: Vec<u8> = match r.below(6) {
                    0 => b"/".to_vec(), 1 => b"//".to_vec(), 2 => b"/a:/".to_vec(), 3 => b"/:1/".to_vec(),
                    4 => { let mut v = agent_valid_str(r, 65); v.truncate(65); v }
                    _ => { let k = 3 + r.below(61) as usize; agent_valid_str(r, k) }
                };
                b.push(s.len() as u8);
                b.extend(s);
                return (b, "agent-replaced");
            }
            11 if is_node => { // alias surgery: the alias starts at offset 2+32+64+1+8+8
                let off = 115;
                if n > off + 2 {
                    let l = b[off] as usize;
                    if l > 0 && off + l < n {
                        let i = off + 1 + r.below(l as u64) as usize;
                        b[i] = *r.pick(&[0x20u8, 0x09, 0x7f, 0x00, 0xc2, 0xe2, 0xff, 0x80]);
                        return (b, "alias-byte");
                    }
                }
            }
            12 => { let i = pos(r); b.remove(i); return (b, "byte-removed"); }
            13 => { let i = pos(r); b.insert(i, r.next() as u8); return (b, "byte-inserted"); }
            _ => {}
        }
    }
}

// ------------------------------------------------------------------ grammar-directed bytes

struct G<'a> {
    r: &'a mut Rng,
    out: Vec<u8>,
    fault: u64, // per-field fault probability in 1/1000
    faults: Vec<&'static str>,
}
impl<'a> G<'a> {
    fn hit(&mut self, what: &'static str) -> bool {
        if self.r.below(1000) < self.fault {
            self.faults.push(what);
            true
        } else {
            false
        }
    }
    fn u16(&mut self, v: u16) { self.out.extend_from_slice(&v.to_be_bytes()); }
    fn u64(&mut self, v: u64) { self.out.extend_from_slice(&v.to_be_bytes()); }
    fn raw(&mut self, k: usize) { let b = self.r.bytes(k); self.out.extend(b); }
    fn oid(&mut self) {
        if self.hit("oid-len") { let v = *self.r.pick(&[0u16, 19, 21, 32, 0xffff]); self.u16(v); } else { self.u16(20); }
        self.raw(20);
    }
    fn timestamp(&mut self) {
        let over = self.hit("timestamp-over");
        let v = if over { (1u64 << 63) + self.r.below(3) * ((1 << 62) - 1) } else { ts(self.r, false) };
        self.u64(v);
    }
    fn string(&mut self, s: Vec<u8>) {
        let mut s = s;
        if self.hit("utf8-invalid") && !s.is_empty() {
            let i = self.r.below(s.len() as u64) as usize;
            s[i] = *self.r.pick(&[0x80u8, 0xc0, 0xc1, 0xe0, 0xed, 0xf5, 0xff, 0xf4]);
        }
        let l = if self.hit("string-len") { (s.len() as u8).wrapping_add(if self.r.bool() { 1 } else { 255 }) } else { s.len() as u8 };
        self.out.push(l);
        self.out.extend(s);
    }
    fn address(&mut self) {
        let t = if self.hit("address-type") { *self.r.pick(&[0u8, 5, 6, 255]) } else { 1 + self.r.below(4) as u8 };
        self.out.push(t);
        match t {
            1 => self.raw(4),
            2 => self.raw(16),
            3 => { let n = self.r.below(30) as usize; let s = dns_str(self.r, n); self.string(s); }
            4 => {
                let mut o = onion_valid(self.r);
                if self.hit("onion-invalid") { let i = self.r.below(35) as usize; o[i] ^= 1 << self.r.below(8); }
                self.out.extend_from_slice(&o);
            }
            _ => self.raw(6),
        }
        let p = u16b(self.r);
        self.u16(p);
    }
    fn count(&mut self, limit: usize, what: &'static str) -> (u16, usize) {
        // (declared, actually present)
        let n = if self.r.chance(1, 40) { *self.r.pick(&[limit, limit - 1]) } else { self.r.below(6) as usize };
        if self.hit(what) {
            match self.r.below(4) {
                0 => ((limit + 1) as u16, limit + 1),       // over the limit, all items present
                1 => ((n + 1) as u16, n),                   // one item missing
                2 => (n.saturating_sub(1) as u16, n),       // one item too many
                _ => (0xffff, n),
            }
        } else {
            (n as u16, n)
        }
    }
}

fn grammar(r: &mut Rng, fault: u64) -> (Vec<u8>, Vec<&'static str>) {
    let mut g = G { r, out: vec![], fault, faults: vec![] };
    let ty = if g.hit("message-type") { *g.r.pick(&[0u16, 1, 3, 5, 7, 9, 16, 256, 0xffff]) } else { *g.r.pick(&[2u16, 4, 6, 8, 10, 12, 14]) };
    g.u16(ty);
    match ty {
        8 => {
            let size = if g.hit("filter-size") { *g.r.pick(&[0usize, 1, 1023, 1025, 2048, 4095, 8192, 16383, 16385]) } else { *g.r.pick(&FILTER_SIZES) };
            g.u16(size as u16);
            let fill = g.r.next() as u8;
            let mut f = vec![fill; size];
            for _ in 0..g.r.below(8) { if size > 0 { let i = g.r.below(size as u64) as usize; f[i] = g.r.next() as u8; } }
            g.out.extend(f);
            g.timestamp();
            g.timestamp();
        }
        2 | 4 | 6 => {
            g.raw(32);
            g.raw(64);
            match ty {
                4 => {
                    let (d, n) = g.count(INVENTORY_LIMIT, "inventory-count");
                    g.u16(d);
                    if n > 64 { let one = g.r.bytes(20); for _ in 0..n { g.u16(20); g.out.extend(&one); } } else { for _ in 0..n { g.oid(); } }
                    g.timestamp();
                }
                6 => {
                    g.oid();
                    let (d, n) = g.count(REF_REMOTE_LIMIT, "refs-count");
                    g.u16(d);
                    if n > 64 { let one = g.r.bytes(52); for _ in 0..n { g.out.extend(&one[..32]); g.u16(20); g.out.extend(&one[32..]); } } else { for _ in 0..n { g.raw(32); g.oid(); } }
                    g.timestamp();
                }
                _ => {
                    let v = g.r.next() as u8;
                    g.out.push(v);
                    let f = u64b(g.r);
                    g.u64(f);
                    g.timestamp();
                    let alias = if g.hit("alias-invalid") {
                        match g.r.below(4) {
                            0 => vec![],
                            1 => { let k = 33 + g.r.below(4) as usize; alias_valid_str(g.r, k) }
                            _ => { let mut a = alias_valid_str(g.r, 3); let c = *g.r.pick(BAD_ALIAS_SCALARS); push_scalar(&mut a, c); a }
                        }
                    } else {
                        let n = 1 + g.r.below(32) as usize;
                        alias_valid_str(g.r, n)
                    };
                    g.string(alias);
                    let (d, n) = g.count(ADDRESS_LIMIT, "address-count");
                    g.u16(d);
                    for _ in 0..n { g.address(); }
                    let nonce = u64b(g.r);
                    g.u64(nonce);
                    if g.hit("agent-absent") {
                        // nothing
                    } else {
                        let agent = if g.hit("agent-invalid") {
                            match g.r.below(6) {
                                0 => b"/".to_vec(), 1 => b"//".to_vec(), 2 => b"radicle/".to_vec(), 3 => b"/radicle".to_vec(),
                                4 => b"/a b:1/".to_vec(), _ => { let mut v = agent_valid_str(g.r, 66); v.truncate(66); v }
                            }
                        } else if g.r.chance(1, 3) { DEFAULT_AGENT.to_vec() } else { let n = 3 + g.r.below(62) as usize; agent_valid_str(g.r, n) };
                        g.string(agent);
                    }
                }
            }
        }
        14 => {
            let it = if g.hit("info-type") { *g.r.pick(&[0u16, 2, 256, 0xffff]) } else { 1 };
            g.u16(it);
            g.oid();
            g.oid();
        }
        10 | 12 => {
            if ty == 10 { let p = u16b(g.r); g.u16(p); }
            let max = if ty == 10 { Ping::MAX_PING_ZEROES } else { Ping::MAX_PONG_ZEROES };
            let z: u16 = if g.hit("padding-over") { *g.r.pick(&[max + 1, max + 2, u16::MAX]) } else if g.r.chance(1, 10) { *g.r.pick(&[max, max - 1]) } else { g.r.below(40) as u16 };
            g.u16(z);
            let mut pad = vec![0u8; z as usize];
            if g.hit("padding-nonzero") && z > 0 { let i = g.r.below(z as u64) as usize; pad[i] = 1 + g.r.below(255) as u8; }
            if g.hit("padding-short") && z > 0 { pad.pop(); }
            g.out.extend(pad);
        }
        _ => { let k = g.r.below(40) as usize; g.raw(k); }
    }
    if g.hit("trailing") { let k = 1 + g.r.below(3) as usize; g.raw(k); }
    if g.hit("cut") && !g.out.is_empty() { let k = g.r.below(g.out.len() as u64) as usize; g.out.truncate(k); }
    (g.out, g.faults)
}

// ------------------------------------------------------------------ strings

fn string_case(run: &mut Run, id: &str, r: &mut Rng) {
    run.eval();
    let kind = r.below(3);
    let mut s: Vec<u8> = vec![];
    match kind {
        0 => {
            // UTF-8 well-formedness: valid scalars + ill-formed sequences at the class borders
            let n = r.below(6);
            for _ in 0..n {
                if r.chance(2, 3) {
                    let c = if r.bool() { *r.pick(SCALARS) } else { *r.pick(BAD_ALIAS_SCALARS) };
                    push_scalar(&mut s, c);
                } else {
                    let seqs: &[&[u8]] = &[
                        &[0x80], &[0xbf], &[0xc0, 0x80], &[0xc1, 0xbf], &[0xc2], &[0xc2, 0x7f], &[0xc2, 0xc0], &[0xdf, 0xbf],
                        &[0xe0, 0x9f, 0xbf], &[0xe0, 0xa0, 0x80], &[0xe0, 0xa0], &[0xed, 0x9f, 0xbf], &[0xed, 0xa0, 0x80],
                        &[0xed, 0xbf, 0xbf], &[0xee, 0x80, 0x80], &[0xef, 0xbf, 0xbf], &[0xf0, 0x8f, 0xbf, 0xbf],
                        &[0xf0, 0x90, 0x80, 0x80], &[0xf0, 0x90, 0x80], &[0xf4, 0x8f, 0xbf, 0xbf], &[0xf4, 0x90, 0x80, 0x80],
                        &[0xf5, 0x80, 0x80, 0x80], &[0xf8, 0x88, 0x80, 0x80, 0x80], &[0xff], &[0xfe], &[0xe1, 0x80, 0xc0],
                        &[0xf1, 0x80, 0x80, 0x7f], &[0xe2, 0x82],
                    ];
                    s.extend_from_slice(*r.pick(seqs));
                }
            }
        }
        1 => {
            // aliases: length edges and forbidden characters
            let n = *r.pick(&[0usize, 1, 2, 5, 30, 31, 32, 33, 34, 64]);
            s = alias_valid_str(r, n);
            if n == 0 { s.clear(); }
            if r.chance(1, 2) && !s.is_empty() {
                let c = if r.chance(2, 3) { *r.pick(BAD_ALIAS_SCALARS) } else { *r.pick(SCALARS) };
                let mut t = vec![];
                push_scalar(&mut t, c);
                let i = r.below(s.len() as u64 + 1) as usize;
                // insert at a char boundary
                let st = String::from_utf8(s.clone()).unwrap();
                let mut i2 = i.min(st.len());
                while !st.is_char_boundary(i2) { i2 -= 1; }
                let tl = t.len();
                s.splice(i2..i2, t);
                if r.bool() && s.len() > tl { // keep the byte length
                    let st = String::from_utf8(s.clone()).unwrap();
                    let mut e = st.len() - 1;
                    while !st.is_char_boundary(e) { e -= 1; }
                    if e >= i2 + tl { s.truncate(e); }
                }
            }
        }
        _ => {
            // user agents: built from fragments so that every branch of from_str is met
            let frags: &[&[u8]] = &[b"/", b"/", b":", b"a", b"radicle", b"1.0", b" ", b"\xc3\xa9", b"heartwood:1.2.3", b"x:y", b":y", b"x:", b"::", b"a:b:c", b"\t", b"~", b"!"];
            let n = r.below(7);
            if r.chance(3, 4) { s.push(b'/'); }
            for _ in 0..n { s.extend_from_slice(*r.pick(frags)); }
            if r.chance(3, 4) { s.push(b'/'); }
            if r.chance(1, 8) { let k = *r.pick(&[62usize, 63, 64, 65, 66]); let mut v = agent_valid_str(r, k); v.truncate(k); s = v; if r.chance(1, 3) { s.push(b'/'); } }
        }
    }
    let utf8 = std::str::from_utf8(&s);
    let (k, b) = match (kind, utf8) {
        (0, u) => (0, u.is_ok()),
        (1, Ok(st)) => {
            let ok = Alias::from_str(st).is_ok();
            if ok && st.len() > radicle::node::MAX_ALIAS_LENGTH {
                run.fail(id, "alias-longer-than-limit", format!("Alias::from_str accepts {} bytes", st.len()), json!({"alias": st}));
            }
            (1, ok)
        }
        (_, Ok(st)) => {
            let ok = UserAgent::from_str(st).is_ok();
            if ok && st.len() > 255 {
                run.fail(id, "agent-longer-than-string-limit", format!("UserAgent::from_str accepts {} bytes", st.len()), json!({"agent": st}));
            }
            (2, ok)
        }
        (_, Err(_)) => (0, false),
    };
    run.tally(&format!("s:{}:{}", ["utf8", "alias", "agent"][k as usize], if b { "valid" } else { "invalid" }));
    run.case(id, format!("CStr {} {}", k, cbytes(&s)), format!("OStr {}", b.coq()));
}

// ------------------------------------------------------------------ the Refs codec

const REF_NAMES: &[&[u8]] = &[
    b"refs/heads/a", b"refs/heads/b", b"refs/heads/master", b"refs/tags/v1", b"refs/rad/sigrefs", b"a", b"HEAD",
    b"refs/heads/\xc3\xa9", b"refs/heads/a.lock", b"refs//x", b"refs/heads/../x", b"", b"/a", b"a/", b"refs/heads/a b",
    b"refs/heads/a~1", b"refs/heads/@{x}", b".hidden", b"refs/heads/x.", b"refs/heads/\x7f",
];

/// grammar-directed bytes for wire::deserialize::<Refs>: a few entries (names from a pool of
/// valid and invalid ref names, in random order, duplicates likely) with occasional faults
fn refs_bytes(r: &mut Rng) -> Vec<u8> {
    let n = r.below(5) as usize;
    let declared = match r.below(12) { 0 => n + 1, 1 => n.saturating_sub(1), _ => n };
    let mut out = (declared as u16).to_be_bytes().to_vec();
    let pool = if r.chance(2, 3) { &REF_NAMES[..5] } else { REF_NAMES };
    for _ in 0..n {
        let mut name = r.pick(pool).to_vec();
        if r.chance(1, 25) && !name.is_empty() { let i = r.below(name.len() as u64) as usize; name[i] = *r.pick(&[0xffu8, 0xc0, 0x00, 0x20]); }
        let l = if r.chance(1, 30) { name.len() as u8 + 1 } else { name.len() as u8 };
        out.push(l);
        out.extend(name);
        out.extend_from_slice(&(if r.chance(1, 25) { *r.pick(&[0u16, 19, 21]) } else { 20u16 }).to_be_bytes());
        let fill = r.below(4) as u8;
        out.extend_from_slice(&[fill; 20]);
    }
    if r.chance(1, 20) { out.push(0); }
    if r.chance(1, 20) && !out.is_empty() { let k = r.below(out.len() as u64) as usize; out.truncate(k); }
    out
}

/// names that the decoder may query: a lenient walk over the entries
fn refs_candidate_names(bs: &[u8]) -> Vec<Vec<u8>> {
    let mut names = BTreeSet::new();
    if bs.len() >= 2 {
        let count = u16::from_be_bytes([bs[0], bs[1]]) as usize;
        let mut i = 2;
        for _ in 0..count {
            if i >= bs.len() { break; }
            let l = bs[i] as usize;
            if i + 1 + l > bs.len() { break; }
            let name = bs[i + 1..i + 1 + l].to_vec();
            if let Ok(st) = String::from_utf8(name.clone()) {
                if git::RefString::try_from(st).is_ok() {
                    names.insert(name);
                }
            }
            i += 1 + l + 22;
        }
    }
    names.into_iter().collect()
}

fn refs_case(run: &mut Run, id: &str, bs: &[u8]) {
    use radicle::storage::refs::Refs;
    run.eval();
    let names = refs_candidate_names(bs);
    let input = format!("CRefs {} {}", cbytes(bs), clist(&names, |n| cbytes(n)));
    match catch(AssertUnwindSafe(|| wire::deserialize::<Refs>(bs))) {
        Err(p) => {
            run.fail(id, "refs-decode-panic", format!("wire::deserialize::<Refs> panicked: {}", p), json!({"bytes": hex(bs)}));
            run.case(id, input, "ORefs (RefsErr XOther)".into());
        }
        Ok(Err(e)) => {
            let t = match &e { wire::Error::InvalidRefName(_) => "XInvalidRefName".to_string(), e => err_term(e) };
            run.tally(&format!("r:err:{}", if matches!(e, wire::Error::InvalidRefName(_)) { "invalid-ref-name" } else { err_kind(&e) }));
            run.case(id, input, format!("ORefs (RefsErr {})", t));
        }
        Ok(Ok(refs)) => {
            let entries: Vec<(Vec<u8>, [u8; 20])> = refs.iter().map(|(k, v)| (k.as_str().as_bytes().to_vec(), oid_bytes(v))).collect();
            let term = clist(&entries, |(k, v)| format!("({}, {})", cbytes(k), cbytes(v)));
            run.case(id, input, format!("ORefs (RefsOk {})", term));
            let same = catch(AssertUnwindSafe(|| wire::serialize(&refs))).map(|re| re == bs).unwrap_or(false);
            run.tally(if same { "r:ok:reencodes-identically" } else { "r:ok:reencodes-DIFFERENTLY (known: the Refs codec is not canonical; not a message)" });
        }
    }
}

// ------------------------------------------------------------------ constants

struct Consts {
    scalars: Vec<(&'static str, u128)>,
    filter_sizes: Vec<u64>,
    default_agent: Vec<u8>,
}

fn consts() -> Consts {
    // UserAgent::from_str has a literal length limit: find it by probing
    let mut max_agent = 0usize;
    for n in 3..=300usize {
        let s = format!("/{}/", "a".repeat(n - 2));
        if UserAgent::from_str(&s).is_ok() {
            max_agent = n;
        }
    }
    let onion_len = onion_valid(&mut Rng::new(1)).len();
    Consts {
        scalars: vec![
            ("SIZE_MAX", wire::Size::MAX as u128),
            ("MESSAGE_MAX_SIZE", Message::MAX_SIZE as u128),
            ("INVENTORY_LIMIT", INVENTORY_LIMIT as u128),
            ("REF_REMOTE_LIMIT", REF_REMOTE_LIMIT as u128),
            ("ADDRESS_LIMIT", ADDRESS_LIMIT as u128),
            ("MAX_ALIAS_LENGTH", radicle::node::MAX_ALIAS_LENGTH as u128),
            ("MAX_AGENT_LENGTH", max_agent as u128),
            ("MAX_PING_ZEROES", Ping::MAX_PING_ZEROES as u128),
            ("MAX_PONG_ZEROES", Ping::MAX_PONG_ZEROES as u128),
            ("TIMESTAMP_MAX", *Timestamp::MAX as u128),
            ("OID_LEN", std::mem::size_of::<git::raw::Oid>() as u128),
            ("PUBKEY_LEN", std::mem::size_of::<PublicKey>() as u128),
            ("SIGNATURE_LEN", std::mem::size_of::<Signature>() as u128),
            ("ONION_RAW_LEN", onion_len as u128),
        ],
        filter_sizes: FILTER_SIZES.iter().map(|x| *x as u64).collect(),
        default_agent: UserAgent::default().as_str().as_bytes().to_vec(),
    }
}

fn consts_file(c: &Consts) -> String {
    let mut s = String::new();
    s.push_str(
        "(* ConstsWire.v — GENERATED by harness/crates/c15 (hw-c15) from the compiled crates on\n   \
         every run; do not edit by hand.  The wire-codec model (model/WireMsg.v) and the\n   \
         theorem C15_fits_frame are stated against these values, so a changed limit shows up\n   \
         as a CConsts correspondence mismatch in the run that first sees it and as a\n   \
         re-checked (possibly broken) proof obligation from then on. *)\n\
         From Coq Require Import NArith List.\nImport ListNotations.\nLocal Open Scope N_scope.\n\n",
    );
    for (k, v) in &c.scalars {
        s.push_str(&format!("Definition {} : N := {}.\n", k, v));
    }
    s.push_str(&format!("Definition FILTER_SIZES : list N := {}.\n", c.filter_sizes.coq()));
    s.push_str(&format!("Definition DEFAULT_AGENT : list N := {}.\n", c.default_agent.coq()));
    s
}

// ------------------------------------------------------------------ main

fn main() {
    quiet_panics();
    let mut run = Run::new(
        "C15",
        "model.WireMsg",
        "streams e/d: structured messages of all 7 types in 3 profiles (typical, every limit, beyond the limits) encoded and decoded back; \
         q: the crate's qcheck Arbitrary messages; m: 14 kinds of mutations of valid encodings; g: grammar-directed bytes with per-field faults; \
         s: string checks. Non-trivial = a byte string that is NOT a plain encoder output (mutated / grammar-built) and still decodes, so that \
         the re-encoding comparison is a real test; distinct by its first 64 bytes.",
    );
    run.preamble = "From HW Require Import model.WireVarint.".into();
    // the Coq side is dominated by elaborating the byte-list literals: keep shards small so that
    // a loaded machine does not push a shard over bin/check's per-shard timeout
    run.shard_size(200);
    let seed = run.args.seed;

    // --- constants: regenerate coq/gen/ConstsWire.v and compare with what the model was built with
    let c = consts();
    let text = consts_file(&c);
    let path = std::path::Path::new(env!("CARGO_MANIFEST_DIR")).join("../../../coq/gen/ConstsWire.v");
    let old = std::fs::read_to_string(&path).unwrap_or_default();
    if old != text {
        match std::fs::write(&path, &text) {
            Ok(()) => run.note(format!("coq/gen/ConstsWire.v regenerated with changed contents ({})", path.display())),
            Err(e) => run.note(format!("could not write {}: {}", path.display(), e)),
        }
    }
    if run.args.wants("c:0") {
        run.eval();
        let sc: Vec<String> = c.scalars.iter().map(|(_, v)| v.to_string()).collect();
        run.case("c:0", "CConsts".into(), format!("OConsts [{}] {} {}", sc.join("; "), c.filter_sizes.coq(), cbytes(&c.default_agent)));
        run.sample(json!({"consts": c.scalars.iter().map(|(k, v)| format!("{}={}", k, v)).collect::<Vec<_>>()}));
        // fixed regression inputs (the three defects fixed in /repo), decoded through the same path
    }
    let fixed: Vec<(&str, Vec<u8>)> = vec![
        ("k:0", vec![0, 12, 0, 3, 0, 7, 0]),                                   // pong, non-zero padding
        ("k:1", { let mut v = vec![0u8, 12, 0xff, 0xff]; v.extend(vec![0u8; 65535]); v }), // pong over the frame limit
        ("k:2", { let mut v = vec![0u8, 10, 0, 0, 0xff, 0xfa]; v.extend(vec![0u8; 65530]); v }), // ping over the limit
    ];
    for (id, bs) in &fixed {
        if run.args.wants(id) {
            decode_case(&mut run, id, bs, "k");
        }
    }

    // --- r: the Refs codec of wire.rs (BTreeMap<RefString, Oid>; not part of any Message).
    // Correspondence only: the codec is known not to be canonical (theorem
    // C15_refs_codec_not_canonical, whose two witnesses are the first two fixed cases).
    {
        let fixed: Vec<Vec<(&[u8], u8)>> = vec![
            vec![(b"refs/heads/b", 2), (b"refs/heads/a", 1)],
            vec![(b"refs/heads/a", 1), (b"refs/heads/a", 2)],
            vec![(b"refs/heads/a", 1), (b"refs/heads/b", 2)],
        ];
        for (k, es) in fixed.iter().enumerate() {
            let id = format!("r:fixed:{}", k);
            if run.args.wants(&id) {
                let mut bs = vec![0u8, es.len() as u8];
                for (name, fill) in es {
                    bs.push(name.len() as u8);
                    bs.extend_from_slice(name);
                    bs.extend_from_slice(&[0, 20]);
                    bs.extend_from_slice(&[*fill; 20]);
                }
                refs_case(&mut run, &id, &bs);
            }
        }
        let n = run.args.count(150, 1000);
        for i in 0..n {
            let id = format!("r:{}", i);
            if !run.args.wants(&id) {
                continue;
            }
            let mut r = Rng::for_case(seed, 6, i);
            let bs = refs_bytes(&mut r);
            refs_case(&mut run, &id, &bs);
        }
    }

    // --- b: one message of every type exactly at every limit (every run, both directions)
    {
        let mut r = Rng::for_case(seed, 5, 0);
        let lim_node = |r: &mut Rng, dns: usize, alias: usize, agent: usize| {
            let addresses = (0..ADDRESS_LIMIT).map(|_| Addr { host: Host::Dns(dns_str(r, dns)), port: 65535 }).collect();
            Msg::Announcement(arr(r), arr(r), Ann::Node(NodeAnn {
                version: 255, features: u64::MAX, timestamp: *Timestamp::MAX, alias: alias_valid_str(r, alias),
                addresses, nonce: u64::MAX, agent: agent_valid_str(r, agent),
            }))
        };
        let max_agent = c.scalars.iter().find(|(k, _)| *k == "MAX_AGENT_LENGTH").unwrap().1 as usize;
        let mut boundary: Vec<Msg> = vec![
            Msg::Announcement(arr(&mut r), arr(&mut r), Ann::Inventory(vec![arr::<20>(&mut r); INVENTORY_LIMIT], *Timestamp::MAX)),
            Msg::Announcement(arr(&mut r), arr(&mut r), Ann::Refs(arr(&mut r), vec![(arr::<32>(&mut r), arr::<20>(&mut r)); REF_REMOTE_LIMIT], *Timestamp::MAX)),
            lim_node(&mut r, 255, radicle::node::MAX_ALIAS_LENGTH, max_agent),
            Msg::Ping(u16::MAX, Ping::MAX_PING_ZEROES),
            Msg::Pong(Ping::MAX_PONG_ZEROES),
            Msg::Info([0xff; 20], [0; 20]),
        ];
        for size in FILTER_SIZES {
            boundary.push(Msg::Subscribe(vec![0xff; size], 0, *Timestamp::MAX));
        }
        for (k, m) in boundary.iter().enumerate() {
            let (ide, idd) = (format!("b:{}", k), format!("b:{}d", k));
            if !run.args.wants(&ide) && !run.args.wants(&idd) {
                continue;
            }
            let Some(real) = to_real(m) else {
                run.fail(&ide, "boundary-message-not-constructible", format!("the {} message at its limits cannot be constructed", m.kind()), json!({}));
                continue;
            };
            let enc = if run.args.wants(&ide) { encode_case(&mut run, &ide, m, &real, true, "b") } else { observe_encode(&real).bytes() };
            if let Some(b) = enc {
                run.tally(&format!("b:len:{}:{}", m.kind(), b.len()));
                if run.args.wants(&idd) {
                    decode_case(&mut run, &idd, &b, "b");
                }
            }
        }
    }

    // --- e/d: structured messages
    let n = run.args.count(300, 1800);
    for i in 0..n {
        let (ide, idd) = (format!("e:{}", i), format!("d:{}", i));
        if !run.args.wants(&ide) && !run.args.wants(&idd) {
            continue;
        }
        let mut r = Rng::for_case(seed, 0, i);
        let profile = match i % 10 { 0..=5 => Profile::Typical, 6 | 7 | 8 => Profile::Limit, _ => Profile::Over };
        // large messages are expensive on the Coq side: thin them out
        let kind = i / 10 + i % 7;
        let mut m = gen_msg(&mut r, kind, profile);
        if profile != Profile::Typical && i % 120 >= 10 {
            // most limit/over cases use the small-payload types; the big ones (inventory, refs,
            // padding, large filters) come every fourth block
            if matches!(m.kind(), "inventory" | "refs" | "ping" | "pong" | "subscribe") {
                m = gen_msg(&mut r, 3 + (i % 2), profile);
            }
        }
        let Some(real) = to_real(&m) else {
            run.tally("e:not-constructible");
            continue;
        };
        let enc = if run.args.wants(&ide) { encode_case(&mut run, &ide, &m, &real, profile != Profile::Over, "e") } else { observe_encode(&real).bytes() };
        if i < 4 {
            run.sample(json!({"case_id": ide, "kind": m.kind(), "profile": format!("{:?}", profile), "encoded_len": enc.as_ref().map(|b| b.len())}));
        }
        if let Some(b) = enc {
            if run.args.wants(&idd) {
                decode_case(&mut run, &idd, &b, "d");
            }
        }
    }

    // --- q: the crate's own Arbitrary messages
    let n = run.args.count(100, 300);
    for i in 0..n {
        let id = format!("q:{}", i);
        if !run.args.wants(&id) {
            continue;
        }
        let mut r = Rng::for_case(seed, 4, i);
        let mut g = qcheck::Gen::from_seed(r.next());
        let real = <Message as qcheck::Arbitrary>::arbitrary(&mut g);
        let m = from_real(&real);
        if let Some(b) = encode_case(&mut run, &id, &m, &real, true, "q") {
            if i % 3 == 0 {
                decode_case(&mut run, &format!("{}d", id), &b, "q");
            }
        }
    }

    // --- m: mutations
    let n = run.args.count(500, 3000);
    for i in 0..n {
        let id = format!("m:{}", i);
        if !run.args.wants(&id) {
            continue;
        }
        let mut r = Rng::for_case(seed, 1, i);
        let profile = if i % 100 == 0 { Profile::Limit } else { Profile::Typical };
        let m = gen_msg(&mut r, i, profile);
        let Some(real) = to_real(&m) else { continue };
        let Some(enc) = observe_encode(&real).bytes() else { continue };
        let (bs, what) = mutate(&mut r, &m, &enc);
        run.tally(&format!("m:mut:{}", what));
        decode_case(&mut run, &id, &bs, "m");
    }

    // --- g: grammar-directed
    let n = run.args.count(450, 3000);
    for i in 0..n {
        let id = format!("g:{}", i);
        if !run.args.wants(&id) {
            continue;
        }
        let mut r = Rng::for_case(seed, 2, i);
        let fault = [0u64, 30, 80, 200][(i % 4) as usize];
        let (bs, faults) = grammar(&mut r, fault);
        for f in &faults {
            run.tally(&format!("g:fault:{}", f));
        }
        if faults.is_empty() {
            run.tally("g:no-fault");
        }
        decode_case(&mut run, &id, &bs, "g");
    }

    // --- s: strings
    let n = run.args.count(400, 3000);
    for i in 0..n {
        let id = format!("s:{}", i);
        if !run.args.wants(&id) {
            continue;
        }
        let mut r = Rng::for_case(seed, 3, i);
        string_case(&mut run, &id, &mut r);
    }

    run.finish();
}

impl EncObs {
    fn bytes(self) -> Option<Vec<u8>> {
        match self {
            EncObs::Bytes(b, _) => Some(b),
            _ => None,
        }
    }
}
