//! C23: DAG traversals respect dependencies, pruning removes exactly
//! descendants, merge is the union — correspondence with coq/model/Dag.v and
//! the direct oracle on the real `radicle_dag::Dag<u8, u8>`.
//!
//! Streams
//!   0: random *valid* DAGs (nodes added once, edges between existing nodes,
//!      acyclic by a hidden topological numbering), 0..=40 nodes; every query
//!      kind on every graph; the direct oracle checks the property statements.
//!   1: arbitrary API call sequences over a small key space (cycles, self
//!      edges, dangling edges, re-added nodes, removals, unsorted fold roots):
//!      correspondence only (the property speaks about acyclic graphs).
//!   2: exhaustive: every edge set over a fixed topological numbering of n
//!      nodes, under key relabelings; oracle on all break subsets / orderings.
use hw_common::*;
use radicle_dag::Dag;
use std::collections::{BTreeMap, BTreeSet};
use std::ops::ControlFlow;
use std::panic::AssertUnwindSafe;

type G = Dag<u8, u8>;

#[derive(Clone, Debug)]
enum Op {
    Node(u8, u8),
    Dep(u8, u8),
    Remove(u8),
}
impl Coq for Op {
    fn coq(&self) -> String {
        match self {
            Op::Node(k, v) => format!("(ONode {} {})", k, v),
            Op::Dep(f, t) => format!("(ODep {} {})", f, t),
            Op::Remove(k) => format!("(ORemove {})", k),
        }
    }
}
fn apply(g: &mut G, ops: &[Op]) {
    for o in ops {
        match o {
            Op::Node(k, v) => {
                g.node(*k, *v);
            }
            Op::Dep(f, t) => g.dependency(*f, *t),
            Op::Remove(k) => {
                g.remove(k);
            }
        }
    }
}
fn build(ops: &[Op]) -> G {
    let mut g = G::new();
    apply(&mut g, ops);
    g
}

// ---------------------------------------------------------------- orderings

#[derive(Clone, Debug)]
enum KeyOrd {
    Asc,
    Desc,
    Tab(Vec<(u8, u8)>), // sorted by key; missing keys rank 0
}
impl KeyOrd {
    fn rank(t: &[(u8, u8)], k: u8) -> u8 {
        t.iter().find(|(k2, _)| *k2 == k).map(|x| x.1).unwrap_or(0)
    }
    fn cmp(&self, a: u8, b: u8) -> std::cmp::Ordering {
        match self {
            KeyOrd::Asc => a.cmp(&b),
            KeyOrd::Desc => b.cmp(&a),
            KeyOrd::Tab(t) => Self::rank(t, a).cmp(&Self::rank(t, b)),
        }
    }
}
impl Coq for KeyOrd {
    fn coq(&self) -> String {
        match self {
            KeyOrd::Asc => "KAsc".into(),
            KeyOrd::Desc => "KDesc".into(),
            KeyOrd::Tab(t) => format!("(KTab {})", t.coq()),
        }
    }
}
#[derive(Clone, Debug)]
enum PairOrd {
    Key(KeyOrd),
    ValAsc,
    ValDesc,
}
impl PairOrd {
    fn cmp(&self, a: (&u8, &u8), b: (&u8, &u8)) -> std::cmp::Ordering {
        match self {
            PairOrd::Key(o) => o.cmp(*a.0, *b.0),
            PairOrd::ValAsc => a.1.cmp(b.1),
            PairOrd::ValDesc => b.1.cmp(a.1),
        }
    }
}
impl Coq for PairOrd {
    fn coq(&self) -> String {
        match self {
            PairOrd::Key(o) => format!("(PKey {})", o.coq()),
            PairOrd::ValAsc => "PValAsc".into(),
            PairOrd::ValDesc => "PValDesc".into(),
        }
    }
}

// ---------------------------------------------------------------- observation

/// Raw `tips` / `roots` fields are private; the derived `Debug` prints them
/// (`Dag { graph: {…}, tips: {…}, roots: {…} }`).
fn raw_sets(g: &G) -> (Vec<u8>, Vec<u8>) {
    let s = format!("{:?}", g);
    let parse = |body: &str| -> Vec<u8> {
        body.split(',').map(|x| x.trim()).filter(|x| !x.is_empty()).map(|x| x.parse::<u8>().expect("u8 in set")).collect()
    };
    let ti = s.rfind(", tips: {").expect("tips field");
    let ri = s.rfind("}, roots: {").expect("roots field");
    let tips = &s[ti + ", tips: {".len()..ri];
    let end = s.rfind("} }").expect("end");
    let roots = &s[ri + "}, roots: {".len()..end];
    (parse(tips), parse(roots))
}

struct Dump {
    nodes: Vec<(u8, (u8, (Vec<u8>, Vec<u8>)))>,
    raw: (Vec<u8>, Vec<u8>),
    iters: (Vec<u8>, Vec<u8>),
}
fn dump(g: &G) -> Dump {
    let mut nodes = vec![];
    for k in 0..=255u8 {
        if let Some(n) = g.get(&k) {
            assert_eq!(n.key, k);
            nodes.push((k, (n.value, (n.dependencies.iter().cloned().collect(), n.dependents.iter().cloned().collect()))));
        }
    }
    assert_eq!(nodes.len(), g.len());
    Dump {
        nodes,
        raw: raw_sets(g),
        iters: (g.tips().map(|(k, _)| *k).collect(), g.roots().map(|(k, _)| *k).collect()),
    }
}
impl Coq for Dump {
    fn coq(&self) -> String {
        format!("({}, {}, {})", self.nodes.coq(), self.raw.coq(), self.iters.coq())
    }
}
fn flow(b: bool) -> &'static str {
    if b { "Break" } else { "Continue" }
}

fn do_fold(g: &G, rts: &[u8], brk: &BTreeSet<u8>) -> Result<Vec<(u8, bool)>, String> {
    catch(AssertUnwindSafe(|| {
        g.fold(rts, Vec::new(), |mut acc, k, _| {
            let b = brk.contains(k);
            acc.push((*k, b));
            if b { ControlFlow::Break(acc) } else { ControlFlow::Continue(acc) }
        })
    }))
}
fn do_prune(g: &mut G, rts: &[u8], brk: &BTreeSet<u8>, o: &PairOrd) -> Vec<(u8, Vec<u8>, bool)> {
    let mut log = vec![];
    g.prune_by(
        rts,
        |k, _, sib| {
            let b = brk.contains(k);
            log.push((*k, sib.map(|(k, _)| *k).collect::<Vec<u8>>(), b));
            if b { ControlFlow::Break(()) } else { ControlFlow::Continue(()) }
        },
        |a, b| o.cmp(a, b),
    );
    log
}
fn fold_obs(r: &Result<Vec<(u8, bool)>, String>) -> String {
    match r {
        Ok(log) => format!("OFold [{}]", log.iter().map(|(k, b)| format!("({}, {})", k, flow(*b))).collect::<Vec<_>>().join("; ")),
        Err(_) => "OFoldPanic".into(),
    }
}
fn prune_obs(log: &[(u8, Vec<u8>, bool)], d: &Dump) -> String {
    format!(
        "OPrune [{}] {}",
        log.iter().map(|(k, s, b)| format!("({}, {}, {})", k, s.coq(), flow(*b))).collect::<Vec<_>>().join("; "),
        d.coq()
    )
}

// ---------------------------------------------------------------- reference graph (oracle side)

/// What the generator knows about a valid DAG, independently of the
/// implementation: its nodes, values and `a depends on b` edges.
#[derive(Clone, Debug, Default)]
struct Spec {
    val: BTreeMap<u8, u8>,
    deps: BTreeSet<(u8, u8)>, // (from, to): from depends on to
}
impl Spec {
    fn keys(&self) -> BTreeSet<u8> {
        self.val.keys().cloned().collect()
    }
    /// transitive dependents of n (n excluded)
    fn desc(&self, n: u8) -> BTreeSet<u8> {
        let mut out = BTreeSet::new();
        let mut todo = vec![n];
        while let Some(x) = todo.pop() {
            for (f, t) in &self.deps {
                if *t == x && out.insert(*f) {
                    todo.push(*f);
                }
            }
        }
        out
    }
    fn ops(&self, r: Option<&mut Rng>) -> Vec<Op> {
        let mut ns: Vec<Op> = self.val.iter().map(|(k, v)| Op::Node(*k, *v)).collect();
        let mut es: Vec<Op> = self.deps.iter().map(|(f, t)| Op::Dep(*f, *t)).collect();
        if let Some(r) = r {
            r.shuffle(&mut ns);
            r.shuffle(&mut es);
            // repeat an edge now and then: dependency() is idempotent
            if !es.is_empty() && r.chance(1, 4) {
                let e = r.pick(&es).clone();
                es.push(e);
            }
        }
        ns.extend(es);
        ns
    }
    fn restrict(&self, keep: &BTreeSet<u8>) -> Spec {
        Spec {
            val: self.val.iter().filter(|(k, _)| keep.contains(k)).map(|(k, v)| (*k, *v)).collect(),
            deps: self.deps.iter().filter(|(f, t)| keep.contains(f) && keep.contains(t)).cloned().collect(),
        }
    }
    fn to_json(&self) -> Value {
        json!({"nodes": self.val.iter().map(|(k, v)| (*k, *v)).collect::<Vec<_>>(), "deps_from_to": self.deps.iter().cloned().collect::<Vec<_>>()})
    }
}

/// The implementation's graph `g` must be exactly `spec`, with tips/roots as the
/// nodes without dependents / dependencies. Returns a description of the first
/// difference.
fn same_graph(g: &G, spec: &Spec) -> Option<String> {
    if g.len() != spec.val.len() {
        return Some(format!("{} nodes, expected {:?}", g.len(), spec.keys()));
    }
    for (k, v) in &spec.val {
        let Some(n) = g.get(k) else {
            return Some(format!("node {} is missing", k));
        };
        if n.value != *v {
            return Some(format!("node {} has value {}, expected {}", k, n.value, v));
        }
        let want_deps: BTreeSet<u8> = spec.deps.iter().filter(|(f, _)| f == k).map(|(_, t)| *t).collect();
        let want_dpts: BTreeSet<u8> = spec.deps.iter().filter(|(_, t)| t == k).map(|(f, _)| *f).collect();
        if n.dependencies != want_deps {
            return Some(format!("node {} has dependencies {:?}, expected {:?}", k, n.dependencies, want_deps));
        }
        if n.dependents != want_dpts {
            return Some(format!("node {} has dependents {:?}, expected {:?}", k, n.dependents, want_dpts));
        }
        for t in spec.val.keys() {
            if g.has_dependency(k, t) != want_deps.contains(t) {
                return Some(format!("has_dependency({}, {}) disagrees with the node's dependencies", k, t));
            }
        }
    }
    let want_tips: Vec<u8> = spec.keys().into_iter().filter(|k| !spec.deps.iter().any(|(_, t)| t == k)).collect();
    let want_roots: Vec<u8> = spec.keys().into_iter().filter(|k| !spec.deps.iter().any(|(f, _)| f == k)).collect();
    let tips: Vec<u8> = g.tips().map(|(k, _)| *k).collect();
    let roots: Vec<u8> = g.roots().map(|(k, _)| *k).collect();
    if tips != want_tips {
        return Some(format!("tips() = {:?}, expected {:?}", tips, want_tips));
    }
    if roots != want_roots {
        return Some(format!("roots() = {:?}, expected {:?}", roots, want_roots));
    }
    None
}

fn check_topological(spec: &Spec, order: &[u8]) -> Option<(&'static str, String)> {
    let set: BTreeSet<u8> = order.iter().cloned().collect();
    if set.len() != order.len() || set != spec.keys() {
        return Some(("sorted-not-a-permutation", format!("order {:?} is not a permutation of the keys {:?}", order, spec.keys())));
    }
    let pos: BTreeMap<u8, usize> = order.iter().enumerate().map(|(i, k)| (*k, i)).collect();
    for (f, t) in &spec.deps {
        if pos[t] >= pos[f] {
            return Some(("sorted-not-topological", format!("{} depends on {} but comes first in {:?}", f, t, order)));
        }
    }
    None
}

/// visited sequence of fold / prune against the statement: dependency
/// respecting, and a node reachable from the start nodes is visited iff it is
/// not a transitive dependent of a visited node that answered Break.
fn check_walk(spec: &Spec, rts: &[u8], brk: &BTreeSet<u8>, visited: &[u8]) -> Option<(&'static str, String)> {
    let vset: BTreeSet<u8> = visited.iter().cloned().collect();
    if vset.len() != visited.len() {
        return Some(("walk-visits-twice", format!("a node is visited twice: {:?}", visited)));
    }
    let pos: BTreeMap<u8, usize> = visited.iter().enumerate().map(|(i, k)| (*k, i)).collect();
    for (f, t) in &spec.deps {
        if let (Some(pf), Some(pt)) = (pos.get(f), pos.get(t)) {
            if pt >= pf {
                return Some(("walk-order", format!("{} depends on {} but is visited first: {:?}", f, t, visited)));
            }
        }
    }
    let mut reach: BTreeSet<u8> = BTreeSet::new();
    for r in rts {
        if spec.val.contains_key(r) {
            reach.insert(*r);
            reach.extend(spec.desc(*r));
        }
    }
    let mut skipped: BTreeSet<u8> = BTreeSet::new();
    for b in vset.iter().filter(|k| brk.contains(k)) {
        skipped.extend(spec.desc(*b));
    }
    let want: BTreeSet<u8> = reach.difference(&skipped).cloned().collect();
    if vset != want {
        return Some(("walk-skip-set", format!("visited {:?}; expected exactly {:?} (reachable {:?} minus dependents of broken nodes {:?})", vset, want, reach, skipped)));
    }
    None
}

fn fail(run: &mut Run, id: &str, class: &str, what: String, spec: &Spec, extra: Value) {
    run.fail(id, class, what, json!({"graph": spec.to_json(), "query": extra}));
}

/// All direct-oracle checks for one (graph, parameters) choice.
#[allow(clippy::too_many_arguments)]
fn oracle_sorted(run: &mut Run, id: &str, spec: &Spec, g: &G, o: &KeyOrd) {
    run.eval();
    let mut order = g.sorted_by(|a, b| o.cmp(*a, *b));
    let order = order.make_contiguous().to_vec();
    if let Some((class, what)) = check_topological(spec, &order) {
        fail(run, id, class, what, spec, json!({"sorted_by": format!("{:?}", o)}));
    }
}
fn oracle_fold(run: &mut Run, id: &str, spec: &Spec, g: &G, rts: &[u8], brk: &BTreeSet<u8>) {
    run.eval();
    match do_fold(g, rts, brk) {
        Ok(log) => {
            let visited: Vec<u8> = log.iter().map(|x| x.0).collect();
            if let Some((class, what)) = check_walk(spec, rts, brk, &visited) {
                fail(run, id, &format!("fold-{}", class), what, spec, json!({"fold_roots": rts, "break_at": brk}));
            }
        }
        Err(e) => fail(run, id, "fold-panic", format!("fold panicked on sorted roots: {}", e), spec, json!({"fold_roots": rts})),
    }
}
fn oracle_prune(run: &mut Run, id: &str, spec: &Spec, g: &G, rts: &[u8], brk: &BTreeSet<u8>, o: &PairOrd) {
    run.eval();
    let mut g2 = g.clone();
    let log = do_prune(&mut g2, rts, brk, o);
    let visited: Vec<u8> = log.iter().map(|x| x.0).collect();
    let q = json!({"prune_roots": rts, "break_at": brk, "ordering": format!("{:?}", o)});
    if let Some((class, what)) = check_walk(spec, rts, brk, &visited) {
        fail(run, id, &format!("prune-{}", class), what, spec, q.clone());
    }
    let mut removed: BTreeSet<u8> = BTreeSet::new();
    for b in visited.iter().filter(|k| brk.contains(k)) {
        removed.insert(*b);
        removed.extend(spec.desc(*b));
    }
    let keep: BTreeSet<u8> = spec.keys().difference(&removed).cloned().collect();
    if let Some(what) = same_graph(&g2, &spec.restrict(&keep)) {
        fail(run, id, "prune-not-exact", format!("after pruning at {:?}: {}", brk, what), spec, q);
    }
}
fn oracle_remove(run: &mut Run, id: &str, spec: &Spec, g: &G, k: u8) {
    run.eval();
    let mut g2 = g.clone();
    let ret = g2.remove(&k);
    let mut removed = BTreeSet::new();
    if spec.val.contains_key(&k) {
        removed.insert(k);
        removed.extend(spec.desc(k));
    }
    if ret.is_some() != spec.val.contains_key(&k) {
        fail(run, id, "remove-return", format!("remove({}) returned {:?}", k, ret.map(|n| n.key)), spec, json!({"remove": k}));
    }
    let keep: BTreeSet<u8> = spec.keys().difference(&removed).cloned().collect();
    if let Some(what) = same_graph(&g2, &spec.restrict(&keep)) {
        fail(run, id, "remove-not-exact", format!("after remove({}): {}", k, what), spec, json!({"remove": k}));
    }
}
fn oracle_merge(run: &mut Run, id: &str, a: &Spec, b: &Spec) {
    run.eval();
    let mut ga = build(&a.ops(None));
    let gb = build(&b.ops(None));
    ga.merge(gb);
    let mut u = a.clone();
    for (k, v) in &b.val {
        u.val.entry(*k).or_insert(*v); // a node present in both keeps self's value
    }
    u.deps.extend(b.deps.iter().cloned());
    if let Some(what) = same_graph(&ga, &u) {
        run.fail(id, "merge-not-union", format!("merge(a, b): {}", what), json!({"a": a.to_json(), "b": b.to_json()}));
    }
}

// ---------------------------------------------------------------- generators

fn subset(r: &mut Rng, keys: &[u8], num: u64, den: u64) -> BTreeSet<u8> {
    keys.iter().filter(|_| r.chance(num, den)).cloned().collect()
}
fn key_ord(r: &mut Rng, keys: &[u8]) -> KeyOrd {
    match r.below(4) {
        0 => KeyOrd::Asc,
        1 => KeyOrd::Desc,
        2 => {
            // a random permutation as ranks (total order)
            let mut rk: Vec<u8> = (0..keys.len() as u8).collect();
            r.shuffle(&mut rk);
            KeyOrd::Tab(keys.iter().cloned().zip(rk).collect())
        }
        _ => KeyOrd::Tab(keys.iter().map(|k| (*k, r.below(3) as u8)).collect()), // many ties
    }
}
fn pair_ord(r: &mut Rng, keys: &[u8]) -> PairOrd {
    match r.below(4) {
        0 => PairOrd::ValAsc,
        1 => PairOrd::ValDesc,
        _ => PairOrd::Key(key_ord(r, keys)),
    }
}

fn random_spec(r: &mut Rng, max_nodes: u64, key_space: u64) -> (Spec, Vec<u8>) {
    let n = r.below(max_nodes + 1) as usize;
    let mut pool: Vec<u8> = (0..key_space as u16).map(|x| x as u8).collect();
    r.shuffle(&mut pool);
    let topo: Vec<u8> = pool.into_iter().take(n).collect(); // topo[i] may depend on topo[j], j < i
    let mut spec = Spec::default();
    for k in &topo {
        spec.val.insert(*k, r.below(4) as u8);
    }
    // density: sparse (chains/forests) to dense
    let den = *r.pick(&[2u64, 3, 5, 8, 16]);
    let window = if r.chance(1, 3) { 3 } else { n.max(1) }; // narrow window gives long chains
    for i in 0..n {
        for j in i.saturating_sub(window)..i {
            if r.chance(1, den) || (j + 1 == i && r.chance(1, 2)) {
                spec.deps.insert((topo[i], topo[j]));
            }
        }
    }
    (spec, topo)
}

/// Record the correspondence cases and run the oracle for one valid graph.
fn valid_graph_cases(run: &mut Run, id: &str, r: &mut Rng, spec: &Spec, emit: bool) {
    let keys: Vec<u8> = spec.keys().into_iter().collect();
    let ops = spec.ops(Some(r));
    let g = build(&ops);
    if let Some(what) = same_graph(&g, spec) {
        fail(run, id, "build-inconsistent", what, spec, json!({"ops": format!("{:?}", ops)}));
    }
    let real_roots: Vec<u8> = keys.iter().filter(|k| !spec.deps.iter().any(|(f, _)| f == *k)).cloned().collect();
    let n_edges = spec.deps.len();
    run.tally(&format!("valid:nodes={}", match keys.len() { 0 => "0", 1 => "1", 2..=5 => "2-5", 6..=12 => "6-12", 13..=25 => "13-25", _ => "26-40" }));
    if real_roots.len() > 1 {
        run.tally("valid:multi-root");
    }
    if n_edges > keys.len() {
        run.tally("valid:edges>nodes(diamonds)");
    }

    // sorted_by
    let ko = key_ord(r, &keys);
    oracle_sorted(run, id, spec, &g, &ko);
    oracle_sorted(run, id, spec, &g, &KeyOrd::Asc);
    // fold: mostly the real roots, sometimes an arbitrary sorted subset (plus absent keys)
    let rts: Vec<u8> = if r.chance(2, 3) {
        real_roots.clone()
    } else {
        let mut s = subset(r, &keys, 1, 3);
        if r.chance(1, 4) {
            s.insert(r.below(256) as u8);
        }
        s.into_iter().collect()
    };
    let bden = *r.pick(&[2u64, 4, 8]);
    let brk = if r.chance(1, 5) { BTreeSet::new() } else { subset(r, &keys, 1, bden) };
    oracle_fold(run, id, spec, &g, &rts, &brk);
    // prune_by: COB-like (children of a root), the real roots, or a subset, in arbitrary order
    let po = pair_ord(r, &keys);
    let mut prts: Vec<u8> = match r.below(3) {
        0 => real_roots.clone(),
        1 if !real_roots.is_empty() => {
            let root = *r.pick(&real_roots);
            spec.deps.iter().filter(|(_, t)| *t == root).map(|(f, _)| *f).collect()
        }
        _ => subset(r, &keys, 1, 3).into_iter().collect(),
    };
    r.shuffle(&mut prts);
    let pden = *r.pick(&[2u64, 4, 8]);
    let pbrk = if r.chance(1, 5) { BTreeSet::new() } else { subset(r, &keys, 1, pden) };
    oracle_prune(run, id, spec, &g, &prts, &pbrk, &po);
    // remove
    let rk = if keys.is_empty() || r.chance(1, 8) { r.below(256) as u8 } else { *r.pick(&keys) };
    oracle_remove(run, id, spec, &g, rk);
    // merge with a second graph over an overlapping key space
    let (other, _) = {
        let max = (keys.len() as u64).max(3);
        let (mut o, topo) = random_spec(r, max, 256);
        // make it overlap: rename some of its keys to keys of `spec`, keeping both acyclic
        // together is not required by merge (only union of nodes/edges is claimed)
        if !keys.is_empty() && r.chance(2, 3) {
            let mut map: BTreeMap<u8, u8> = BTreeMap::new();
            let mut used: BTreeSet<u8> = o.keys();
            for k in topo.iter() {
                if r.chance(1, 2) {
                    let t = *r.pick(&keys);
                    if !used.contains(&t) {
                        used.insert(t);
                        map.insert(*k, t);
                    }
                }
            }
            let f = |k: u8| *map.get(&k).unwrap_or(&k);
            o = Spec {
                val: o.val.iter().map(|(k, v)| (f(*k), *v)).collect(),
                deps: o.deps.iter().map(|(a, b)| (f(*a), f(*b))).collect(),
            };
        }
        (o, ())
    };
    oracle_merge(run, id, spec, &other);
    if other.keys().intersection(&spec.keys()).next().is_some() {
        run.tally("merge:overlapping");
    }
    let other_roots = other.keys().into_iter().filter(|k| !other.deps.iter().any(|(f, _)| f == k)).count();
    if other_roots > 1 {
        run.tally("merge:other-multi-root");
    }

    if !emit {
        return;
    }
    // ---- correspondence cases (model input, implementation's observation)
    let opsq = ops.coq();
    run.case(&format!("{}/dump", id), format!("CDump {}", opsq), format!("ODump {}", dump(&g).coq()));
    let mut order = g.sorted_by(|a, b| ko.cmp(*a, *b));
    run.case(&format!("{}/sorted", id), format!("CSorted {} {}", opsq, ko.coq()), format!("OOrder {}", order.make_contiguous().to_vec().coq()));
    let f = do_fold(&g, &rts, &brk);
    run.case(&format!("{}/fold", id), format!("CFold {} {} {}", opsq, rts.coq(), brk.iter().cloned().collect::<Vec<u8>>().coq()), fold_obs(&f));
    if let Ok(log) = &f {
        if log.iter().any(|x| x.1) {
            run.tally("fold:break-hit");
        }
        if log.len() < keys.len() {
            run.tally("fold:some-node-not-visited");
        }
    }
    let mut g2 = g.clone();
    let log = do_prune(&mut g2, &prts, &pbrk, &po);
    run.case(
        &format!("{}/prune", id),
        format!("CPrune {} {} {} {}", opsq, prts.coq(), pbrk.iter().cloned().collect::<Vec<u8>>().coq(), po.coq()),
        prune_obs(&log, &dump(&g2)),
    );
    if log.iter().any(|x| x.2) {
        run.tally("prune:break-hit");
    }
    if log.iter().any(|x| !x.1.is_empty()) {
        run.tally("prune:non-empty-siblings");
    }
    if g2.len() < g.len() && g2.len() > 0 {
        run.tally("prune:partial-removal");
    }
    let mut ops_r = ops.clone();
    ops_r.push(Op::Remove(rk));
    let mut g3 = g.clone();
    g3.remove(&rk);
    run.case(&format!("{}/remove", id), format!("CDump {}", ops_r.coq()), format!("ODump {}", dump(&g3).coq()));
    if g3.len() + 1 < g.len() {
        run.tally("remove:with-descendants");
    }
    let oops = other.ops(Some(r));
    let mut gm = g.clone();
    gm.merge(build(&oops));
    run.case(&format!("{}/merge", id), format!("CMerge {} {}", opsq, oops.coq()), format!("ODump {}", dump(&gm).coq()));
    run.nontrivial(format!("{:?}|{:?}|{:?}|{:?}", spec.deps, brk, pbrk, rk));
}

/// Stream 1: arbitrary API sequences (no oracle: the graphs are not DAGs in general).
fn wild_case(run: &mut Run, id: &str, r: &mut Rng) {
    run.eval();
    let space = *r.pick(&[3u64, 4, 6, 10]);
    let n = r.below(16);
    let k = |r: &mut Rng| r.below(space) as u8;
    let ops: Vec<Op> = (0..n)
        .map(|_| match r.below(10) {
            0..=3 => Op::Node(k(r), r.below(3) as u8),
            4..=8 => Op::Dep(k(r), k(r)),
            _ => Op::Remove(k(r)),
        })
        .collect();
    let g = build(&ops);
    let keys: Vec<u8> = (0..space as u8).collect();
    let opsq = ops.coq();
    // is it still a proper DAG (symmetric edges, no cycle)? only for the tally
    let d = dump(&g);
    let sym = d.nodes.iter().all(|(k, (_, (deps, dpts)))| {
        deps.iter().all(|t| g.get(t).map(|n| n.dependents.contains(k)).unwrap_or(false))
            && dpts.iter().all(|f| g.get(f).map(|n| n.dependencies.contains(k)).unwrap_or(false))
    });
    run.tally(if sym { "wild:symmetric" } else { "wild:asymmetric-or-dangling" });
    match r.below(5) {
        0 => {
            run.case(id, format!("CDump {}", opsq), format!("ODump {}", d.coq()));
            run.tally("wild:dump");
        }
        1 => {
            let ko = key_ord(r, &keys);
            let mut order = g.sorted_by(|a, b| ko.cmp(*a, *b));
            run.case(id, format!("CSorted {} {}", opsq, ko.coq()), format!("OOrder {}", order.make_contiguous().to_vec().coq()));
            run.tally("wild:sorted");
        }
        2 => {
            // roots: arbitrary list, often unsorted / with duplicates -> assert! panics
            let m = r.below(4);
            let mut rts: Vec<u8> = (0..m).map(|_| k(r)).collect();
            if r.chance(2, 3) {
                rts.sort();
                rts.dedup();
            }
            let brk = subset(r, &keys, 1, 3);
            let f = do_fold(&g, &rts, &brk);
            run.tally(if f.is_ok() { "wild:fold" } else { "wild:fold-panic(unsorted roots)" });
            run.case(id, format!("CFold {} {} {}", opsq, rts.coq(), brk.iter().cloned().collect::<Vec<u8>>().coq()), fold_obs(&f));
        }
        3 => {
            let m = r.below(4);
            let rts: Vec<u8> = (0..m).map(|_| k(r)).collect();
            let brk = subset(r, &keys, 1, 3);
            let po = pair_ord(r, &keys);
            let mut g2 = g.clone();
            let log = do_prune(&mut g2, &rts, &brk, &po);
            run.case(
                id,
                format!("CPrune {} {} {} {}", opsq, rts.coq(), brk.iter().cloned().collect::<Vec<u8>>().coq(), po.coq()),
                prune_obs(&log, &dump(&g2)),
            );
            run.tally("wild:prune");
        }
        _ => {
            let n2 = r.below(10);
            let ops2: Vec<Op> = (0..n2)
                .map(|_| match r.below(10) {
                    0..=4 => Op::Node(k(r), r.below(3) as u8),
                    5..=8 => Op::Dep(k(r), k(r)),
                    _ => Op::Remove(k(r)),
                })
                .collect();
            let mut gm = g.clone();
            gm.merge(build(&ops2));
            run.case(id, format!("CMerge {} {}", opsq, ops2.coq()), format!("ODump {}", dump(&gm).coq()));
            run.tally("wild:merge");
        }
    }
    run.nontrivial(format!("wild{:?}", ops));
}

// ---------------------------------------------------------------- exhaustive

fn permutations(n: usize) -> Vec<Vec<u8>> {
    fn go(cur: &mut Vec<u8>, used: &mut Vec<bool>, n: usize, out: &mut Vec<Vec<u8>>) {
        if cur.len() == n {
            out.push(cur.clone());
            return;
        }
        for i in 0..n {
            if !used[i] {
                used[i] = true;
                cur.push(i as u8);
                go(cur, used, n, out);
                cur.pop();
                used[i] = false;
            }
        }
    }
    let mut out = vec![];
    go(&mut vec![], &mut vec![false; n], n, &mut out);
    out
}

/// The graph with `n` nodes whose edge set is `mask` over the pairs (j < i):
/// node i depends on node j; node i gets key `perm[i] * 10 + 1`.
fn enum_spec(n: usize, mask: u32, perm: &[u8], salt: u64) -> Spec {
    let key = |i: usize| perm[i] * 10 + 1;
    let mut spec = Spec::default();
    for i in 0..n {
        spec.val.insert(key(i), ((salt as usize + i * 3) % 3) as u8);
    }
    let mut bit = 0;
    for i in 0..n {
        for j in 0..i {
            if mask >> bit & 1 == 1 {
                spec.deps.insert((key(i), key(j)));
            }
            bit += 1;
        }
    }
    spec
}

/// Oracle on every break subset, every start choice and a family of orderings.
fn exhaustive_oracle(run: &mut Run, id: &str, spec: &Spec, all_orders: bool) {
    let keys: Vec<u8> = spec.keys().into_iter().collect();
    let n = keys.len();
    let g = build(&spec.ops(None));
    if let Some(what) = same_graph(&g, spec) {
        fail(run, id, "build-inconsistent", what, spec, json!({}));
    }
    let real_roots: Vec<u8> = keys.iter().filter(|k| !spec.deps.iter().any(|(f, _)| f == *k)).cloned().collect();
    let mut orders = vec![KeyOrd::Asc, KeyOrd::Desc, KeyOrd::Tab(keys.iter().map(|k| (*k, 0)).collect())];
    if all_orders {
        for p in permutations(n) {
            orders.push(KeyOrd::Tab(keys.iter().cloned().zip(p).collect()));
        }
    } else {
        orders.push(KeyOrd::Tab(keys.iter().enumerate().map(|(i, k)| (*k, (i as u8 * 3) % 5)).collect()));
        orders.push(KeyOrd::Tab(keys.iter().enumerate().map(|(i, k)| (*k, (i as u8) % 2)).collect()));
    }
    for o in &orders {
        oracle_sorted(run, id, spec, &g, o);
    }
    for m in 0u32..(1 << n) {
        let brk: BTreeSet<u8> = keys.iter().enumerate().filter(|(i, _)| m >> i & 1 == 1).map(|(_, k)| *k).collect();
        oracle_fold(run, id, spec, &g, &real_roots, &brk);
        oracle_prune(run, id, spec, &g, &real_roots, &brk, &PairOrd::Key(KeyOrd::Asc));
        oracle_prune(run, id, spec, &g, &real_roots, &brk, &PairOrd::ValDesc);
        // start from the subset m as well (no breaks / the complement breaks)
        let sub: Vec<u8> = brk.iter().cloned().collect();
        oracle_fold(run, id, spec, &g, &sub, &BTreeSet::new());
        let rev: Vec<u8> = sub.iter().rev().cloned().collect();
        oracle_prune(run, id, spec, &g, &rev, &keys.iter().filter(|k| !brk.contains(k)).cloned().collect(), &PairOrd::Key(KeyOrd::Desc));
        // merge of the two halves induced by m and its complement plus a shared node
        let mut left = brk.clone();
        let mut right: BTreeSet<u8> = keys.iter().filter(|k| !brk.contains(k)).cloned().collect();
        if let Some(k0) = keys.first() {
            left.insert(*k0);
            right.insert(*k0);
        }
        oracle_merge(run, id, &spec.restrict(&left), &spec.restrict(&right));
    }
    for k in &keys {
        oracle_remove(run, id, spec, &g, *k);
    }
    oracle_remove(run, id, spec, &g, 0);
    // merge with the empty graph and with itself, both ways
    oracle_merge(run, id, spec, &Spec::default());
    oracle_merge(run, id, &Spec::default(), spec);
    oracle_merge(run, id, spec, spec);
}

/// Replay asks for one case id; correspondence ids carry a `/kind` suffix.
fn wants(run: &Run, id: &str) -> bool {
    run.args.only.as_deref().map(|o| o.split('/').next().unwrap() == id).unwrap_or(true)
}

fn main() {
    quiet_panics();
    let mut run = Run::new(
        "C23",
        "model.Dag",
        "stream 0: random valid DAGs (0..40 nodes over u8 keys, hidden topological numbering, sparse to dense), every query kind \
         (dump, sorted_by, fold, prune_by, remove, merge) per graph with random orderings (total orders and orders with ties), break sets and \
         start nodes; stream 1: arbitrary node/dependency/remove call sequences over 3..10 keys (cycles, dangling and asymmetric edges, unsorted \
         fold roots) — correspondence only; stream 2: every edge set over n topologically numbered nodes under key relabelings, oracle on all \
         break subsets. Non-trivial = distinct (edge set, break sets, removed key) of a valid graph, or distinct call sequence of stream 1.",
    );
    let seed = run.args.seed;
    let thorough = run.args.thorough;

    // ---- stream 0
    let n0 = run.args.count(260, 2500);
    for i in 0..n0 {
        let id = format!("0:{}", i);
        if !wants(&run, &id) {
            continue;
        }
        let mut r = Rng::for_case(seed, 0, i);
        let max = match i % 10 {
            0..=5 => 8,
            6..=8 => 16,
            _ => 40,
        };
        let (spec, _) = random_spec(&mut r, max, if i % 3 == 0 { 256 } else { 48 });
        valid_graph_cases(&mut run, &id, &mut r, &spec, true);
        if i < 2 {
            run.sample(json!({"case_id": id, "graph": spec.to_json()}));
        }
    }
    // ---- stream 1
    let n1 = run.args.count(500, 5000);
    for i in 0..n1 {
        let id = format!("1:{}", i);
        if !wants(&run, &id) {
            continue;
        }
        let mut r = Rng::for_case(seed, 1, i);
        wild_case(&mut run, &id, &mut r);
    }
    // ---- stream 2: exhaustive small scope
    //   quick:    n <= 3 under all relabelings, n = 4 under two
    //   thorough: n <= 4 under all relabelings (all orderings), n = 5: all 1024 edge sets under
    //             all 120 relabelings for the oracle, correspondence cases for 2 relabelings
    let mut idx = 0u64;
    let max_n = if thorough { 5 } else { 4 };
    for n in 0..=max_n {
        let perms = permutations(n);
        let pairs = n * n.saturating_sub(1) / 2;
        for (pi, perm) in perms.iter().enumerate() {
            let full = thorough || n <= 3 || pi == 0 || pi == perms.len() - 1;
            if !full {
                continue;
            }
            for mask in 0u32..(1 << pairs) {
                let id = format!("2:{}", idx);
                idx += 1;
                if !wants(&run, &id) {
                    continue;
                }
                let spec = enum_spec(n, mask, perm, idx);
                exhaustive_oracle(&mut run, &id, &spec, n <= 4);
                let emit = n <= 4 || pi % 60 == 7;
                if emit {
                    let mut r = Rng::for_case(seed, 2, idx);
                    valid_graph_cases(&mut run, &id, &mut r, &spec, true);
                }
                run.tally(&format!("exhaustive:n={}", n));
            }
        }
    }
    run.note(format!(
        "exhaustive part: all edge sets over n topologically numbered nodes, n <= {}, {} labelled graphs",
        max_n, idx
    ));
    run.finish();
}
