//! C03: canonical branch head is backed by the delegate threshold.
//!
//! For small commit DAGs built in a real git repository the harness calls the
//! real `Canonical::quorum` (through the `verif_from_tips` hook and the public
//! `modify_vote`), evaluates the direct property oracle on what it returned
//! (distinct supporters counted with `graph_descendant_of`), and records the
//! correspondence case for `coq/model/Quorum.v`.  The git history (strict
//! ancestor pairs and `merge_base` results computed by git2) is shipped to the
//! model as data and re-checked there against the hypotheses of the theorems.
use hw_common::*;
use radicle::git::canonical::{Canonical, QuorumError};
use radicle::git::{raw, Oid};
use radicle::node::device::Device;
use radicle::prelude::Did;
use radicle::test::fixtures;
use std::collections::{BTreeMap, BTreeSet};

/// A DAG shape: parents of node i (all < i); a node without parents is a root.
type Shape = (&'static str, &'static [&'static [usize]]);

const SHAPES: &[Shape] = &[
    ("single", &[&[]]),
    ("linear4", &[&[], &[0], &[1], &[2]]),
    ("fork3", &[&[], &[0], &[0], &[0]]),
    ("fork-deep", &[&[], &[0], &[1], &[0], &[3]]),
    ("diamond", &[&[], &[0], &[0], &[1, 2], &[3]]),
    // the DAG of the crate's test_quorum: c0 c1 c2 c3 b2 a1 m1 m2
    ("crate-quorum", &[&[], &[0], &[1], &[1], &[1], &[0], &[2, 4], &[5, 4]]),
    // the DAG of test_quorum_merges: c0 c1 c2 c3 m1 m2 m3
    ("crate-merges", &[&[], &[0], &[0], &[0], &[1, 2], &[2, 3], &[2, 1]]),
    ("two-roots", &[&[], &[0], &[], &[2]]),
    ("roots-merged", &[&[], &[], &[0, 1], &[0], &[2]]),
    ("criss-cross", &[&[], &[0], &[0], &[1, 2], &[2, 1], &[3]]),
    ("chain-side", &[&[], &[0], &[1], &[2], &[3], &[2], &[5]]),
    ("merge-continue", &[&[], &[0], &[0], &[1, 2], &[3], &[1]]),
];

/// One concrete history: a shape instantiated in the repository with a salt
/// (the salt changes the oids, hence the oid order the code iterates in).
struct Hist {
    name: String,
    n: usize,
    /// oids by rank (rank = position in `Oid` order = the model's commit number)
    oids: Vec<Oid>,
    /// rank of shape node i
    rank_of_node: Vec<usize>,
    /// anc[a][b]: a == b or a is an ancestor of b (git2 graph_descendant_of)
    anc: Vec<Vec<bool>>,
    /// mb[a][b]: git2 merge_base(a, b) for a != b
    mb: Vec<Vec<Option<usize>>>,
    ha: String,
    hm: String,
}

fn build_hist(repo: &raw::Repository, k: usize, shape: &Shape, salt: u64) -> Hist {
    let (name, parents) = shape;
    let mut node_oids: Vec<Oid> = vec![];
    for (i, ps) in parents.iter().enumerate() {
        let ps: Vec<raw::Oid> = ps.iter().map(|p| *node_oids[*p]).collect();
        node_oids.push(fixtures::commit(&format!("{name}/{salt}/n{i}"), &ps, repo));
    }
    let n = node_oids.len();
    let mut oids = node_oids.clone();
    oids.sort();
    oids.dedup();
    assert_eq!(oids.len(), n);
    let rank = |o: &Oid| oids.binary_search(o).unwrap();
    let rank_of_node = node_oids.iter().map(rank).collect();
    let mut anc = vec![vec![false; n]; n];
    let mut mb = vec![vec![None; n]; n];
    for a in 0..n {
        for b in 0..n {
            if a == b {
                anc[a][b] = true;
                continue;
            }
            anc[a][b] = repo.graph_descendant_of(*oids[b], *oids[a]).unwrap();
            mb[a][b] = match repo.merge_base(*oids[a], *oids[b]) {
                Ok(o) => Some(oids.binary_search(&Oid::from(o)).expect("merge base outside the history")),
                Err(_) => None,
            };
        }
    }
    let mut pairs: Vec<(u64, u64)> = vec![];
    let mut triples: Vec<(u64, u64, u64)> = vec![];
    for a in 0..n {
        for b in 0..n {
            if a != b && anc[a][b] {
                pairs.push((a as u64, b as u64));
            }
            if let Some(c) = mb[a][b] {
                triples.push((a as u64, b as u64, c as u64));
            }
        }
    }
    let _ = k;
    Hist {
        name: format!("{name}/{salt}"),
        n,
        oids,
        rank_of_node,
        anc,
        mb,
        ha: pairs.coq(),
        hm: triples.coq(),
    }
}

#[derive(Clone, Debug, PartialEq, Eq)]
enum Res {
    Ok(usize),
    Diverging { base: usize, longest: usize, head: usize },
    NoCandidates,
    Git,
    Panic(String),
}

impl Res {
    fn coq(&self) -> String {
        match self {
            Res::Ok(h) => format!("(QOk {h})"),
            Res::Diverging { base, longest, head } => format!("(QDiverging {base} {longest} {head})"),
            Res::NoCandidates => "QNoCandidates".into(),
            Res::Git => "QGit".into(),
            // the model has no panic outcome: a panic of the real code is a mismatch
            Res::Panic(_) => "(QOk 999999)".into(),
        }
    }
    fn kind(&self) -> &'static str {
        match self {
            Res::Ok(_) => "ok",
            Res::Diverging { .. } => "diverging",
            Res::NoCandidates => "no-candidates",
            Res::Git => "git-error",
            Res::Panic(_) => "panic",
        }
    }
}

/// Run the real code: an empty `Canonical`, one `modify_vote` per assignment
/// (a later assignment for the same delegate replaces the earlier one), `quorum`.
fn real(repo: &raw::Repository, h: &Hist, dids: &[Did], assign: &[(usize, usize)], thr: usize) -> Res {
    let r = catch(std::panic::AssertUnwindSafe(|| {
        let mut c = Canonical::verif_from_tips(BTreeMap::new(), thr);
        for (d, t) in assign {
            c.modify_vote(dids[*d], h.oids[*t]);
        }
        c.quorum(repo)
    }));
    let rank_hex = |s: &str| -> usize {
        h.oids.iter().position(|o| o.to_string() == s).expect("oid of the error message is not in the history")
    };
    match r {
        Err(p) => Res::Panic(p),
        Ok(Ok(o)) => match h.oids.binary_search(&o) {
            Ok(i) => Res::Ok(i),
            Err(_) => Res::Panic(format!("head {o} outside the history")),
        },
        Ok(Err(QuorumError::NoCandidates(_))) => Res::NoCandidates,
        Ok(Err(QuorumError::Git(_))) => Res::Git,
        Ok(Err(QuorumError::Diverging(d))) => {
            // fields are private: "found diverging commits {longest} and {head},
            // with base commit {base} and threshold {threshold}"
            let s = d.to_string();
            let w: Vec<&str> = s.split_whitespace().collect();
            let longest = rank_hex(w[3]);
            let head = rank_hex(w[5].trim_end_matches(','));
            let base = rank_hex(w[9]);
            let t: usize = w[12].parse().unwrap();
            assert_eq!(t, thr);
            Res::Diverging { base, longest, head }
        }
    }
}

struct Facts {
    tips: BTreeMap<usize, usize>,
    supported: BTreeSet<usize>,
    /// some tip is shared by >= 2 delegates and has a delegate on a strict descendant
    shared_with_desc: bool,
    /// the per-pair vote count (k + k*m) reaches the threshold although the
    /// distinct supporters (k + m) do not
    overcount_window: bool,
    has_max: bool,
    unrelated_pair: bool,
}

fn facts(h: &Hist, assign: &[(usize, usize)], thr: usize) -> Facts {
    let mut tips = BTreeMap::new();
    for (d, t) in assign {
        tips.insert(*d, *t);
    }
    let vals: BTreeSet<usize> = tips.values().copied().collect();
    let mut supported = BTreeSet::new();
    let (mut shared_with_desc, mut overcount_window) = (false, false);
    for &c in &vals {
        let k = tips.values().filter(|t| **t == c).count();
        let m = tips.values().filter(|t| **t != c && h.anc[c][**t]).count();
        if k + m >= thr {
            supported.insert(c);
        }
        if k >= 2 && m >= 1 {
            shared_with_desc = true;
            if k + m < thr && thr <= k + k * m {
                overcount_window = true;
            }
        }
    }
    let has_max = supported.iter().any(|&x| supported.iter().all(|&c| h.anc[c][x]));
    let unrelated_pair = vals.iter().any(|&a| vals.iter().any(|&b| a != b && h.mb[a][b].is_none()));
    Facts { tips, supported, shared_with_desc, overcount_window, has_max, unrelated_pair }
}

/// Direct property oracle on the implementation's answer (does not use the model).
fn oracle(h: &Hist, f: &Facts, thr: usize, res: &Res) -> Vec<(&'static str, String)> {
    let mut out = vec![];
    let supporters = |c: usize| f.tips.values().filter(|t| h.anc[c][**t]).count();
    // complement: supported tips form a chain and git answers => the head is returned
    let chain = f.supported.iter().all(|&a| f.supported.iter().all(|&b| h.anc[a][b] || h.anc[b][a]));
    if chain && !f.supported.is_empty() && !f.unrelated_pair && !matches!(res, Res::Ok(_)) {
        out.push((
            "chain-no-head",
            format!("sufficiently supported tips {:?} are pairwise comparable and every tip pair has a merge base, but no head was returned", f.supported),
        ));
    }
    match res {
        Res::Panic(p) => out.push(("quorum-panicked", format!("quorum panicked: {p}"))),
        Res::Ok(hd) => {
            if !f.tips.values().any(|t| t == hd) {
                out.push(("head-not-a-tip", format!("returned head {hd} is not a delegate tip")));
            }
            let s = supporters(*hd);
            if s < thr {
                out.push((
                    "head-below-threshold",
                    format!("returned head {hd} is an ancestor-or-equal of the tips of only {s} distinct delegate(s), threshold {thr}"),
                ));
            }
            for &c in &f.supported {
                if c != *hd && h.anc[*hd][c] {
                    out.push((
                        "head-not-maximal",
                        format!("tip {c} has >= {thr} supporters and strictly descends from the returned head {hd}"),
                    ));
                }
            }
            if !f.supported.is_empty() && !f.has_max {
                out.push((
                    "divergent-returned-head",
                    format!("sufficiently supported tips {:?} are divergent (none descends from all) but head {hd} was returned", f.supported),
                ));
            }
        }
        Res::NoCandidates => {
            if let Some(c) = f.supported.iter().next() {
                out.push((
                    "no-candidates-but-supported",
                    format!("NoCandidates although tip {c} has {} >= {thr} distinct supporters", supporters(*c)),
                ));
            }
        }
        Res::Diverging { longest, head, .. } => {
            for x in [longest, head] {
                if !f.supported.contains(x) {
                    out.push(("diverging-unsupported", format!("Diverging names {x}, which has fewer than {thr} supporters")));
                }
            }
            if h.anc[*longest][*head] || h.anc[*head][*longest] {
                out.push(("diverging-not-divergent", format!("Diverging names {longest} and {head}, which are related")));
            }
        }
        Res::Git => {
            if !f.unrelated_pair {
                out.push(("unexpected-git-error", "git error although every pair of tips has a merge base".to_string()));
            }
        }
    }
    out
}

struct Ctx {
    repo: raw::Repository,
    dids: Vec<Did>,
    hists: Vec<Hist>,
}

fn do_case(run: &mut Run, cx: &Ctx, id: &str, hi: usize, assign: &[(usize, usize)], thr: usize) {
    if !run.args.wants(id) {
        return;
    }
    let h = &cx.hists[hi];
    let res = real(&cx.repo, h, &cx.dids, assign, thr);
    run.eval();
    let f = facts(h, assign, thr);
    let input = json!({
        "history": h.name, "rank_of_shape_node": h.rank_of_node, "oids_by_rank": h.oids.iter().map(|o| o.to_string()).collect::<Vec<_>>(),
        "assign_delegate_tip": assign, "threshold": thr, "result": format!("{res:?}"),
        "strict_ancestor_pairs": h.ha,
    });
    for (class, what) in oracle(h, &f, thr, &res) {
        run.fail(id, class, what, input.clone());
    }
    run.tally(&format!("result:{}", res.kind()));
    run.tally(&format!("delegates:{}", f.tips.len()));
    if f.shared_with_desc {
        run.tally("shared-tip-with-descendant-tips");
    }
    if f.overcount_window {
        run.tally("pair-count-reaches-threshold-but-distinct-supporters-do-not");
    }
    if assign.len() > f.tips.len() {
        run.tally("vote-modified");
    }
    if thr == 0 {
        run.tally("threshold:0");
    } else if thr > f.tips.len() {
        run.tally("threshold:>delegates");
    }
    if f.supported.len() >= 2 && f.has_max && f.supported.iter().all(|&a| f.supported.iter().all(|&b| h.anc[a][b] || h.anc[b][a])) {
        run.tally("supported-tips-chain>=2");
    }
    if f.unrelated_pair {
        run.tally("tips-with-unrelated-roots");
    }
    if !f.supported.is_empty() && !f.has_max {
        run.tally("supported-tips-divergent");
    }
    if matches!(res, Res::Diverging { .. }) && f.has_max {
        run.tally("diverging-although-a-supported-merge-descends-from-all");
    }
    if f.supported.len() >= 2 {
        run.tally("several-supported-tips");
    }
    if f.shared_with_desc || matches!(res, Res::Diverging { .. }) || f.supported.len() >= 2 {
        run.nontrivial(format!("{}|{:?}|{}", h.name, f.tips, thr));
    }
    run.sample(input);
    let a: Vec<(u64, u64)> = assign.iter().map(|(d, t)| (*d as u64, *t as u64)).collect();
    run.case(
        id,
        format!("(QCase ha_{hi} hm_{hi} {} {})", a.coq(), thr),
        format!("(true, {})", res.coq()),
    );
}

fn main() {
    quiet_panics();
    let mut run = Run::new(
        "C03",
        "lib.SMap model.Quorum",
        "distinct (history, tips, threshold) where a tip is shared by >=2 delegates and has descendant tips, or >=2 tips are sufficiently supported, or the result is Diverging",
    );
    let thorough = run.args.thorough;
    let seed = run.args.seed;

    let tmp = tempfile::tempdir().unwrap();
    let (repo, _) = fixtures::repository(tmp.path());
    // delegate pool; model number = rank in Did order
    let mut dids: Vec<Did> = (1..=8u8).map(|i| Did::from(*Device::mock_from_seed([i; 32]).public_key())).collect();
    dids.sort();

    // histories: every shape under several salts (different oid orders)
    let salts: u64 = if thorough { 6 } else { 3 };
    let mut hists = vec![];
    for shape in SHAPES {
        for s in 0..salts {
            // salt 0..: fixed, independent of the seed, so exhaustive ids are stable;
            hists.push(build_hist(&repo, hists.len(), shape, s));
        }
    }
    let mut pre = String::new();
    for (i, h) in hists.iter().enumerate() {
        pre.push_str(&format!(
            "Definition ha_{i} : list (N * N) := {}.\nDefinition hm_{i} : list (N * N * N) := {}.\n",
            h.ha, h.hm
        ));
    }
    run.preamble = pre;
    let cx = Ctx { repo, dids, hists };
    let hist_of = |shape: usize, salt: u64| shape * salts as usize + salt as usize;

    // ---- stream w: witnesses and the crate's own vectors -------------------
    {
        let hi = hist_of(5, 0); // crate-quorum: nodes c0 c1 c2 c3 b2 a1 m1 m2
        let r = |node: usize| cx.hists[hi].rank_of_node[node];
        let (c0, c1, c2, _c3, b2, a1, m1, m2) = (r(0), r(1), r(2), r(3), r(4), r(5), r(6), r(7));
        let vecs: Vec<(Vec<usize>, usize)> = vec![
            // two delegates on c1, one on its child c2, two on the divergent a1, threshold 4
            (vec![c1, c1, c2, a1, a1], 4),
            (vec![c1, c1, c2], 4),
            (vec![c1, c1, c2], 3),
            (vec![c1, c1, c1, c2, b2, a1], 6),
            (vec![c0], 0),
            (vec![], 0),
            (vec![c0], 2),
            (vec![c1, c2, b2], 1),
            (vec![c1, c2, b2], 2),
            (vec![b2, b2, c2, c2], 2),
            (vec![c0, c1, c2, b2, a1], 3),
            (vec![m1, m2, b2, c1], 4),
            (vec![m1, m2, c2], 1),
            (vec![m1, c2, b2], 1),
            (vec![m1, m1, b2, b2], 2),
        ];
        for (i, (tips, thr)) in vecs.iter().enumerate() {
            let assign: Vec<(usize, usize)> = tips.iter().copied().enumerate().collect();
            do_case(&mut run, &cx, &format!("w:{i}"), hi, &assign, *thr);
        }
    }

    // ---- stream x: exhaustive assignments ---------------------------------
    // every shape (salt 0, and salt 1 in thorough), k = 1..=K delegates, every
    // assignment of the k delegates to commits, every threshold 0..=k+1
    {
        let mut idx = 0u64;
        let xsalts: u64 = if thorough { 2 } else { 1 };
        for (si, _) in SHAPES.iter().enumerate() {
            for s in 0..xsalts {
                let hi = hist_of(si, s);
                let n = cx.hists[hi].n;
                // quick: K = 4 for <= 5 commits, 3 otherwise.  thorough: salt 0 with
                // K = 5 for <= 4 commits and 4 otherwise, salt 1 (another oid order) with K = 3.
                let kmax = if thorough {
                    if s > 0 {
                        3
                    } else if n <= 4 {
                        5
                    } else {
                        4
                    }
                } else if n <= 5 {
                    4
                } else {
                    3
                };
                for k in 1..=kmax {
                    let total = (n as u64).pow(k as u32);
                    for code in 0..total {
                        let mut c = code;
                        let assign: Vec<(usize, usize)> = (0..k)
                            .map(|d| {
                                let t = (c % n as u64) as usize;
                                c /= n as u64;
                                (d, t)
                            })
                            .collect();
                        for thr in 0..=k + 1 {
                            do_case(&mut run, &cx, &format!("x:{idx}"), hi, &assign, thr);
                            idx += 1;
                        }
                    }
                }
            }
        }
        run.exhaustive = true;
        run.note(format!(
            "stream x is exhaustive: {} shapes, all assignments of 1..K delegates to the commits (K = {}), all thresholds 0..k+1: {} cases",
            SHAPES.len(),
            if thorough { "5 for <=4 commits, 4 otherwise; a second oid order with K = 3" } else { "4 for <=5 commits, 3 otherwise" },
            idx
        ));
    }

    // ---- stream r: random, up to 6 of 8 delegates, shared tips, modified votes
    let nr = run.args.count(2500, 30000);
    for i in 0..nr {
        let id = format!("r:{i}");
        if !run.args.wants(&id) {
            continue;
        }
        let mut r = Rng::for_case(seed, 1, i);
        let hi = r.below(cx.hists.len() as u64) as usize;
        let n = cx.hists[hi].n;
        let k = r.range(1, 6) as usize;
        let mut pool: Vec<usize> = (0..8).collect();
        r.shuffle(&mut pool);
        let ds = &pool[..k];
        // focus set: force several delegates onto few commits most of the time
        let focus: Vec<usize> = if r.chance(2, 3) {
            let m = r.range(1, 3.min(n as u64)) as usize;
            (0..m).map(|_| r.below(n as u64) as usize).collect()
        } else {
            (0..n).collect()
        };
        let mut assign: Vec<(usize, usize)> = ds.iter().map(|d| (*d, *r.pick(&focus))).collect();
        for _ in 0..r.below(3) {
            assign.push((*r.pick(ds), r.below(n as u64) as usize));
        }
        let thr = if r.chance(1, 8) { r.range(0, k as u64 + 2) } else { r.range(1, k as u64) } as usize;
        do_case(&mut run, &cx, &id, hi, &assign, thr);
    }

    run.finish();
}
