//! C25: sync targets report success exactly when reached.
//!
//! Drives the real `radicle::node::sync::{Announcer, Fetcher}` with random
//! configurations and arbitrary call sequences (including the local node,
//! unknown nodes and repeated results), evaluates the direct oracle (success
//! reported iff the set-based target holds; the local node is never counted or
//! handed out; no node with a result is handed out) and records every answer
//! for comparison with coq/model/Sync.v.
use std::collections::{BTreeMap, BTreeSet, HashSet};
use std::ops::ControlFlow;

use hw_common::*;
use radicle::node::sync::announce::{self, AnnouncerError, SuccessfulOutcome as AOutcome};
use radicle::node::sync::fetch::{self, Candidate, FetcherError, SuccessfulOutcome as FOutcome};
use radicle::node::sync::{
    Announcer, AnnouncerConfig, AnnouncerResult, Fetcher, FetcherConfig, FetcherResult, ReplicationFactor,
};
use radicle::identity::{Did, Doc, Project, Visibility};
use radicle::node::sync::PrivateNetwork;
use radicle::node::{Address, FetchResult, FetchResults, NodeId};

/// A private network whose allowed set is `allowed` (non-empty): built through
/// the real `PrivateNetwork::private_repo` from an identity document with one
/// delegate and the rest on the allow list, then passed through `restrict`.
fn private_net(allowed: &BTreeSet<u64>, dropped: &BTreeSet<u64>) -> PrivateNetwork {
    let all: BTreeSet<u64> = allowed.union(dropped).copied().collect();
    let mut it = all.iter();
    let d = *it.next().expect("non-empty allowed set");
    let project = Project::new("acme".parse().unwrap(), String::new(), radicle::git::RefString::try_from("master").unwrap()).unwrap();
    let doc = Doc::initial(project, Did::from(nid(d)), Visibility::private(it.map(|k| Did::from(nid(*k)))));
    let keep: BTreeSet<NodeId> = to_nids(allowed);
    PrivateNetwork::private_repo(&doc).expect("private document").restrict(|n| keep.contains(n))
}

fn nid(k: u64) -> NodeId {
    let mut b = [0u8; 32];
    b[0] = k as u8;
    b[1] = 0xa5;
    NodeId::from(b)
}
fn idx(n: &NodeId) -> u64 {
    let b: &[u8] = n.as_ref();
    b[0] as u64
}
fn idxs<'a>(it: impl IntoIterator<Item = &'a NodeId>) -> Vec<u64> {
    it.into_iter().map(idx).collect()
}

#[derive(Clone, Copy, Debug)]
enum Repl {
    Must(u64),
    Range(u64, u64), // as passed to ReplicationFactor::range
}
impl Repl {
    fn real(&self) -> ReplicationFactor {
        match self {
            Repl::Must(n) => ReplicationFactor::must_reach(*n as usize),
            Repl::Range(lo, hi) => ReplicationFactor::range(*lo as usize, *hi as usize),
        }
    }
    fn coq(&self) -> String {
        match self {
            Repl::Must(n) => format!("(MustReach {n})"),
            Repl::Range(lo, hi) => format!("(rf_range {lo} {hi})"),
        }
    }
    fn json(&self) -> Value {
        match self {
            Repl::Must(n) => json!({"must_reach": n}),
            Repl::Range(lo, hi) => json!({"range": [lo, hi]}),
        }
    }
}
fn gen_repl(r: &mut Rng) -> Repl {
    match r.below(10) {
        0 => Repl::Must(0),
        1..=5 => Repl::Must(r.range(1, 4)),
        6 => Repl::Must(r.range(5, 12)),
        7 | 8 => {
            let lo = r.below(4);
            Repl::Range(lo, lo + r.range(1, 4))
        }
        _ => Repl::Range(r.below(5), r.below(5)),
    }
}
fn coq_rf(rf: &ReplicationFactor) -> String {
    match rf.upper_bound() {
        None => format!("(MustReach {})", rf.lower_bound()),
        Some(hi) => format!("(Range {} {})", rf.lower_bound(), hi),
    }
}
fn bound(rf: &ReplicationFactor) -> usize {
    rf.upper_bound().unwrap_or(rf.lower_bound())
}
fn subset(r: &mut Rng, universe: u64, p_num: u64, p_den: u64) -> BTreeSet<u64> {
    (0..universe).filter(|_| r.chance(p_num, p_den)).collect()
}
fn to_nids(s: &BTreeSet<u64>) -> BTreeSet<NodeId> {
    s.iter().map(|k| nid(*k)).collect()
}
fn vecs(s: &BTreeSet<u64>) -> Vec<u64> {
    s.iter().copied().collect()
}

// ------------------------------------------------------------------ announcer

#[derive(Clone, Debug)]
enum AOp {
    Synced(u64),
    ToSync,
    Progress,
    CanContinue,
    TimeOut,
}
impl AOp {
    fn coq(&self) -> String {
        match self {
            AOp::Synced(n) => format!("(ASynced {n})"),
            AOp::ToSync => "AToSync".into(),
            AOp::Progress => "AProgress".into(),
            AOp::CanContinue => "ACanContinue".into(),
            AOp::TimeOut => "ATimeOut".into(),
        }
    }
}
fn coq_aprogress(p: &announce::Progress) -> String {
    format!("{{| ap_preferred := {}; ap_synced := {}; ap_unsynced := {} |}}", p.preferred(), p.synced(), p.unsynced())
}
fn aoutcome_parts(o: AOutcome) -> (bool, usize, usize) {
    match o {
        AOutcome::MinReplicationFactor { preferred, synced } => (false, preferred, synced),
        AOutcome::MaxReplicationFactor { preferred, synced } => (true, preferred, synced),
    }
}
fn coq_aoutcome(o: AOutcome) -> String {
    let (max, p, s) = aoutcome_parts(o);
    format!("{{| ao_max := {}; ao_preferred := {}; ao_synced := {} |}}", max.coq(), p, s)
}

fn announce_case(run: &mut Run, id: &str, r: &mut Rng) {
    let universe = r.range(2, 8);
    let local = r.below(universe);
    let dens = r.range(1, 3);
    let pref = if r.chance(1, 4) { BTreeSet::new() } else { subset(r, universe, 1, 1 + dens) };
    let synced = if r.chance(1, 2) { BTreeSet::new() } else { subset(r, universe, 1, 3) };
    let unsynced = if r.chance(1, 12) { BTreeSet::new() } else { subset(r, universe, 2, 3) };
    let repl = gen_repl(r);
    // private network: preferred = unsynced = allowed set, nothing synced yet
    let private = r.chance(1, 6);
    let dropped = if private { subset(r, universe, 1, 4) } else { BTreeSet::new() };
    let (pref, synced, unsynced) = if private {
        let mut allowed = if pref.is_empty() { unsynced.clone() } else { pref.clone() };
        if allowed.is_empty() { allowed.insert(r.below(universe)); }
        (allowed.clone(), BTreeSet::new(), allowed)
    } else { (pref, synced, unsynced) };
    let nops = r.range(1, 14);
    let mut ops = vec![];
    let mut order: Vec<u64> = (0..universe).collect();
    r.shuffle(&mut order);
    let mut next = 0usize;
    for _ in 0..nops {
        ops.push(match r.below(20) {
            0..=9 => {
                // mostly walk through the universe (so targets are actually reached), sometimes repeat / local / unknown
                let n = order[next % order.len()];
                next += 1;
                AOp::Synced(n)
            }
            10 | 11 => AOp::Synced(r.below(universe)),
            12 => AOp::Synced(local),
            13 => AOp::Synced(universe + r.below(3)),
            14 | 15 => AOp::ToSync,
            16 => AOp::Progress,
            17 | 18 => AOp::CanContinue,
            _ => AOp::TimeOut,
        });
    }
    if r.chance(3, 4) {
        ops.push(AOp::TimeOut);
    }
    let input = json!({"machine": "announcer", "private_network": private, "local": local, "replicas": repl.json(), "preferred": vecs(&pref),
        "synced": vecs(&synced), "unsynced": vecs(&unsynced), "ops": ops.iter().map(|o| format!("{o:?}")).collect::<Vec<_>>()});
    let cfg_term = format!(
        "{{| ac_local := {}; ac_repl := {}; ac_pref := {}; ac_synced := {}; ac_unsynced := {} |}}",
        local, repl.coq(), vecs(&pref).coq(), vecs(&synced).coq(), vecs(&unsynced).coq());
    let case_term = format!("CAnnounce {} [{}]", cfg_term, ops.iter().map(|o| o.coq()).collect::<Vec<_>>().join("; "));
    run.eval();

    let config = if private {
        run.tally("announcer-private-network");
        let dropped: BTreeSet<u64> = dropped.difference(&pref).copied().collect();
        AnnouncerConfig::private(nid(local), repl.real(), private_net(&pref, &dropped))
    } else {
        AnnouncerConfig::public(nid(local), repl.real(), to_nids(&pref), to_nids(&synced), to_nids(&unsynced))
    };
    let mut ann = match Announcer::new(config) {
        Err(e) => {
            let (t, kind) = match e {
                AnnouncerError::NoSeeds => ("ENoSeeds".to_string(), "announcer-new-no-seeds"),
                AnnouncerError::AlreadySynced(a) => (format!("(EAlreadySynced {} {})", a.preferred(), a.synced()), "announcer-new-already-synced"),
                AnnouncerError::Target(_) => ("ETarget".to_string(), "announcer-new-target-error"),
            };
            run.tally(kind);
            run.case(id, case_term, format!("OAnnounceErr {t}"));
            return;
        }
        Ok(a) => a,
    };
    run.tally("announcer-constructed");
    let lnid = nid(local);
    // ---- the oracle's own bookkeeping
    let pref0: BTreeSet<u64> = pref.iter().copied().filter(|k| *k != local).collect();
    let mut y: BTreeSet<u64> = synced.iter().copied().filter(|k| *k != local).collect();
    let target_pref = idxs(ann.target().preferred_seeds());
    let target_rf = *ann.target().replicas();
    let need = bound(&target_rf);
    if ann.target().preferred_seeds().contains(&lnid) {
        run.fail(id, "announcer-local-node-counted", "the local node is a preferred seed of the target".into(), input.clone());
    }
    let met = |y: &BTreeSet<u64>| pref0.is_subset(y) && y.len() >= need;
    if met(&y) {
        run.fail(id, "announcer-constructed-with-target-met", "Announcer::new succeeded although the target already holds".into(), input.clone());
    }
    let mut reported = false;
    let mut steps: Vec<String> = vec![];
    let check_keys = |run: &mut Run, what: &str, keys: &[u64], y: &BTreeSet<u64>| {
        if keys.contains(&local) {
            run.fail(id, "announcer-local-node-counted", format!("{what}: the local node is among the synced nodes"), input.clone());
        }
        if keys != vecs(y).as_slice() {
            run.fail(id, "announcer-synced-set", format!("{what}: synced nodes {keys:?}, expected {:?}", vecs(y)), input.clone());
        }
    };
    let mut ann_opt = Some(ann);
    for op in &ops {
        let Some(mut a) = ann_opt.take() else { break };
        match op {
            AOp::Synced(n) => {
                if *n != local {
                    y.insert(*n);
                }
                match a.synced_with(nid(*n), std::time::Duration::from_secs(1)) {
                    ControlFlow::Continue(p) => {
                        if met(&y) && !reported {
                            run.fail(id, "announcer-target-met-not-reported",
                                format!("synced_with({n}) continued although every preferred seed {:?} is synced and {} >= {need} nodes are synced", vecs(&pref0), y.len()), input.clone());
                        }
                        if p.synced() != y.len() || p.preferred() != y.intersection(&pref0).count() {
                            run.fail(id, if *n == local || y.contains(&local) { "announcer-local-node-counted" } else { "announcer-progress-counts" },
                                format!("progress after synced_with({n}) counts synced={} preferred={}, expected {} / {}", p.synced(), p.preferred(), y.len(), y.intersection(&pref0).count()), input.clone());
                        }
                        run.tally("announcer-continue");
                        steps.push(format!("OAFlow (AContinue {})", coq_aprogress(&p)));
                    }
                    ControlFlow::Break(s) => {
                        if !met(&y) {
                            run.fail(id, "announcer-success-without-target",
                                format!("synced_with({n}) reported success; preferred {:?}, synced {:?}, replicas needed {need}", vecs(&pref0), vecs(&y)), input.clone());
                        }
                        let (_, pc, sc) = aoutcome_parts(s.outcome());
                        if sc != y.len() || pc != y.intersection(&pref0).count() {
                            run.fail(id, "announcer-outcome-counts", format!("outcome counts {pc}/{sc}, expected {}/{}", y.intersection(&pref0).count(), y.len()), input.clone());
                        }
                        let keys = idxs(s.synced().keys());
                        check_keys(run, "success", &keys, &y);
                        reported = true;
                        run.tally(if *n == local { "announcer-break-on-local" } else { "announcer-break" });
                        steps.push(format!("OAFlow (ABreak {} {})", coq_aoutcome(s.outcome()), keys.coq()));
                    }
                }
                if *n == local {
                    run.tally("announcer-op-local-node");
                } else if *n >= universe {
                    run.tally("announcer-op-unknown-node");
                }
                ann_opt = Some(a);
            }
            AOp::ToSync => {
                let s = idxs(a.to_sync().iter());
                if s.contains(&local) {
                    run.fail(id, "announcer-hands-out-local", "to_sync() contains the local node".into(), input.clone());
                }
                steps.push(format!("OASet {}", s.coq()));
                ann_opt = Some(a);
            }
            AOp::Progress => {
                steps.push(format!("OAProgress {}", coq_aprogress(&a.progress())));
                ann_opt = Some(a);
            }
            AOp::CanContinue => match a.can_continue() {
                ControlFlow::Continue(a2) => {
                    steps.push("OAContinue".into());
                    ann_opt = Some(a2);
                }
                ControlFlow::Break(no) => {
                    let keys = idxs(no.synced().keys());
                    check_keys(run, "no-nodes", &keys, &y);
                    if !met(&y) {
                        run.tally("announcer-no-nodes-target-unmet");
                    } else {
                        run.tally("announcer-no-nodes-target-met(after success)");
                        if !reported {
                            run.fail(id, "announcer-target-met-not-reported", "ran out of nodes with the target met and no success reported".into(), input.clone());
                        }
                    }
                    steps.push(format!("OAResult (ANoNodes {})", keys.coq()));
                }
            },
            AOp::TimeOut => match a.timed_out() {
                AnnouncerResult::Success(s) => {
                    if !met(&y) {
                        run.fail(id, "announcer-success-without-target",
                            format!("timed_out() reported success; preferred {:?}, synced {:?}, replicas needed {need}", vecs(&pref0), vecs(&y)), input.clone());
                    }
                    let keys = idxs(s.synced().keys());
                    check_keys(run, "success", &keys, &y);
                    run.tally("announcer-timed_out-success");
                    steps.push(format!("OAResult (ASuccess {} {})", coq_aoutcome(s.outcome()), keys.coq()));
                }
                AnnouncerResult::TimedOut(t) => {
                    if met(&y) {
                        run.fail(id, "announcer-target-met-not-reported",
                            format!("timed_out() reported a timeout although preferred {:?} are synced and {} >= {need}", vecs(&pref0), y.len()), input.clone());
                    }
                    let keys = idxs(t.synced().keys());
                    check_keys(run, "timed-out", &keys, &y);
                    let to = idxs(t.timed_out().iter());
                    if to.contains(&local) {
                        run.fail(id, "announcer-hands-out-local", "timed_out set contains the local node".into(), input.clone());
                    }
                    run.tally("announcer-timed_out-timeout");
                    steps.push(format!("OAResult (ATimedOut {} {})", keys.coq(), to.coq()));
                }
                AnnouncerResult::NoNodes(_) => unreachable!(),
            },
        }
    }
    if reported {
        run.nontrivial(format!("{input}"));
    }
    run.case(id, case_term, format!("OAnnounce {} {} [{}]", target_pref.coq(), coq_rf(&target_rf), steps.join("; ")));
    run.sample(json!({"case_id": id, "input": input}));
}

// ------------------------------------------------------------------ fetcher

#[derive(Clone, Debug)]
enum FOp {
    NextNode,
    Ready(u64),
    NextFetch,
    Failed(u64),
    Complete(u64, bool),
    Progress,
    Finish,
}
impl FOp {
    fn coq(&self) -> String {
        match self {
            FOp::NextNode => "FNextNode".into(),
            FOp::Ready(n) => format!("(FReady {n})"),
            FOp::NextFetch => "FNextFetch".into(),
            FOp::Failed(n) => format!("(FFailed {n})"),
            FOp::Complete(n, ok) => format!("(FComplete {n} {})", ok.coq()),
            FOp::Progress => "FProgress".into(),
            FOp::Finish => "FFinish".into(),
        }
    }
}
fn coq_fprogress(p: &fetch::Progress) -> String {
    format!("{{| fp_candidate := {}; fp_succeeded := {}; fp_failed := {}; fp_preferred := {} |}}",
        p.candidate(), p.succeeded(), p.failed(), p.preferred())
}
fn coq_foutcome(o: &FOutcome) -> String {
    match o {
        FOutcome::PreferredNodes { preferred } => format!("(PreferredNodes {preferred})"),
        FOutcome::MinReplicas { succeeded } => format!("(MinReplicas {succeeded})"),
        FOutcome::MaxReplicas { succeeded, min, max } => format!("(MaxReplicas {succeeded} {min} {max})"),
    }
}
fn results_vec(rs: &FetchResults) -> Vec<(u64, bool)> {
    rs.iter().map(|(n, r)| (idx(n), r.is_success())).collect()
}
fn fetch_result(ok: bool) -> FetchResult {
    if ok {
        FetchResult::Success { updated: vec![], namespaces: HashSet::new(), clone: false }
    } else {
        FetchResult::Failed { reason: "failed".into() }
    }
}
fn addr() -> Address {
    Address::from(std::net::SocketAddr::from(([8, 8, 8, 8], 8776)))
}

/// The oracle's view of the fetch process, kept independently of the Fetcher.
struct FView {
    local: u64,
    seeds: BTreeSet<u64>,
    need: usize,
    first: BTreeMap<u64, bool>,   // first result reported for a node other than the local one
    touched: BTreeSet<u64>,       // every node a result was reported for
    local_fed: bool,
    repeated: bool,
}
impl FView {
    fn feed(&mut self, n: u64, ok: bool) {
        if n == self.local {
            self.local_fed = true;
            return;
        }
        if self.first.contains_key(&n) {
            self.repeated = true;
            return;
        }
        self.first.insert(n, ok);
        self.touched.insert(n);
    }
    fn succeeded(&self) -> BTreeSet<u64> {
        self.first.iter().filter(|(_, ok)| **ok).map(|(n, _)| *n).collect()
    }
    fn met(&self) -> bool {
        let s = self.succeeded();
        (!self.seeds.is_empty() && self.seeds.is_subset(&s)) || s.len() >= self.need
    }
    /// class of a counting discrepancy
    fn blame(&self, fallback: &str) -> String {
        if self.local_fed {
            "fetcher-local-node-counted".into()
        } else if self.repeated {
            "fetcher-repeated-result-counted".into()
        } else {
            fallback.into()
        }
    }
}

fn fetch_case(run: &mut Run, id: &str, r: &mut Rng) {
    let universe = r.range(2, 8);
    let local = r.below(universe);
    let seeds = if r.chance(1, 4) { BTreeSet::new() } else { subset(r, universe, 1, 2) };
    let nextra = if r.chance(1, 6) { 0 } else { r.range(1, 8) };
    let extra: Vec<u64> = (0..nextra).map(|_| if r.chance(1, 8) { local } else { r.below(universe) }).collect();
    let repl = gen_repl(r);
    // private network: seeds = allowed set, no extra candidates
    let private = r.chance(1, 6);
    let dropped = if private { subset(r, universe, 1, 4) } else { BTreeSet::new() };
    let (seeds, extra) = if private {
        let mut allowed = seeds.clone();
        if allowed.is_empty() { allowed.insert(r.below(universe)); }
        (allowed, vec![])
    } else { (seeds, extra) };
    // a protocol-following driver with random deviations
    let style = r.below(3); // 0 = follow the protocol, 1 = mixed, 2 = arbitrary
    let nops = r.range(2, 24);
    let mut ops = vec![];
    for _ in 0..nops {
        let any = |r: &mut Rng| match r.below(12) { 0 => local, 1 => universe + r.below(2), _ => r.below(universe) };
        let k = r.below(100);
        ops.push(if style == 0 || (style == 1 && k < 70) {
            // placeholders resolved while driving: u64::MAX = "the node last handed out"
            match r.below(10) {
                0..=3 => FOp::NextNode,
                4 | 5 => FOp::Ready(u64::MAX),
                6 => FOp::Failed(u64::MAX),
                7..=8 => FOp::NextFetch,
                _ => FOp::Complete(u64::MAX, r.chance(3, 4)),
            }
        } else {
            match r.below(12) {
                0 | 1 => FOp::NextNode,
                2 => FOp::Ready(any(r)),
                3 => FOp::NextFetch,
                4 | 5 => FOp::Failed(any(r)),
                6..=9 => FOp::Complete(any(r), r.chance(3, 4)),
                10 => FOp::Progress,
                _ => FOp::Finish,
            }
        });
    }
    if r.chance(3, 4) {
        ops.push(FOp::Finish);
    }
    run.eval();
    let lnid = nid(local);
    let config = if private {
        run.tally("fetcher-private-network");
        let dropped: BTreeSet<u64> = dropped.difference(&seeds).copied().collect();
        FetcherConfig::private(private_net(&seeds, &dropped), repl.real(), lnid)
    } else {
        FetcherConfig::public(to_nids(&seeds), repl.real(), lnid)
            .with_candidates(extra.iter().map(|k| Candidate::new(nid(*k))))
    };
    let cfg_term = format!("{{| fc_seeds := {}; fc_repl := {}; fc_extra := {}; fc_local := {} |}}",
        vecs(&seeds).coq(), repl.coq(), extra.coq(), local);
    let mut fetcher = match Fetcher::new(config) {
        Err(e) => {
            let (t, kind) = match e {
                FetcherError::NoCandidates => ("ENoCandidates", "fetcher-new-no-candidates"),
                FetcherError::Target(_) => ("EFTarget", "fetcher-new-target-error"),
                _ => ("EFTarget", "fetcher-new-other-error"),
            };
            run.tally(kind);
            run.case(id, format!("CFetch {cfg_term} []"), format!("OFetchErr {t}"));
            return;
        }
        Ok(f) => f,
    };
    run.tally("fetcher-constructed");
    let target_seeds = idxs(fetcher.target().preferred_seeds());
    let target_rf = *fetcher.target().replicas();
    let mut view = FView { local, seeds: seeds.clone(), need: bound(&target_rf), first: BTreeMap::new(),
        touched: BTreeSet::new(), local_fed: false, repeated: false };
    let mut steps: Vec<String> = vec![];
    let mut done_ops: Vec<FOp> = vec![];
    let mut last_node: Option<u64> = None;   // last node handed out by next_node
    let mut last_fetch: Option<u64> = None;  // last node handed out by next_fetch
    let mut reported = false;
    let mk_input = |done: &Vec<FOp>| json!({"machine": "fetcher", "private_network": private, "local": local, "replicas": repl.json(), "seeds": vecs(&seeds),
        "extra_candidates": extra, "ops": done.iter().map(|o| format!("{o:?}")).collect::<Vec<_>>()});
    let handed = |run: &mut Run, what: &str, n: u64, view: &FView, done: &Vec<FOp>| {
        if n == local {
            run.fail(id, "fetcher-hands-out-local", format!("{what} returned the local node"), mk_input(done));
        }
        if view.touched.contains(&n) {
            run.fail(id, "fetcher-hands-out-node-with-result", format!("{what} returned node {n} which already has a result"), mk_input(done));
        }
    };
    let mut fopt = Some(fetcher);
    for op in &ops {
        let Some(mut f) = fopt.take() else { break };
        // resolve placeholders
        let op = match op {
            FOp::Ready(u64::MAX) => match last_node { Some(n) => FOp::Ready(n), None => FOp::NextNode },
            FOp::Failed(u64::MAX) => match last_node.or(last_fetch) { Some(n) => FOp::Failed(n), None => FOp::NextNode },
            FOp::Complete(u64::MAX, ok) => match last_fetch { Some(n) => FOp::Complete(n, *ok), None => FOp::NextFetch },
            o => o.clone(),
        };
        done_ops.push(op.clone());
        match op {
            FOp::NextNode => {
                let n = f.next_node().map(|n| idx(&n));
                if let Some(n) = n {
                    handed(run, "next_node", n, &view, &done_ops);
                    run.tally("fetcher-next_node-some");
                } else {
                    run.tally("fetcher-next_node-none");
                }
                last_node = n;
                steps.push(format!("OFNode {}", n.coq()));
            }
            FOp::Ready(n) => {
                f.ready_to_fetch(nid(n), addr());
                steps.push("OFUnit".into());
            }
            FOp::NextFetch => {
                let n = f.next_fetch().map(|(n, _)| idx(&n));
                if let Some(n) = n {
                    handed(run, "next_fetch", n, &view, &done_ops);
                    run.tally("fetcher-next_fetch-some");
                } else {
                    run.tally("fetcher-next_fetch-none");
                }
                last_fetch = n;
                steps.push(format!("OFNode {}", n.coq()));
            }
            FOp::Failed(n) => {
                if n == local { run.tally("fetcher-result-for-local-node"); }
                else if view.first.contains_key(&n) { run.tally("fetcher-repeated-result"); }
                view.feed(n, false);
                f.fetch_failed(nid(n), "could not connect");
                steps.push("OFUnit".into());
            }
            FOp::Complete(n, ok) => {
                if n == local { run.tally("fetcher-result-for-local-node"); }
                else if view.first.contains_key(&n) { run.tally("fetcher-repeated-result"); }
                view.feed(n, ok);
                let s = view.succeeded();
                let flow = f.fetch_complete(nid(n), fetch_result(ok));
                let (p, brk) = match &flow {
                    ControlFlow::Continue(p) => (*p, false),
                    ControlFlow::Break(s) => (s.progress(), true),
                };
                if p.succeeded() != s.len() || p.preferred() != s.intersection(&seeds).count() {
                    run.fail(id, &view.blame("fetcher-progress-counts"),
                        format!("after fetch_complete({n}, {ok}) the fetcher counts succeeded={} preferred={}; nodes fetched successfully: {:?}, of which preferred {:?}",
                            p.succeeded(), p.preferred(), vecs(&s), s.intersection(&seeds).collect::<Vec<_>>()), mk_input(&done_ops));
                }
                if brk && !view.met() {
                    run.fail(id, &view.blame("fetcher-success-without-target"),
                        format!("fetch_complete({n}, {ok}) reported success; seeds {:?}, fetched {:?}, replicas needed {}", vecs(&seeds), vecs(&s), view.need), mk_input(&done_ops));
                }
                if !brk && view.met() {
                    run.fail(id, "fetcher-target-met-not-reported",
                        format!("fetch_complete({n}, {ok}) continued; seeds {:?}, fetched {:?}, replicas needed {}", vecs(&seeds), vecs(&s), view.need), mk_input(&done_ops));
                }
                match flow {
                    ControlFlow::Continue(p) => {
                        run.tally("fetcher-continue");
                        steps.push(format!("OFFlow (FContinue {})", coq_fprogress(&p)));
                    }
                    ControlFlow::Break(s) => {
                        if s.fetch_results().iter().any(|(k, _)| *k == lnid) {
                            run.fail(id, "fetcher-local-node-counted", "the results of the success contain the local node".into(), mk_input(&done_ops));
                        }
                        reported = true;
                        run.tally(match s.outcome() {
                            FOutcome::PreferredNodes { .. } => "fetcher-break-preferred",
                            FOutcome::MinReplicas { .. } => "fetcher-break-min-replicas",
                            FOutcome::MaxReplicas { .. } => "fetcher-break-max-replicas",
                        });
                        steps.push(format!("OFFlow (FBreak {} {} {})", coq_foutcome(s.outcome()), coq_fprogress(&s.progress()), results_vec(s.fetch_results()).coq()));
                    }
                }
            }
            FOp::Progress => {
                steps.push(format!("OFProgress {}", coq_fprogress(&f.progress())));
            }
            FOp::Finish => {
                let s = view.succeeded();
                match f.finish() {
                    FetcherResult::TargetReached(su) => {
                        if !view.met() {
                            run.fail(id, &view.blame("fetcher-success-without-target"),
                                format!("finish() reported success; seeds {:?}, fetched {:?}, replicas needed {}", vecs(&seeds), vecs(&s), view.need), mk_input(&done_ops));
                        }
                        if su.fetch_results().iter().any(|(k, _)| *k == lnid) {
                            run.fail(id, "fetcher-local-node-counted", "the results of the success contain the local node".into(), mk_input(&done_ops));
                        }
                        reported = true;
                        run.tally("fetcher-finish-reached");
                        steps.push(format!("OFResult (FTargetReached {} {} {})", coq_foutcome(su.outcome()), coq_fprogress(&su.progress()), results_vec(su.fetch_results()).coq()));
                    }
                    FetcherResult::TargetError(m) => {
                        if view.met() {
                            run.fail(id, "fetcher-target-met-not-reported",
                                format!("finish() reported a failure; seeds {:?}, fetched {:?}, replicas needed {}", vecs(&seeds), vecs(&s), view.need), mk_input(&done_ops));
                        }
                        if m.fetch_results().iter().any(|(k, _)| *k == lnid) {
                            run.fail(id, "fetcher-local-node-counted", "the results of the failure contain the local node".into(), mk_input(&done_ops));
                        }
                        run.tally("fetcher-finish-error");
                        steps.push(format!("OFResult (FTargetError {} {} {} {})", coq_fprogress(&m.progress()), m.required_nodes(),
                            idxs(m.missed_nodes().iter()).coq(), results_vec(m.fetch_results()).coq()));
                    }
                }
                continue; // consumed
            }
        }
        fopt = Some(f);
    }
    if reported {
        run.nontrivial(format!("{}", mk_input(&done_ops)));
    }
    let case_term = format!("CFetch {} [{}]", cfg_term, done_ops.iter().map(|o| o.coq()).collect::<Vec<_>>().join("; "));
    run.case(id, case_term, format!("OFetch {} {} [{}]", target_seeds.coq(), coq_rf(&target_rf), steps.join("; ")));
    run.sample(json!({"case_id": id, "input": mk_input(&done_ops)}));
}

fn main() {
    quiet_panics();
    let mut run = Run::new(
        "C25",
        "model.Sync",
        "stream 0: Announcer — universe of 2-8 nodes incl. the local one, random preferred/synced/unsynced sets (may overlap, may \
         contain the local node), MustReach 0..12 / range(lo,hi) incl. lo>=hi, 1-15 calls: synced_with over a shuffled walk of the \
         universe plus repeats, the local node and unknown nodes, to_sync, progress, can_continue, timed_out. \
         stream 1: Fetcher — seeds, extra candidates with duplicates and the local node, same factors, 2-25 calls from a \
         protocol-following driver (results only for nodes handed out), a mixed one and an arbitrary one (results for any node incl. \
         local / unknown / repeated). Non-trivial = a run in which success was reported; distinct by input.",
    );
    let seed = run.args.seed;
    let n = run.args.count(1500, 25000);
    for i in 0..n {
        for stream in 0..2u64 {
            let id = format!("{stream}:{i}");
            if !run.args.wants(&id) {
                continue;
            }
            let mut r = Rng::for_case(seed, stream, i);
            let res = catch(std::panic::AssertUnwindSafe(|| {
                if stream == 0 { announce_case(&mut run, &id, &mut r) } else { fetch_case(&mut run, &id, &mut r) }
            }));
            if let Err(msg) = res {
                run.fail(&id, "sync-panic", format!("panic: {msg}"), json!({"case_id": id}));
            }
        }
    }
    run.finish();
}
