//! Shared machinery of the C07 and C08 harnesses (included by both packages):
//! symbolic issue/patch histories over small integers, their translation into
//! real `radicle::cob::Entry` values, a `ReadRepository` that serves several
//! identity documents and answers the Merge arm's git questions from a real
//! git repository, execution through the public `Evaluate::{init, apply}`,
//! and decoding of the real object's JSON into the Coq model's state terms.
#![allow(dead_code, mismatched_lifetime_syntaxes)]
use hw_common::*;
use radicle::cob::issue::{self, Issue};
use radicle::cob::patch::{self, Patch};
use radicle::cob::{self, thread, Evaluate};
use radicle::crypto::test::signer::MockSigner;
use radicle::crypto::{PublicKey, Signer as _};
use radicle::git::{self, raw, Oid};
use radicle::identity::doc::{DocAt, DocError, RawDoc};
use radicle::identity::{Did, Project, RepoId, Visibility};
use radicle::storage::refs;
use radicle::storage::{
    Error as StorageError, ReadRepository, Remote, RemoteId, RemoteRepository, Remotes, RepositoryError,
    ValidateRepository, Validations,
};
use std::collections::{BTreeMap, BTreeSet, HashMap};

pub const N_ACTORS: usize = 7;
pub const REACTIONS: [char; 3] = ['🚀', '👍', '🙏'];

// ------------------------------------------------------------------ symbolic world

#[derive(Clone, Debug)]
pub struct SDoc {
    pub delegates: Vec<u64>,
    pub threshold: u64,
}

#[derive(Clone, Debug, PartialEq, Eq)]
pub enum IState {
    Open,
    Closed(u64), // 0 other, 1 solved
}

#[derive(Clone, Debug)]
pub enum IAct {
    Assign(Vec<u64>),
    Edit(u64, bool),
    Lifecycle(IState),
    Label(Vec<u64>),
    Comment(u64, Option<u64>),
    CommentEdit(u64, u64),
    CommentRedact(u64),
    CommentReact(u64, u64, bool),
}

#[derive(Clone, Copy, Debug, PartialEq, Eq)]
pub enum Life {
    Open,
    Draft,
    Archived,
}

#[derive(Clone, Debug)]
pub enum PAct {
    Edit(u64),
    Label(Vec<u64>),
    Lifecycle(Life),
    Assign(Vec<u64>),
    Merge(u64, u64),
    Review(u64, Option<u64>, Option<u64>, Vec<u64>),
    ReviewEdit(u64, Option<u64>, Option<u64>, Vec<u64>),
    ReviewRedact(u64),
    ReviewComment(u64, u64, Option<u64>),
    ReviewCommentEdit(u64, u64, u64),
    ReviewCommentRedact(u64, u64),
    ReviewCommentReact(u64, u64, u64, bool),
    ReviewCommentResolve(u64, u64),
    ReviewCommentUnresolve(u64, u64),
    Revision(u64),
    RevisionEdit(u64, u64),
    RevisionRedact(u64),
    RevisionComment(u64, u64, Option<u64>),
    RevisionCommentEdit(u64, u64, u64),
    RevisionCommentRedact(u64, u64),
    RevisionCommentReact(u64, u64, u64, bool),
}

#[derive(Clone, Debug)]
pub struct SOp<A> {
    pub id: u64,
    pub actor: u64,
    /// index into the case's documents; None = no resource; Some(99) = unknown oid
    pub doc: Option<usize>,
    pub actions: Vec<A>,
}

fn opt(x: &Option<u64>) -> String {
    x.coq()
}

impl Coq for IState {
    fn coq(&self) -> String {
        match self {
            IState::Open => "IOpen".into(),
            IState::Closed(r) => format!("(IClosed {r})"),
        }
    }
}

impl Coq for IAct {
    fn coq(&self) -> String {
        match self {
            IAct::Assign(l) => format!("(IAssign {})", l.coq()),
            IAct::Edit(t, bad) => format!("(IEdit {t} {})", bad.coq()),
            IAct::Lifecycle(s) => format!("(ILifecycle {})", s.coq()),
            IAct::Label(l) => format!("(ILabel {})", l.coq()),
            IAct::Comment(b, r) => format!("(IComment {b} {})", opt(r)),
            IAct::CommentEdit(id, b) => format!("(ICommentEdit {id} {b})"),
            IAct::CommentRedact(id) => format!("(ICommentRedact {id})"),
            IAct::CommentReact(id, r, a) => format!("(ICommentReact {id} {r} {})", a.coq()),
        }
    }
}

impl Coq for Life {
    fn coq(&self) -> String {
        match self {
            Life::Open => "LOpen",
            Life::Draft => "LDraft",
            Life::Archived => "LArchived",
        }
        .into()
    }
}

impl Coq for PAct {
    fn coq(&self) -> String {
        use PAct::*;
        match self {
            Edit(t) => format!("(PEdit {t})"),
            Label(l) => format!("(PLabel {})", l.coq()),
            Lifecycle(s) => format!("(PLifecycle {})", s.coq()),
            Assign(l) => format!("(PAssign {})", l.coq()),
            Merge(r, c) => format!("(PMerge {r} {c})"),
            Review(r, s, v, l) => format!("(PReview {r} {} {} {})", opt(s), opt(v), l.coq()),
            ReviewEdit(r, s, v, l) => format!("(PReviewEdit {r} {} {} {})", opt(s), opt(v), l.coq()),
            ReviewRedact(r) => format!("(PReviewRedact {r})"),
            ReviewComment(r, b, rp) => format!("(PReviewComment {r} {b} {})", opt(rp)),
            ReviewCommentEdit(r, c, b) => format!("(PReviewCommentEdit {r} {c} {b})"),
            ReviewCommentRedact(r, c) => format!("(PReviewCommentRedact {r} {c})"),
            ReviewCommentReact(r, c, x, a) => format!("(PReviewCommentReact {r} {c} {x} {})", a.coq()),
            ReviewCommentResolve(r, c) => format!("(PReviewCommentResolve {r} {c})"),
            ReviewCommentUnresolve(r, c) => format!("(PReviewCommentUnresolve {r} {c})"),
            Revision(d) => format!("(PRevision {d})"),
            RevisionEdit(r, d) => format!("(PRevisionEdit {r} {d})"),
            RevisionRedact(r) => format!("(PRevisionRedact {r})"),
            RevisionComment(r, b, rp) => format!("(PRevisionComment {r} {b} {})", opt(rp)),
            RevisionCommentEdit(r, c, b) => format!("(PRevisionCommentEdit {r} {c} {b})"),
            RevisionCommentRedact(r, c) => format!("(PRevisionCommentRedact {r} {c})"),
            RevisionCommentReact(r, c, x, a) => format!("(PRevisionCommentReact {r} {c} {x} {})", a.coq()),
        }
    }
}

pub fn doc_coq(d: &SDoc) -> String {
    format!("(mkDoc {} {})", d.delegates.coq(), d.threshold)
}

pub fn op_coq<A: Coq>(o: &SOp<A>, docs: &[SDoc]) -> String {
    let d = match o.doc {
        Some(k) if k < docs.len() => format!("(Some {})", doc_coq(&docs[k])),
        _ => "None".into(),
    };
    format!("(mkOp {} {} {} {})", o.id, o.actor, d, o.actions.coq())
}

// ------------------------------------------------------------------ real world

/// Entry / comment / revision / review ids: the integer in the last 8 bytes.
pub fn entry_oid(n: u64) -> Oid {
    let mut b = [0u8; 20];
    b[0] = 0xE0;
    b[12..].copy_from_slice(&n.to_be_bytes());
    Oid::from(raw::Oid::from_bytes(&b).unwrap())
}
pub fn entry_num(o: &str) -> u64 {
    let o = raw::Oid::from_str(o).expect("oid");
    let b = o.as_bytes();
    assert_eq!(b[0], 0xE0, "not an entry oid: {o}");
    u64::from_be_bytes(b[12..].try_into().unwrap())
}
/// Identity-document commit oids.
pub fn doc_oid(k: usize) -> Oid {
    let mut b = [0u8; 20];
    b[0] = 0xD0;
    b[19] = k as u8;
    Oid::from(raw::Oid::from_bytes(&b).unwrap())
}

pub fn body(n: u64) -> String {
    if n == 0 { String::new() } else { format!("b{n}") }
}
fn tok(s: &str, prefix: char) -> u64 {
    if s.is_empty() {
        return 0;
    }
    let t = s.trim_end_matches('\n');
    assert!(t.starts_with(prefix), "unexpected text {s:?}");
    t[1..].parse().unwrap()
}
pub fn label(n: u64) -> cob::Label {
    cob::Label::new(format!("l{n}")).unwrap()
}
pub fn reaction(n: u64) -> cob::Reaction {
    cob::Reaction::new(REACTIONS[n as usize % REACTIONS.len()]).unwrap()
}
fn reaction_num(s: &str) -> u64 {
    let c = s.chars().next().unwrap();
    REACTIONS.iter().position(|r| *r == c).unwrap() as u64
}

pub struct World {
    pub signers: Vec<MockSigner>,
    pub keys: Vec<PublicKey>,
    key_ix: HashMap<String, u64>,
    /// real commits of the shared git repository, by token 1..; token 0 is unused
    pub commits: Vec<Oid>,
    commit_ix: HashMap<String, u64>,
    pub repo: HarnessRepo,
    _tmp: tempfile::TempDir,
}

/// Commit DAG of the shared repository (token: parents):
///   1 m0: root   2 m1: 1   3 m2: 2   4 m3: 3      (main line)
///   5 s1: 2      6 s2: 5                           (side branch off m1)
///   7 u0: root                                     (unrelated history)
///   8: an object id that does not exist in the repository
pub const COMMIT_PARENTS: [&[u64]; 7] = [&[], &[1], &[2], &[3], &[2], &[5], &[]];
pub const N_COMMITS: u64 = 8;

fn mk_commit(repo: &raw::Repository, msg: &str, parents: &[raw::Oid]) -> raw::Oid {
    let sig = raw::Signature::new("anonymous", "anonymous@radicle.xyz", &raw::Time::new(1_700_000_000, 0)).unwrap();
    let tree = {
        let mut tb = repo.treebuilder(None).unwrap();
        let blob = repo.blob(msg.as_bytes()).unwrap();
        tb.insert("f", blob, 0o100644).unwrap();
        repo.find_tree(tb.write().unwrap()).unwrap()
    };
    let ps: Vec<raw::Commit> = parents.iter().map(|p| repo.find_commit(*p).unwrap()).collect();
    let ps: Vec<&raw::Commit> = ps.iter().collect();
    repo.commit(None, &sig, &sig, msg, &tree, &ps).unwrap()
}

impl World {
    pub fn new() -> World {
        let signers: Vec<MockSigner> = (0..N_ACTORS).map(|i| MockSigner::from_seed([i as u8 + 1; 32])).collect();
        let keys: Vec<PublicKey> = signers.iter().map(|s| *s.public_key()).collect();
        let key_ix = keys.iter().enumerate().map(|(i, k)| (k.to_string(), i as u64)).collect();
        let tmp = tempfile::tempdir().unwrap();
        let gitrepo = raw::Repository::init_bare(tmp.path().join("repo.git")).unwrap();
        let mut commits: Vec<Oid> = vec![Oid::from(raw::Oid::zero())];
        for (i, ps) in COMMIT_PARENTS.iter().enumerate() {
            let ps: Vec<raw::Oid> = ps.iter().map(|p| *commits[*p as usize]).collect();
            commits.push(Oid::from(mk_commit(&gitrepo, &format!("commit {}", i + 1), &ps)));
        }
        // token 8: not an object of the repository
        commits.push(Oid::from(raw::Oid::from_str("abababababababababababababababababababab").unwrap()));
        let commit_ix = commits.iter().enumerate().skip(1).map(|(i, o)| (o.to_string(), i as u64)).collect();
        let rid = RepoId::from(*entry_oid(0xFFFF));
        World {
            signers,
            keys,
            key_ix,
            commits,
            commit_ix,
            repo: HarnessRepo { id: rid, docs: HashMap::new(), git: gitrepo },
            _tmp: tmp,
        }
    }

    pub fn did(&self, a: u64) -> Did {
        Did::from(self.keys[a as usize])
    }
    /// actor number of a "z6Mk…" / "did:key:z6Mk…" string
    pub fn actor_num(&self, s: &str) -> u64 {
        let s = s.strip_prefix("did:key:").unwrap_or(s);
        *self.key_ix.get(s).unwrap_or_else(|| panic!("unknown key {s}"))
    }
    pub fn commit_num(&self, s: &str) -> u64 {
        *self.commit_ix.get(s).unwrap_or_else(|| panic!("unknown commit {s}"))
    }

    /// Install the identity documents and per-actor default-branch heads of a case.
    pub fn install(&mut self, docs: &[SDoc], heads: &[Option<u64>]) {
        self.repo.docs.clear();
        for (k, d) in docs.iter().enumerate() {
            let proj = Project::new(
                "acme".try_into().unwrap(),
                "Acme".to_string(),
                git::RefString::try_from("master").unwrap(),
            )
            .unwrap();
            let doc = RawDoc::new(
                proj,
                d.delegates.iter().map(|a| self.did(*a)).collect(),
                d.threshold as usize,
                Visibility::Public,
            )
            .verified()
            .expect("valid identity document");
            let (blob, _) = doc.encode().unwrap();
            self.repo.docs.insert(doc_oid(k), DocAt { commit: doc_oid(k), blob, doc });
        }
        for (a, h) in heads.iter().enumerate() {
            let name = format!("refs/namespaces/{}/refs/heads/master", self.keys[a]);
            match h {
                Some(c) => {
                    self.repo.git.reference(&name, *self.commits[*c as usize], true, "case").unwrap();
                }
                None => {
                    if let Ok(mut r) = self.repo.git.find_reference(&name) {
                        r.delete().unwrap();
                    }
                }
            }
        }
    }

    /// What the repository answers for a merge of `commit` by `actor`, measured
    /// with plain git2 calls (head of the actor's default branch; equality or
    /// ancestry).
    pub fn branch_answer(&self, actor: u64, commit: u64) -> &'static str {
        let name = format!("refs/namespaces/{}/refs/heads/master", self.keys[actor as usize]);
        let Ok(head) = self.repo.git.refname_to_id(&name) else {
            return "BrNoHead";
        };
        let c = *self.commits[commit as usize];
        if c == head {
            return "BrOk";
        }
        match self.repo.git.graph_descendant_of(head, c) {
            Ok(true) => "BrOk",
            Ok(false) => "BrNo",
            Err(_) => "BrErr",
        }
    }

    pub fn orc_table(&self) -> String {
        let mut rows = vec![];
        for a in 0..N_ACTORS as u64 {
            for c in 1..=N_COMMITS {
                let r = self.branch_answer(a, c);
                if r != "BrNoHead" {
                    rows.push(format!("(({a}, {c}), {r})"));
                }
            }
        }
        format!("[{}]", rows.join("; "))
    }

    // ---------------------------------------------------------- real actions

    pub fn issue_action(&self, a: &IAct) -> issue::Action {
        use issue::Action as A;
        match a {
            IAct::Assign(l) => A::Assign { assignees: l.iter().map(|x| self.did(*x)).collect() },
            IAct::Edit(t, bad) => A::Edit { title: if *bad { format!("t{t}\n") } else { format!("t{t}") } },
            IAct::Lifecycle(s) => A::Lifecycle {
                state: match s {
                    IState::Open => issue::State::Open,
                    IState::Closed(0) => issue::State::Closed { reason: issue::CloseReason::Other },
                    IState::Closed(_) => issue::State::Closed { reason: issue::CloseReason::Solved },
                },
            },
            IAct::Label(l) => A::Label { labels: l.iter().map(|x| label(*x)).collect() },
            IAct::Comment(b, r) => A::Comment { body: body(*b), reply_to: r.map(entry_oid), embeds: vec![] },
            IAct::CommentEdit(id, b) => A::CommentEdit { id: entry_oid(*id), body: body(*b), embeds: vec![] },
            IAct::CommentRedact(id) => A::CommentRedact { id: entry_oid(*id) },
            IAct::CommentReact(id, r, act) => A::CommentReact { id: entry_oid(*id), reaction: reaction(*r), active: *act },
        }
    }

    pub fn patch_action(&self, a: &PAct) -> patch::Action {
        use patch::Action as A;
        use patch::{ReviewId, RevisionId};
        let rev = |r: &u64| RevisionId::from(entry_oid(*r));
        let rvw = |r: &u64| ReviewId::from(entry_oid(*r));
        let summary = |s: &Option<u64>| s.map(|s| format!("s{s}"));
        let verdict = |v: &Option<u64>| v.map(|v| if v == 0 { patch::Verdict::Accept } else { patch::Verdict::Reject });
        match a {
            PAct::Edit(t) => A::Edit { title: format!("t{t}"), target: patch::MergeTarget::Delegates },
            PAct::Label(l) => A::Label { labels: l.iter().map(|x| label(*x)).collect() },
            PAct::Lifecycle(s) => A::Lifecycle {
                state: match s {
                    Life::Open => patch::Lifecycle::Open,
                    Life::Draft => patch::Lifecycle::Draft,
                    Life::Archived => patch::Lifecycle::Archived,
                },
            },
            PAct::Assign(l) => A::Assign { assignees: l.iter().map(|x| self.did(*x)).collect() },
            PAct::Merge(r, c) => A::Merge { revision: rev(r), commit: self.commits[*c as usize] },
            PAct::Review(r, s, v, l) => A::Review {
                revision: rev(r),
                summary: summary(s),
                verdict: verdict(v),
                labels: l.iter().map(|x| label(*x)).collect(),
            },
            PAct::ReviewEdit(r, s, v, l) => A::ReviewEdit {
                review: rvw(r),
                summary: summary(s),
                verdict: verdict(v),
                labels: l.iter().map(|x| label(*x)).collect(),
            },
            PAct::ReviewRedact(r) => A::ReviewRedact { review: rvw(r) },
            PAct::ReviewComment(r, b, rp) => A::ReviewComment {
                review: rvw(r),
                body: body(*b),
                location: None,
                reply_to: rp.map(entry_oid),
                embeds: vec![],
            },
            PAct::ReviewCommentEdit(r, c, b) => {
                A::ReviewCommentEdit { review: rvw(r), comment: entry_oid(*c), body: body(*b), embeds: vec![] }
            }
            PAct::ReviewCommentRedact(r, c) => A::ReviewCommentRedact { review: rvw(r), comment: entry_oid(*c) },
            PAct::ReviewCommentReact(r, c, x, act) => {
                A::ReviewCommentReact { review: rvw(r), comment: entry_oid(*c), reaction: reaction(*x), active: *act }
            }
            PAct::ReviewCommentResolve(r, c) => A::ReviewCommentResolve { review: rvw(r), comment: entry_oid(*c) },
            PAct::ReviewCommentUnresolve(r, c) => A::ReviewCommentUnresolve { review: rvw(r), comment: entry_oid(*c) },
            PAct::Revision(d) => A::Revision {
                description: format!("d{d}"),
                base: self.commits[1],
                oid: self.commits[2],
                resolves: BTreeSet::new(),
            },
            PAct::RevisionEdit(r, d) => A::RevisionEdit { revision: rev(r), description: format!("d{d}"), embeds: vec![] },
            PAct::RevisionRedact(r) => A::RevisionRedact { revision: rev(r) },
            PAct::RevisionComment(r, b, rp) => A::RevisionComment {
                revision: rev(r),
                location: None,
                body: body(*b),
                reply_to: rp.map(entry_oid),
                embeds: vec![],
            },
            PAct::RevisionCommentEdit(r, c, b) => {
                A::RevisionCommentEdit { revision: rev(r), comment: entry_oid(*c), body: body(*b), embeds: vec![] }
            }
            PAct::RevisionCommentRedact(r, c) => A::RevisionCommentRedact { revision: rev(r), comment: entry_oid(*c) },
            PAct::RevisionCommentReact(r, c, x, act) => {
                A::RevisionCommentReact { revision: rev(r), comment: entry_oid(*c), reaction: reaction(*x), active: *act }
            }
        }
    }

    /// A hand-built history entry: what a peer would have stored for this op.
    pub fn entry<A: serde::Serialize>(&self, id: u64, actor: u64, doc: Option<usize>, actions: &[A], ty: &cob::TypeName) -> cob::Entry {
        let contents: Vec<Vec<u8>> = actions.iter().map(|a| serde_json::to_vec(a).unwrap()).collect();
        let signer = &self.signers[actor as usize];
        let sig = signer.sign(&contents[0]);
        cob::Entry {
            id: entry_oid(id),
            revision: entry_oid(id),
            signature: radicle::crypto::ssh::ExtendedSignature::new(*signer.public_key(), sig),
            resource: doc.map(doc_oid),
            parents: vec![],
            related: vec![],
            manifest: cob::Manifest::new(ty.clone(), cob::Version::default()),
            contents: nonempty::NonEmpty::from_vec(contents).expect("ops carry at least one action"),
            timestamp: 1_700_000_000 + id,
        }
    }

    pub fn issue_entry(&self, o: &SOp<IAct>) -> cob::Entry {
        let acts: Vec<issue::Action> = o.actions.iter().map(|a| self.issue_action(a)).collect();
        self.entry(o.id, o.actor, o.doc, &acts, &issue::TYPENAME)
    }
    pub fn patch_entry(&self, o: &SOp<PAct>) -> cob::Entry {
        let acts: Vec<patch::Action> = o.actions.iter().map(|a| self.patch_action(a)).collect();
        self.entry(o.id, o.actor, o.doc, &acts, &patch::TYPENAME)
    }

    // ---------------------------------------------------------- decoding the real object

    fn thread_term(&self, t: &Value) -> String {
        let mut cs: Vec<(u64, String)> = vec![];
        for (k, c) in t["comments"].as_object().unwrap() {
            let id = entry_num(k);
            let term = if c.is_null() {
                "None".to_string()
            } else {
                let author = self.actor_num(c["author"].as_str().unwrap());
                let edits: Vec<String> = c["edits"]
                    .as_array()
                    .unwrap()
                    .iter()
                    .map(|e| format!("({}, {})", self.actor_num(e["author"].as_str().unwrap()), tok(e["body"].as_str().unwrap(), 'b')))
                    .collect();
                let mut reacts: Vec<(u64, u64)> = c["reactions"]
                    .as_array()
                    .unwrap()
                    .iter()
                    .map(|r| (self.actor_num(r[0].as_str().unwrap()), reaction_num(r[1].as_str().unwrap())))
                    .collect();
                reacts.sort();
                let reply = c.get("replyTo").and_then(|r| r.as_str()).map(entry_num);
                format!(
                    "(Some (mkComment {author} [{}] {} {} {}))",
                    edits.join("; "),
                    reacts.coq(),
                    reply.coq(),
                    c["resolved"].as_bool().unwrap().coq()
                )
            };
            cs.push((id, term));
        }
        cs.sort();
        let cs: Vec<String> = cs.into_iter().map(|(id, t)| format!("({id}, {t})")).collect();
        let tl: Vec<u64> = t["timeline"].as_array().unwrap().iter().map(|x| entry_num(x.as_str().unwrap())).collect();
        format!("(mkThread [{}] {})", cs.join("; "), tl.coq())
    }

    fn set_of<'a>(&self, v: &'a Value, f: impl Fn(&'a str) -> u64) -> Vec<u64> {
        let mut l: Vec<u64> = v.as_array().unwrap().iter().map(|x| f(x.as_str().unwrap())).collect();
        l.sort();
        l.dedup();
        l
    }

    pub fn issue_view(&self, i: &Issue) -> IssueView {
        let j = serde_json::to_value(i).unwrap();
        let assignees = self.set_of(&j["assignees"], |s| self.actor_num(s));
        let labels = self.set_of(&j["labels"], |s| tok(s, 'l'));
        let title = tok(j["title"].as_str().unwrap(), 't');
        let state = match j["state"]["status"].as_str().unwrap() {
            "open" => IState::Open,
            _ => IState::Closed(if j["state"]["reason"] == "solved" { 1 } else { 0 }),
        };
        let mut comments = BTreeMap::new();
        collect_comments(self, "t", &j["thread"], &mut comments);
        let sset = |l: &Vec<u64>| format!("[{}]", l.iter().map(|x| format!("({x}, tt)")).collect::<Vec<_>>().join("; "));
        let full = format!(
            "(mkIssue {} {title} {} {} {})",
            sset(&assignees),
            state.coq(),
            sset(&labels),
            self.thread_term(&j["thread"])
        );
        let guard = format!("(mkIGuard {} {title} {} {})", assignees.coq(), state.coq(), labels.coq());
        IssueView { assignees, labels, title, state, comments, full, guard }
    }

    pub fn patch_view(&self, p: &Patch) -> PatchView {
        let j = serde_json::to_value(p).unwrap();
        let title = tok(j["title"].as_str().unwrap(), 't');
        let author = self.actor_num(j["author"]["id"].as_str().unwrap());
        let labels = self.set_of(&j["labels"], |s| tok(s, 'l'));
        let assignees = self.set_of(&j["assignees"], |s| self.actor_num(s));
        let pair = |v: &Value| (entry_num(v[0].as_str().unwrap()), self.commit_num(v[1].as_str().unwrap()));
        let state = match j["state"]["status"].as_str().unwrap() {
            "draft" => PState::Draft,
            "archived" => PState::Archived,
            "merged" => PState::Merged(
                entry_num(j["state"]["revision"].as_str().unwrap()),
                self.commit_num(j["state"]["commit"].as_str().unwrap()),
            ),
            _ => {
                let mut c: Vec<(u64, u64)> =
                    j["state"].get("conflicts").and_then(|c| c.as_array()).map(|a| a.iter().map(pair).collect()).unwrap_or_default();
                c.sort();
                PState::Open(c)
            }
        };
        let mut merges: Vec<(u64, (u64, u64))> = j["merges"]
            .as_object()
            .unwrap()
            .iter()
            .map(|(k, m)| (self.actor_num(k), (entry_num(m["revision"].as_str().unwrap()), self.commit_num(m["commit"].as_str().unwrap()))))
            .collect();
        merges.sort();
        let mut comments = BTreeMap::new();
        let mut reviews = BTreeMap::new();
        let mut revisions = BTreeMap::new();
        let mut revs: Vec<(u64, String)> = vec![];
        for (k, r) in j["revisions"].as_object().unwrap() {
            let rid = entry_num(k);
            if r.is_null() {
                revs.push((rid, "None".into()));
                revisions.insert(rid, None);
                continue;
            }
            let rauthor = self.actor_num(r["author"]["id"].as_str().unwrap());
            let descr: Vec<(u64, u64)> = r["description"]
                .as_array()
                .unwrap()
                .iter()
                .map(|e| (self.actor_num(e["author"].as_str().unwrap()), tok(e["body"].as_str().unwrap(), 'd')))
                .collect();
            revisions.insert(rid, Some((rauthor, descr.clone())));
            collect_comments(self, &format!("r{rid}"), &r["discussion"], &mut comments);
            let mut rvs: Vec<(u64, String)> = vec![];
            for (rk, rv) in r["reviews"].as_object().unwrap() {
                let reviewer = self.actor_num(rk);
                let rvid = entry_num(rv["id"].as_str().unwrap());
                let rvauthor = self.actor_num(rv["author"]["id"].as_str().unwrap());
                let summary = rv["summary"].as_str().map(|s| tok(s, 's'));
                let verdict = rv["verdict"].as_str().map(|v| if v == "accept" { 0u64 } else { 1 });
                let rlabels: Vec<u64> = rv["labels"].as_array().unwrap().iter().map(|x| tok(x.as_str().unwrap(), 'l')).collect();
                collect_comments(self, &format!("r{rid}/v{rvid}"), &rv["comments"], &mut comments);
                reviews.insert((rid, reviewer), ReviewView { id: rvid, author: rvauthor, summary, verdict, labels: rlabels.clone() });
                rvs.push((
                    reviewer,
                    format!(
                        "(mkReview {rvid} {rvauthor} {} {} {} {})",
                        summary.coq(),
                        verdict.coq(),
                        rlabels.coq(),
                        self.thread_term(&rv["comments"])
                    ),
                ));
            }
            rvs.sort();
            let rvs: Vec<String> = rvs.into_iter().map(|(k, t)| format!("({k}, {t})")).collect();
            revs.push((
                rid,
                format!("(Some (mkRevision {rauthor} {} {} [{}]))", descr.coq(), self.thread_term(&r["discussion"]), rvs.join("; ")),
            ));
        }
        revs.sort();
        let revs: Vec<String> = revs.into_iter().map(|(k, t)| format!("({k}, {t})")).collect();
        let timeline: Vec<u64> = j["timeline"].as_array().unwrap().iter().map(|x| entry_num(x.as_str().unwrap())).collect();
        let mut index: Vec<(u64, String)> = j["reviews"]
            .as_object()
            .unwrap()
            .iter()
            .map(|(k, v)| {
                (
                    entry_num(k),
                    if v.is_null() {
                        "None".to_string()
                    } else {
                        format!("(Some ({}, {}))", entry_num(v[0].as_str().unwrap()), self.actor_num(v[1].as_str().unwrap()))
                    },
                )
            })
            .collect();
        index.sort();
        let index: Vec<String> = index.into_iter().map(|(k, t)| format!("({k}, {t})")).collect();
        let sset = |l: &Vec<u64>| format!("[{}]", l.iter().map(|x| format!("({x}, tt)")).collect::<Vec<_>>().join("; "));
        let full = format!(
            "(mkPatch {title} {author} {} {} {} [{}] {} {} [{}])",
            state.coq(),
            sset(&labels),
            merges.coq(),
            revs.join("; "),
            sset(&assignees),
            timeline.coq(),
            index.join("; ")
        );
        let guard = format!("(mkPGuard {title} {} {} {} {})", state.coq(), labels.coq(), assignees.coq(), merges.coq());
        PatchView { title, author, state, labels, assignees, merges, comments, reviews, revisions, full, guard }
    }
}

/// per-comment view: location/id -> None (redacted) | (author, edits)
pub type Comments = BTreeMap<(String, u64), Option<(u64, Vec<(u64, u64)>)>>;

fn collect_comments(w: &World, loc: &str, t: &Value, out: &mut Comments) {
    for (k, c) in t["comments"].as_object().unwrap() {
        let id = entry_num(k);
        let v = if c.is_null() {
            None
        } else {
            Some((
                w.actor_num(c["author"].as_str().unwrap()),
                c["edits"]
                    .as_array()
                    .unwrap()
                    .iter()
                    .map(|e| (w.actor_num(e["author"].as_str().unwrap()), tok(e["body"].as_str().unwrap(), 'b')))
                    .collect(),
            ))
        };
        out.insert((loc.to_string(), id), v);
    }
}

#[derive(Clone, Debug, PartialEq, Eq)]
pub enum PState {
    Draft,
    Open(Vec<(u64, u64)>),
    Archived,
    Merged(u64, u64),
}
impl Coq for PState {
    fn coq(&self) -> String {
        match self {
            PState::Draft => "PDraft".into(),
            PState::Open(c) => format!("(POpen {})", c.coq()),
            PState::Archived => "PArchived".into(),
            PState::Merged(r, c) => format!("(PMerged {r} {c})"),
        }
    }
}

#[derive(Clone, Debug)]
pub struct IssueView {
    pub assignees: Vec<u64>,
    pub labels: Vec<u64>,
    pub title: u64,
    pub state: IState,
    pub comments: Comments,
    pub full: String,
    pub guard: String,
}

#[derive(Clone, Debug, PartialEq, Eq)]
pub struct ReviewView {
    pub id: u64,
    pub author: u64,
    pub summary: Option<u64>,
    pub verdict: Option<u64>,
    pub labels: Vec<u64>,
}

#[derive(Clone, Debug)]
pub struct PatchView {
    pub title: u64,
    pub author: u64,
    pub state: PState,
    pub labels: Vec<u64>,
    pub assignees: Vec<u64>,
    pub merges: Vec<(u64, (u64, u64))>,
    pub comments: Comments,
    /// (revision, reviewer) -> review
    pub reviews: BTreeMap<(u64, u64), ReviewView>,
    /// revision -> None (redacted) | (author, description edits)
    pub revisions: BTreeMap<u64, Option<(u64, Vec<(u64, u64)>)>>,
    pub full: String,
    pub guard: String,
}

// ------------------------------------------------------------------ errors

pub fn thread_err(e: &thread::Error) -> &'static str {
    match e {
        thread::Error::Missing(_) => "EMissing",
        thread::Error::Comment(_) => "EComment",
        thread::Error::Edit(_) => "EEdit",
        thread::Error::MissingIdentity => "EDoc",
        thread::Error::Init(_) => "EInit",
        thread::Error::Op(_) => "EOpDecoding",
    }
}
pub fn issue_err(e: &issue::Error) -> &'static str {
    use issue::Error as E;
    match e {
        E::Doc(_) | E::MissingIdentity => "EDoc",
        E::Thread(t) => thread_err(t),
        E::NotAuthorized(..) => "ENotAuthorized",
        E::NotAllowed(_) => "ENotAllowed",
        E::InvalidTitle(_) => "EInvalidTitle",
        E::Init(_) => "EInit",
        E::Op(_) => "EOpDecoding",
        _ => "EOther",
    }
}
pub fn patch_err(e: &patch::Error) -> &'static str {
    use patch::Error as E;
    match e {
        E::Missing(_) => "EMissing",
        E::Thread(t) => thread_err(t),
        E::Doc(_) | E::MissingIdentity => "EDoc",
        E::EmptyReview => "EEmptyReview",
        E::Git(_) => "EGit",
        E::NotAuthorized(..) => "ENotAuthorized",
        E::NotAllowed(_) => "ENotAllowed",
        E::Init(_) => "EInit",
        E::Op(_) => "EOpDecoding",
        _ => "EOther",
    }
}

// ------------------------------------------------------------------ the repository handed to Evaluate

pub struct HarnessRepo {
    pub id: RepoId,
    pub docs: HashMap<Oid, DocAt>,
    pub git: raw::Repository,
}

impl RemoteRepository for HarnessRepo {
    fn remote(&self, _id: &RemoteId) -> Result<Remote, refs::Error> {
        unimplemented!()
    }
    fn remotes(&self) -> Result<Remotes<radicle::crypto::Verified>, refs::Error> {
        unimplemented!()
    }
    fn remote_refs_at(&self) -> Result<Vec<refs::RefsAt>, refs::Error> {
        unimplemented!()
    }
}

impl ValidateRepository for HarnessRepo {
    fn validate_remote(&self, _remote: &Remote) -> Result<Validations, StorageError> {
        unimplemented!()
    }
}

impl ReadRepository for HarnessRepo {
    fn id(&self) -> RepoId {
        self.id
    }
    fn is_empty(&self) -> Result<bool, raw::Error> {
        Ok(false)
    }
    fn head(&self) -> Result<(git::Qualified, Oid), RepositoryError> {
        unimplemented!()
    }
    fn canonical_head(&self) -> Result<(git::Qualified, Oid), RepositoryError> {
        unimplemented!()
    }
    fn path(&self) -> &std::path::Path {
        self.git.path()
    }
    fn commit(&self, oid: Oid) -> Result<raw::Commit, git::ext::Error> {
        self.git.find_commit(oid.into()).map_err(git::ext::Error::from)
    }
    fn revwalk(&self, _head: Oid) -> Result<raw::Revwalk, raw::Error> {
        unimplemented!()
    }
    fn contains(&self, oid: Oid) -> Result<bool, raw::Error> {
        Ok(self.git.find_object(oid.into(), None).is_ok())
    }
    // same call as radicle::storage::git::Repository::is_ancestor_of
    fn is_ancestor_of(&self, ancestor: Oid, head: Oid) -> Result<bool, git::ext::Error> {
        self.git.graph_descendant_of(head.into(), ancestor.into()).map_err(git::ext::Error::from)
    }
    fn blob(&self, _oid: Oid) -> Result<raw::Blob, git::ext::Error> {
        unimplemented!()
    }
    fn blob_at<P: AsRef<std::path::Path>>(&self, _oid: Oid, _path: P) -> Result<raw::Blob, git::ext::Error> {
        unimplemented!()
    }
    fn reference(&self, _remote: &RemoteId, _reference: &git::Qualified) -> Result<raw::Reference, git::ext::Error> {
        unimplemented!()
    }
    // same lookup as radicle::storage::git::Repository::reference_oid
    fn reference_oid(&self, remote: &RemoteId, reference: &git::Qualified) -> Result<Oid, raw::Error> {
        let name = reference.with_namespace(remote.into());
        let oid = self.git.refname_to_id(&name)?;
        Ok(oid.into())
    }
    fn references_of(&self, _remote: &RemoteId) -> Result<refs::Refs, StorageError> {
        unimplemented!()
    }
    fn references_glob(&self, _pattern: &git::PatternStr) -> Result<Vec<(git::Qualified, Oid)>, git::ext::Error> {
        unimplemented!()
    }
    fn identity_doc_at(&self, head: Oid) -> Result<DocAt, DocError> {
        self.docs.get(&head).cloned().ok_or(DocError::Missing)
    }
    fn identity_head(&self) -> Result<Oid, RepositoryError> {
        Ok(doc_oid(0))
    }
    fn identity_head_of(&self, _remote: &RemoteId) -> Result<Oid, git::ext::Error> {
        Ok(doc_oid(0))
    }
    fn identity_root(&self) -> Result<Oid, RepositoryError> {
        Ok(doc_oid(0))
    }
    fn identity_root_of(&self, _remote: &RemoteId) -> Result<Oid, RepositoryError> {
        Ok(doc_oid(0))
    }
    fn canonical_identity_head(&self) -> Result<Oid, RepositoryError> {
        Ok(doc_oid(0))
    }
    fn merge_base(&self, _left: &Oid, _right: &Oid) -> Result<Oid, git::ext::Error> {
        unimplemented!()
    }
}

// ------------------------------------------------------------------ execution

pub enum Outcome {
    Ok,
    Err(&'static str),
    Panic(String),
}

pub fn issue_init(w: &World, o: &SOp<IAct>) -> Result<Issue, Outcome> {
    let e = w.issue_entry(o);
    match catch(std::panic::AssertUnwindSafe(|| <Issue as Evaluate<HarnessRepo>>::init(&e, &w.repo))) {
        Ok(Ok(i)) => Ok(i),
        Ok(Err(e)) => Err(Outcome::Err(issue_err(&e))),
        Err(p) => Err(Outcome::Panic(p)),
    }
}
pub fn issue_apply(w: &World, i: &mut Issue, o: &SOp<IAct>) -> Outcome {
    let e = w.issue_entry(o);
    match catch(std::panic::AssertUnwindSafe(|| i.apply(&e, std::iter::empty(), &w.repo))) {
        Ok(Ok(())) => Outcome::Ok,
        Ok(Err(e)) => Outcome::Err(issue_err(&e)),
        Err(p) => Outcome::Panic(p),
    }
}
pub fn patch_init(w: &World, o: &SOp<PAct>) -> Result<Patch, Outcome> {
    let e = w.patch_entry(o);
    match catch(std::panic::AssertUnwindSafe(|| <Patch as Evaluate<HarnessRepo>>::init(&e, &w.repo))) {
        Ok(Ok(i)) => Ok(i),
        Ok(Err(e)) => Err(Outcome::Err(patch_err(&e))),
        Err(p) => Err(Outcome::Panic(p)),
    }
}
pub fn patch_apply(w: &World, p: &mut Patch, o: &SOp<PAct>) -> Outcome {
    let e = w.patch_entry(o);
    match catch(std::panic::AssertUnwindSafe(|| p.apply(&e, std::iter::empty(), &w.repo))) {
        Ok(Ok(())) => Outcome::Ok,
        Ok(Err(e)) => Outcome::Err(patch_err(&e)),
        Err(p) => Outcome::Panic(p),
    }
}

/// Does a rejected op leave the effects of its earlier actions behind?
/// Measured on the compiled code (an op `[Edit ok; <failing action>]`).
pub fn probe_atomic(w: &mut World) -> (bool, bool) {
    w.install(&[SDoc { delegates: vec![0], threshold: 1 }], &vec![None; N_ACTORS]);
    let root = SOp { id: 1, actor: 1, doc: Some(0), actions: vec![IAct::Comment(1, None), IAct::Edit(1, false)] };
    let mut i = issue_init(w, &root).ok().expect("probe issue");
    let o = SOp { id: 2, actor: 1, doc: Some(0), actions: vec![IAct::Edit(2, false), IAct::Edit(3, true)] };
    assert!(matches!(issue_apply(w, &mut i, &o), Outcome::Err("EInvalidTitle")));
    let issue_atomic = w.issue_view(&i).title == 1;
    let root = SOp { id: 1, actor: 1, doc: Some(0), actions: vec![PAct::Revision(1), PAct::Edit(1)] };
    let mut p = patch_init(w, &root).ok().expect("probe patch");
    let o = SOp { id: 2, actor: 1, doc: Some(0), actions: vec![PAct::Edit(2), PAct::RevisionRedact(1)] };
    assert!(matches!(patch_apply(w, &mut p, &o), Outcome::Err("ENotAllowed")));
    let patch_atomic = w.patch_view(&p).title == 1;
    (issue_atomic, patch_atomic)
}

pub fn json_ops<A: std::fmt::Debug>(root: &SOp<A>, ops: &[SOp<A>]) -> Value {
    let f = |o: &SOp<A>| json!({"id": o.id, "actor": o.actor, "doc": o.doc, "actions": o.actions.iter().map(|a| format!("{a:?}")).collect::<Vec<_>>()});
    json!({"root": f(root), "ops": ops.iter().map(f).collect::<Vec<_>>()})
}

// ------------------------------------------------------------------ case generation

pub struct Setup {
    pub docs: Vec<SDoc>,
    pub heads: Vec<Option<u64>>,
    pub author: u64,
}

pub fn gen_setup(rng: &mut Rng) -> Setup {
    let mut pool: Vec<u64> = (0..5).collect();
    rng.shuffle(&mut pool);
    let n = rng.range(1, 4) as usize;
    let delegates: Vec<u64> = pool[..n].to_vec();
    let threshold = rng.range(1, n as u64);
    let mut docs = vec![SDoc { delegates: delegates.clone(), threshold }];
    if rng.chance(3, 10) {
        // a second identity document: some op may refer to it instead
        let mut d2 = delegates.clone();
        if d2.len() > 1 && rng.bool() {
            d2.remove(rng.below(d2.len() as u64) as usize);
        }
        if rng.bool() {
            let extra = rng.below(N_ACTORS as u64);
            if !d2.contains(&extra) {
                d2.push(extra);
            }
        }
        let t2 = rng.range(1, d2.len() as u64);
        docs.push(SDoc { delegates: d2, threshold: t2 });
    }
    let heads = (0..N_ACTORS)
        .map(|_| if rng.chance(1, 10) { None } else { Some(*rng.pick(&[2u64, 3, 3, 4, 4, 4, 6, 6, 7])) })
        .collect();
    let author = rng.below(N_ACTORS as u64);
    Setup { docs, heads, author }
}

fn pick_doc(rng: &mut Rng, ndocs: usize) -> Option<usize> {
    let r = rng.below(100);
    if r < 3 {
        None
    } else if r < 5 {
        Some(99)
    } else if ndocs > 1 && r < 25 {
        Some(1)
    } else {
        Some(0)
    }
}

fn subset(rng: &mut Rng, universe: u64, max: u64) -> Vec<u64> {
    let n = rng.below(max + 1);
    let mut s: Vec<u64> = (0..n).map(|_| rng.below(universe)).collect();
    s.sort();
    s.dedup();
    s
}

/// who acts: the owner of the target, a delegate, or anybody
fn pick_actor(rng: &mut Rng, owner: Option<u64>, delegates: &[u64], p_owner: u64, p_delegate: u64) -> u64 {
    let r = rng.below(100);
    match owner {
        Some(o) if r < p_owner => o,
        _ if r < p_owner + p_delegate => *rng.pick(delegates),
        _ => rng.below(N_ACTORS as u64),
    }
}

fn pick_id(rng: &mut Rng, known: &[(u64, u64)]) -> (u64, Option<u64>) {
    if known.is_empty() || rng.chance(1, 20) {
        (900 + rng.below(5), None)
    } else {
        let (id, owner) = *rng.pick(known);
        (id, Some(owner))
    }
}

// ------------------------------------------------------------------ issues

pub struct IssueGen {
    pub next_id: u64,
    /// (comment id, author)
    pub comments: Vec<(u64, u64)>,
}

pub fn gen_issue_root(rng: &mut Rng, s: &Setup) -> SOp<IAct> {
    let mut actions = vec![IAct::Comment(if rng.chance(1, 30) { 0 } else { 1 }, None)];
    if rng.chance(1, 40) {
        actions[0] = IAct::Comment(1, Some(1));
    }
    if rng.chance(4, 5) {
        actions.push(IAct::Edit(1, rng.chance(1, 30)));
    }
    if rng.chance(1, 4) {
        actions.push(IAct::Label(subset(rng, 4, 2)));
    }
    if rng.chance(1, 5) {
        actions.push(IAct::Assign(subset(rng, N_ACTORS as u64, 2)));
    }
    if rng.chance(1, 12) {
        actions.push(IAct::Comment(2, Some(1)));
    }
    SOp { id: 1, actor: s.author, doc: if rng.chance(1, 40) { None } else { Some(0) }, actions }
}

fn gen_issue_action(rng: &mut Rng, g: &IssueGen, s: &Setup, cur: &IssueView, delegates: &[u64]) -> (IAct, u64) {
    let any = |rng: &mut Rng| rng.below(N_ACTORS as u64);
    match rng.below(100) {
        0..=9 => {
            let actor = pick_actor(rng, None, delegates, 0, 60);
            let l = if rng.chance(2, 5) { cur.assignees.clone() } else { subset(rng, N_ACTORS as u64, 2) };
            (IAct::Assign(l), actor)
        }
        10..=19 => {
            let actor = pick_actor(rng, None, delegates, 0, 60);
            let l = if rng.chance(2, 5) { cur.labels.clone() } else { subset(rng, 4, 2) };
            (IAct::Label(l), actor)
        }
        20..=29 => (IAct::Edit(rng.range(2, 9), rng.chance(1, 15)), pick_actor(rng, Some(s.author), delegates, 40, 30)),
        30..=39 => {
            let st = match rng.below(3) {
                0 => IState::Open,
                1 => IState::Closed(0),
                _ => IState::Closed(1),
            };
            (IAct::Lifecycle(st), pick_actor(rng, Some(s.author), delegates, 40, 30))
        }
        40..=57 => {
            let reply = if rng.chance(1, 10) { None } else { Some(pick_id(rng, &g.comments).0) };
            (IAct::Comment(if rng.chance(1, 25) { 0 } else { rng.range(1, 9) }, reply), any(rng))
        }
        58..=75 => {
            let (id, owner) = pick_id(rng, &g.comments);
            (IAct::CommentEdit(id, if rng.chance(1, 25) { 0 } else { rng.range(1, 9) }), pick_actor(rng, owner, delegates, 45, 20))
        }
        76..=89 => {
            let (id, owner) = pick_id(rng, &g.comments);
            (IAct::CommentRedact(id), pick_actor(rng, owner, delegates, 45, 20))
        }
        _ => {
            let (id, _) = pick_id(rng, &g.comments);
            (IAct::CommentReact(id, rng.below(3), rng.chance(3, 4)), any(rng))
        }
    }
}

pub fn gen_issue_op(rng: &mut Rng, g: &mut IssueGen, s: &Setup, cur: &IssueView) -> SOp<IAct> {
    let doc = pick_doc(rng, s.docs.len());
    let delegates = match doc {
        Some(k) if k < s.docs.len() => s.docs[k].delegates.clone(),
        _ => s.docs[0].delegates.clone(),
    };
    let id = g.next_id;
    g.next_id += 1;
    let (first, actor) = gen_issue_action(rng, g, s, cur, &delegates);
    let mut actions = vec![first];
    if rng.chance(1, 8) {
        let extra = rng.range(1, 2);
        for _ in 0..extra {
            actions.push(gen_issue_action(rng, g, s, cur, &delegates).0);
        }
    }
    SOp { id, actor, doc, actions }
}

/// Remember the ids an accepted op created (targets for later actions).
pub fn register_issue_op(g: &mut IssueGen, o: &SOp<IAct>) {
    if o.actions.iter().any(|a| matches!(a, IAct::Comment(..))) {
        g.comments.push((o.id, o.actor));
    }
}

// ------------------------------------------------------------------ patches

pub struct PatchGen {
    pub next_id: u64,
    pub revisions: Vec<(u64, u64)>,
    pub reviews: Vec<(u64, u64)>,
    /// (revision, comment id, author)
    pub rev_comments: Vec<(u64, u64, u64)>,
    /// (review id, comment id, author)
    pub review_comments: Vec<(u64, u64, u64)>,
    /// the (revision, commit) most merges of this case agree on
    pub main: (u64, u64),
    /// actors that already issued a Merge of `main`
    pub main_backers: Vec<u64>,
    pub merge_focus: bool,
}

pub fn gen_patch_root(rng: &mut Rng, s: &Setup) -> SOp<PAct> {
    let mut actions = vec![PAct::Revision(1), PAct::Edit(1)];
    if rng.chance(1, 40) {
        actions.swap(0, 1);
    }
    if rng.chance(1, 6) {
        actions.push(PAct::Lifecycle(Life::Draft));
    }
    if rng.chance(1, 6) {
        actions.push(PAct::Label(subset(rng, 4, 2)));
    }
    if rng.chance(1, 8) {
        actions.push(PAct::Assign(subset(rng, N_ACTORS as u64, 2)));
    }
    if rng.chance(1, 8) {
        actions.push(PAct::Merge(1, rng.range(1, 4)));
    }
    if rng.chance(1, 10) {
        actions.push(PAct::RevisionComment(1, 1, None));
    }
    SOp { id: 1, actor: s.author, doc: if rng.chance(1, 40) { None } else { Some(0) }, actions }
}

fn text(rng: &mut Rng) -> u64 {
    if rng.chance(1, 25) { 0 } else { rng.range(1, 9) }
}

fn gen_patch_action(rng: &mut Rng, g: &PatchGen, s: &Setup, cur: &PatchView, delegates: &[u64]) -> (PAct, u64) {
    let any = |rng: &mut Rng| rng.below(N_ACTORS as u64);
    // weights: general stream vs merge-focused stream
    const KINDS: usize = 21;
    let wg: [u64; KINDS] = [6, 8, 6, 6, 8, 8, 5, 4, 6, 5, 4, 3, 2, 2, 6, 5, 4, 8, 6, 5, 3];
    let wm: [u64; KINDS] = [2, 2, 16, 2, 50, 2, 1, 1, 1, 1, 1, 0, 0, 0, 8, 1, 8, 2, 1, 1, 0];
    let w = if g.merge_focus { wm } else { wg };
    let total: u64 = w.iter().sum();
    let mut r = rng.below(total);
    let mut kind = 0;
    for (i, x) in w.iter().enumerate() {
        if r < *x {
            kind = i;
            break;
        }
        r -= x;
    }
    // without a target of the needed kind, mostly create one instead of aiming at nothing
    if rng.chance(9, 10) {
        if (9..=13).contains(&kind) && g.review_comments.is_empty() {
            kind = 8;
        }
        if (6..=13).contains(&kind) && g.reviews.is_empty() {
            kind = 5;
        }
        if (18..=20).contains(&kind) && g.rev_comments.is_empty() {
            kind = 17;
        }
    }
    let rev = |rng: &mut Rng| pick_id(rng, &g.revisions);
    let rvw = |rng: &mut Rng| pick_id(rng, &g.reviews);
    let rev_comment = |rng: &mut Rng| -> (u64, u64, Option<u64>) {
        if g.rev_comments.is_empty() || rng.chance(1, 15) {
            let (r, _) = pick_id(rng, &g.revisions);
            (r, 900 + rng.below(5), None)
        } else {
            let (r, c, a) = *rng.pick(&g.rev_comments);
            if rng.chance(1, 15) { (pick_id(rng, &g.revisions).0, c, Some(a)) } else { (r, c, Some(a)) }
        }
    };
    let review_comment = |rng: &mut Rng| -> (u64, u64, Option<u64>) {
        if g.review_comments.is_empty() || rng.chance(1, 15) {
            let (r, _) = pick_id(rng, &g.reviews);
            (r, 900 + rng.below(5), None)
        } else {
            let (r, c, a) = *rng.pick(&g.review_comments);
            if rng.chance(1, 15) { (pick_id(rng, &g.reviews).0, c, Some(a)) } else { (r, c, Some(a)) }
        }
    };
    let opt_tok = |rng: &mut Rng| if rng.chance(1, 3) { None } else { Some(rng.range(1, 5)) };
    match kind {
        0 => (PAct::Edit(rng.range(2, 9)), pick_actor(rng, Some(s.author), delegates, 40, 30)),
        1 => {
            let l = if rng.chance(2, 5) { cur.labels.clone() } else { subset(rng, 4, 2) };
            (PAct::Label(l), pick_actor(rng, None, delegates, 0, 60))
        }
        2 => {
            let st = *rng.pick(&[Life::Open, Life::Draft, Life::Archived]);
            (PAct::Lifecycle(st), pick_actor(rng, Some(s.author), delegates, 40, 35))
        }
        3 => {
            let l = if rng.chance(1, 4) { cur.assignees.clone() } else { subset(rng, N_ACTORS as u64, 2) };
            (PAct::Assign(l), pick_actor(rng, None, delegates, 0, 60))
        }
        4 => {
            let (r, c) = if rng.chance(3, 5) {
                g.main
            } else if rng.chance(1, 2) {
                (g.main.0, rng.range(1, N_COMMITS))
            } else {
                (rev(rng).0, rng.range(1, N_COMMITS))
            };
            let fresh: Vec<u64> = delegates.iter().copied().filter(|d| !g.main_backers.contains(d)).collect();
            let actor = if (r, c) == g.main && !fresh.is_empty() && rng.chance(7, 10) {
                *rng.pick(&fresh)
            } else {
                pick_actor(rng, None, delegates, 0, 85)
            };
            (PAct::Merge(r, c), actor)
        }
        5 => (PAct::Review(rev(rng).0, opt_tok(rng), opt_tok(rng).map(|v| v % 2), subset(rng, 4, 1)), any(rng)),
        6 => {
            let (r, o) = rvw(rng);
            (PAct::ReviewEdit(r, opt_tok(rng), opt_tok(rng).map(|v| v % 2), subset(rng, 4, 1)), pick_actor(rng, o, delegates, 50, 20))
        }
        7 => {
            let (r, o) = rvw(rng);
            (PAct::ReviewRedact(r), pick_actor(rng, o, delegates, 50, 20))
        }
        8 => {
            let reply = if rng.chance(1, 2) || g.review_comments.is_empty() { None } else { Some(rng.pick(&g.review_comments).1) };
            (PAct::ReviewComment(rvw(rng).0, text(rng), reply), any(rng))
        }
        9 => {
            let (r, c, o) = review_comment(rng);
            (PAct::ReviewCommentEdit(r, c, text(rng)), pick_actor(rng, o, delegates, 45, 20))
        }
        10 => {
            let (r, c, o) = review_comment(rng);
            (PAct::ReviewCommentRedact(r, c), pick_actor(rng, o, delegates, 45, 20))
        }
        11 => {
            let (r, c, _) = review_comment(rng);
            (PAct::ReviewCommentReact(r, c, rng.below(3), rng.chance(3, 4)), any(rng))
        }
        12 => {
            let (r, c, o) = review_comment(rng);
            (PAct::ReviewCommentResolve(r, c), pick_actor(rng, o, delegates, 40, 20))
        }
        13 => {
            let (r, c, o) = review_comment(rng);
            (PAct::ReviewCommentUnresolve(r, c), pick_actor(rng, o, delegates, 40, 20))
        }
        14 => (PAct::Revision(rng.range(1, 9)), pick_actor(rng, Some(s.author), delegates, 40, 10)),
        15 => {
            let (r, o) = rev(rng);
            (PAct::RevisionEdit(r, rng.range(1, 9)), pick_actor(rng, o, delegates, 45, 20))
        }
        16 => {
            let (r, o) = rev(rng);
            (PAct::RevisionRedact(r), pick_actor(rng, o, delegates, 50, 25))
        }
        17 => {
            let reply = if rng.chance(1, 2) || g.rev_comments.is_empty() { None } else { Some(rng.pick(&g.rev_comments).1) };
            (PAct::RevisionComment(rev(rng).0, text(rng), reply), any(rng))
        }
        18 => {
            let (r, c, o) = rev_comment(rng);
            (PAct::RevisionCommentEdit(r, c, text(rng)), pick_actor(rng, o, delegates, 45, 20))
        }
        19 => {
            let (r, c, o) = rev_comment(rng);
            (PAct::RevisionCommentRedact(r, c), pick_actor(rng, o, delegates, 45, 20))
        }
        _ => {
            let (r, c, _) = rev_comment(rng);
            (PAct::RevisionCommentReact(r, c, rng.below(3), rng.chance(3, 4)), any(rng))
        }
    }
}

pub fn gen_patch_op(rng: &mut Rng, g: &mut PatchGen, s: &Setup, cur: &PatchView) -> SOp<PAct> {
    let doc = pick_doc(rng, s.docs.len());
    let delegates = match doc {
        Some(k) if k < s.docs.len() => s.docs[k].delegates.clone(),
        _ => s.docs[0].delegates.clone(),
    };
    let id = g.next_id;
    g.next_id += 1;
    let (first, actor) = gen_patch_action(rng, g, s, cur, &delegates);
    let mut actions = vec![first];
    if rng.chance(1, 8) {
        let extra = rng.range(1, 2);
        for _ in 0..extra {
            actions.push(gen_patch_action(rng, g, s, cur, &delegates).0);
        }
    }
    SOp { id, actor, doc, actions }
}

/// Remember the ids an accepted op created (targets for later actions). A
/// rejected op is remembered now and then, so that dangling targets stay in
/// the mix.
pub fn register_patch_op(g: &mut PatchGen, o: &SOp<PAct>) {
    let (id, actor) = (o.id, o.actor);
    for a in &o.actions {
        match a {
            PAct::Revision(_) => g.revisions.push((id, actor)),
            PAct::Review(..) => g.reviews.push((id, actor)),
            PAct::RevisionComment(r, ..) => g.rev_comments.push((*r, id, actor)),
            PAct::ReviewComment(r, ..) => g.review_comments.push((*r, id, actor)),
            PAct::Merge(r, c) if (*r, *c) == g.main => g.main_backers.push(actor),
            _ => {}
        }
    }
}

// ------------------------------------------------------------------ tallies

pub fn iact_kind(a: &IAct) -> &'static str {
    match a {
        IAct::Assign(_) => "assign",
        IAct::Edit(..) => "edit",
        IAct::Lifecycle(_) => "lifecycle",
        IAct::Label(_) => "label",
        IAct::Comment(..) => "comment",
        IAct::CommentEdit(..) => "comment.edit",
        IAct::CommentRedact(_) => "comment.redact",
        IAct::CommentReact(..) => "comment.react",
    }
}
pub fn pact_kind(a: &PAct) -> &'static str {
    use PAct::*;
    match a {
        Edit(_) => "edit",
        Label(_) => "label",
        Lifecycle(_) => "lifecycle",
        Assign(_) => "assign",
        Merge(..) => "merge",
        Review(..) => "review",
        ReviewEdit(..) => "review.edit",
        ReviewRedact(_) => "review.redact",
        ReviewComment(..) => "review.comment",
        ReviewCommentEdit(..) => "review.comment.edit",
        ReviewCommentRedact(..) => "review.comment.redact",
        ReviewCommentReact(..) => "review.comment.react",
        ReviewCommentResolve(..) => "review.comment.resolve",
        ReviewCommentUnresolve(..) => "review.comment.unresolve",
        Revision(_) => "revision",
        RevisionEdit(..) => "revision.edit",
        RevisionRedact(_) => "revision.redact",
        RevisionComment(..) => "revision.comment",
        RevisionCommentEdit(..) => "revision.comment.edit",
        RevisionCommentRedact(..) => "revision.comment.redact",
        RevisionCommentReact(..) => "revision.comment.react",
    }
}

// ------------------------------------------------------------------ running one case

pub struct Flags {
    pub dbg: bool,
    pub issue_atomic: bool,
    pub patch_atomic: bool,
    pub check_c07: bool,
    pub check_c08: bool,
}

fn is_delegate(s: &Setup, doc: Option<usize>, actor: u64) -> bool {
    match doc {
        Some(k) if k < s.docs.len() => s.docs[k].delegates.contains(&actor),
        _ => false,
    }
}

/// C07 oracle on the comment / review / revision views (patches and issues).
fn check_comments(
    run: &mut Run, id: &str, what: &str, input: &Value, before: &Comments, after: &Comments, op_id: u64, actor: u64, privileged: bool,
    container_live: impl Fn(&str) -> bool,
) {
    for ((loc, cid), b) in before {
        if !container_live(loc) || *cid == op_id {
            continue;
        }
        match (b, after.get(&(loc.clone(), *cid))) {
            (Some((author, edits)), a) => {
                if privileged || *author == actor {
                    continue;
                }
                if a != Some(&Some((*author, edits.clone()))) {
                    run.fail(id, "c07-comment-altered-by-non-author",
                        format!("{what}: comment {cid} at {loc} by actor {author} was edited or redacted by actor {actor} (neither its author nor a delegate): {b:?} -> {a:?}"),
                        input.clone());
                }
            }
            (None, a) => {
                if a != Some(&None) {
                    run.fail(id, "c07-redaction-undone",
                        format!("{what}: redacted comment {cid} at {loc} came back: {a:?}"), input.clone());
                }
            }
        }
    }
}

pub fn run_issue_case(run: &mut Run, w: &mut World, id: &str, rng: &mut Rng, f: &Flags) {
    let s = gen_setup(rng);
    w.install(&s.docs, &s.heads);
    let root = gen_issue_root(rng, &s);
    let steps = rng.range(4, 18);
    let mut ops: Vec<SOp<IAct>> = vec![];
    run.eval();
    for a in &root.actions {
        run.tally(&format!("issue/root/{}", iact_kind(a)));
    }
    let obs;
    let mut issue = match issue_init(w, &root) {
        Ok(i) => Some(i),
        Err(Outcome::Err(e)) => {
            run.tally(&format!("issue/init-err/{e}"));
            obs = format!("(IObsInitErr {e})");
            finish_issue(run, id, f, &s, &root, &ops, obs);
            return;
        }
        Err(Outcome::Panic(_)) => {
            run.tally("issue/init-panic");
            obs = "IObsInitPanic".to_string();
            finish_issue(run, id, f, &s, &root, &ops, obs);
            return;
        }
        Err(Outcome::Ok) => unreachable!(),
    };
    let mut view = w.issue_view(issue.as_ref().unwrap());
    let g0 = view.guard.clone();
    if f.check_c07 && !is_delegate(&s, root.doc, root.actor) && (!view.assignees.is_empty() || !view.labels.is_empty()) {
        run.fail(id, "c07-nondelegate-changed-guarded-set", format!("issue created by non-delegate {} has assignees {:?} labels {:?}", root.actor, view.assignees, view.labels), json_ops(&root, &ops));
    }
    let mut g = IssueGen { next_id: 2, comments: vec![(1, root.actor)] };
    let mut step_terms: Vec<String> = vec![];
    let mut panicked = false;
    for _ in 0..steps {
        let o = gen_issue_op(rng, &mut g, &s, &view);
        for a in &o.actions {
            run.tally(&format!("issue/{}", iact_kind(a)));
        }
        let privileged = is_delegate(&s, o.doc, o.actor);
        let out = issue_apply(w, issue.as_mut().unwrap(), &o);
        if matches!(out, Outcome::Ok) || rng.chance(1, 6) {
            register_issue_op(&mut g, &o);
        }
        ops.push(o.clone());
        let input = json_ops(&root, &ops);
        match out {
            Outcome::Panic(p) => {
                run.tally("issue/op-panic");
                run.nontrivial(format!("issue-panic:{}", p.chars().take(60).collect::<String>()));
                step_terms.push("ISPanic".into());
                panicked = true;
                break;
            }
            Outcome::Ok | Outcome::Err(_) => {}
        }
        let after = w.issue_view(issue.as_ref().unwrap());
        match &out {
            Outcome::Ok => {
                run.tally(if privileged { "issue/op-ok/delegate" } else if o.actor == s.author { "issue/op-ok/author" } else { "issue/op-ok/other" });
                step_terms.push(format!("(ISOk {})", after.guard));
            }
            Outcome::Err(e) => {
                run.tally(&format!("issue/op-err/{e}"));
                step_terms.push(format!("(ISErr {e} {})", after.guard));
            }
            _ => {}
        }
        if f.check_c07 {
            let what = format!("issue op {} by actor {} (delegate of its doc: {privileged})", o.id, o.actor);
            if !privileged && (after.assignees != view.assignees || after.labels != view.labels) {
                run.fail(id, "c07-nondelegate-changed-guarded-set",
                    format!("{what}: assignees {:?} -> {:?}, labels {:?} -> {:?}", view.assignees, after.assignees, view.labels, after.labels), input.clone());
            }
            if !privileged && o.actor != s.author && (after.title != view.title || after.state != view.state) {
                run.fail(id, "c07-stranger-changed-title-or-state",
                    format!("{what}, issue author {}: title {} -> {}, state {:?} -> {:?}", s.author, view.title, after.title, view.state, after.state), input.clone());
            }
            check_comments(run, id, &what, &input, &view.comments, &after.comments, o.id, o.actor, privileged, |_| true);
        }
        if matches!(out, Outcome::Ok) && !privileged {
            if o.actions.iter().any(|a| matches!(a, IAct::Assign(_) | IAct::Label(_))) {
                run.tally("issue/noop-assign-or-label-by-non-delegate-accepted");
            }
        }
        view = after;
    }
    let final_term = if panicked { "None".to_string() } else { format!("(Some {})", view.full) };
    run.nontrivial(format!("issue:{}:{}", step_terms.len(), view.full.len()));
    obs = format!("(IObsRun {g0} [{}] {final_term})", step_terms.join("; "));
    finish_issue(run, id, f, &s, &root, &ops, obs);
}

fn finish_issue(run: &mut Run, id: &str, f: &Flags, s: &Setup, root: &SOp<IAct>, ops: &[SOp<IAct>], obs: String) {
    let ops_t: Vec<String> = ops.iter().map(|o| op_coq(o, &s.docs)).collect();
    let case = format!("(CIssue (mkICase {} {} {} [{}]))", f.dbg.coq(), f.issue_atomic.coq(), op_coq(root, &s.docs), ops_t.join("; "));
    run.sample(json!({"kind": "issue", "docs": s.docs.iter().map(|d| json!({"delegates": d.delegates, "threshold": d.threshold})).collect::<Vec<_>>(), "author": s.author, "history": json_ops(root, ops)}));
    run.case(id, case, format!("(OIssue {obs})"));
}

pub fn run_patch_case(run: &mut Run, w: &mut World, id: &str, rng: &mut Rng, f: &Flags, merge_focus: bool) {
    let s = gen_setup(rng);
    w.install(&s.docs, &s.heads);
    let root = gen_patch_root(rng, &s);
    let steps = rng.range(4, 20);
    let mut ops: Vec<SOp<PAct>> = vec![];
    run.eval();
    let tag = if merge_focus { "patchM" } else { "patch" };
    for a in &root.actions {
        run.tally(&format!("{tag}/root/{}", pact_kind(a)));
    }
    let orc = w.orc_table();
    let setup_json = json!({"docs": s.docs.iter().map(|d| json!({"delegates": d.delegates, "threshold": d.threshold})).collect::<Vec<_>>(), "heads": s.heads, "author": s.author});
    let mut patch = match patch_init(w, &root) {
        Ok(p) => p,
        Err(Outcome::Err(e)) => {
            run.tally(&format!("{tag}/init-err/{e}"));
            finish_patch(run, id, f, &s, &orc, &root, &ops, format!("(PObsInitErr {e})"));
            return;
        }
        Err(_) => {
            run.tally(&format!("{tag}/init-panic"));
            finish_patch(run, id, f, &s, &orc, &root, &ops, "PObsInitPanic".to_string());
            return;
        }
    };
    let mut view = w.patch_view(&patch);
    let g0 = view.guard.clone();
    // log of Merge actions seen so far: (actor, revision, commit, actor is delegate of the op's doc, commit on actor's branch)
    let mut merge_log: Vec<(u64, u64, u64, bool, bool)> = vec![];
    let log_merges = |w: &World, o: &SOp<PAct>, log: &mut Vec<(u64, u64, u64, bool, bool)>| {
        for a in &o.actions {
            if let PAct::Merge(r, c) = a {
                log.push((o.actor, *r, *c, is_delegate(&s, o.doc, o.actor), w.branch_answer(o.actor, *c) == "BrOk"));
            }
        }
    };
    log_merges(w, &root, &mut merge_log);
    let backed = |log: &[(u64, u64, u64, bool, bool)], k: u64, r: u64, c: u64| log.iter().any(|m| *m == (k, r, c, true, true));
    let check_merges = |run: &mut Run, what: &str, input: Value, v: &PatchView, log: &[(u64, u64, u64, bool, bool)]| {
        for (k, (r, c)) in &v.merges {
            if !backed(log, *k, *r, *c) {
                run.fail(id, "c08-merge-not-backed",
                    format!("{what}: merges[{k}] = (revision {r}, commit {c}) but actor {k} never issued Merge({r},{c}) as a delegate of the op's document with the commit on its default branch"), input.clone());
            }
        }
    };
    // Recount when the patch newly reports Merged(r, c): distinct actors that issued Merge(r, c) as a
    // delegate of their op's document with the commit on their branch, in the history so far. (The
    // report is sticky by design: a delegate that later replaces its merge does not un-merge the patch,
    // so the current table may hold fewer entries of the pair; that case is tallied as an observation.)
    let check_merged = |run: &mut Run, what: &str, input: Value, v: &PatchView, thr: Option<u64>, log: &[(u64, u64, u64, bool, bool)]| {
        if let PState::Merged(r, c) = v.state {
            let backers: BTreeSet<u64> = log.iter().filter(|m| (m.1, m.2, m.3, m.4) == (r, c, true, true)).map(|m| m.0).collect();
            let n = backers.len() as u64;
            let current = v.merges.iter().filter(|(_, rc)| *rc == (r, c)).count() as u64;
            match thr {
                Some(t) if n >= t => {
                    if current < t {
                        run.tally("observation/merged-while-table-holds-fewer-than-threshold");
                    }
                }
                _ => run.fail(id, "c08-merged-below-threshold",
                    format!("{what}: state became Merged(revision {r}, commit {c}) but only {n} distinct delegates ({backers:?}) ever issued an on-branch Merge of that pair ({current} in the table now); threshold of the op's document: {thr:?}"), input),
            }
        }
    };
    let root_priv = is_delegate(&s, root.doc, root.actor);
    if f.check_c07 && !root_priv && (!view.assignees.is_empty() || !view.labels.is_empty() || !view.merges.is_empty()) {
        run.fail(id, "c07-nondelegate-changed-guarded-set", format!("patch created by non-delegate {} has assignees {:?} labels {:?} merges {:?}", root.actor, view.assignees, view.labels, view.merges), json!({"setup": setup_json, "history": json_ops(&root, &ops)}));
    }
    if f.check_c08 {
        let input = json!({"setup": setup_json, "history": json_ops(&root, &ops)});
        check_merges(run, "root op", input.clone(), &view, &merge_log);
        check_merged(run, "root op", input, &view, root.doc.and_then(|k| s.docs.get(k)).map(|d| d.threshold), &merge_log);
    }
    let main_rev = 1;
    let mut g = PatchGen {
        next_id: 2,
        revisions: vec![(1, root.actor)],
        reviews: vec![],
        rev_comments: if root.actions.iter().any(|a| matches!(a, PAct::RevisionComment(..))) { vec![(1, 1, root.actor)] } else { vec![] },
        review_comments: vec![],
        main: (main_rev, if rng.chance(3, 5) { rng.range(1, 2) } else { rng.range(1, 5) }),
        main_backers: vec![],
        merge_focus,
    };
    let mut step_terms: Vec<String> = vec![];
    let mut panicked = false;
    let mut reached_merged = false;
    for step in 0..steps {
        if merge_focus && step == 3 && g.revisions.len() > 1 && rng.bool() {
            g.main.0 = g.revisions[g.revisions.len() - 1].0;
            g.main_backers.clear();
        }
        let o = gen_patch_op(rng, &mut g, &s, &view);
        for a in &o.actions {
            run.tally(&format!("{tag}/{}", pact_kind(a)));
        }
        let privileged = is_delegate(&s, o.doc, o.actor);
        log_merges(w, &o, &mut merge_log);
        let out = patch_apply(w, &mut patch, &o);
        if matches!(out, Outcome::Ok) || rng.chance(1, 6) {
            register_patch_op(&mut g, &o);
        }
        ops.push(o.clone());
        let input = json!({"setup": setup_json, "history": json_ops(&root, &ops)});
        if let Outcome::Panic(p) = &out {
            run.tally(&format!("{tag}/op-panic"));
            run.nontrivial(format!("patch-panic:{}", p.chars().take(60).collect::<String>()));
            step_terms.push("PSPanic".into());
            panicked = true;
            break;
        }
        let after = w.patch_view(&patch);
        match &out {
            Outcome::Ok => {
                run.tally(&format!("{tag}/op-ok/{}", if privileged { "delegate" } else if o.actor == s.author { "author" } else { "other" }));
                step_terms.push(format!("(PSOk {})", after.guard));
            }
            Outcome::Err(e) => {
                run.tally(&format!("{tag}/op-err/{e}"));
                step_terms.push(format!("(PSErr {e} {})", after.guard));
            }
            _ => {}
        }
        let what = format!("patch op {} by actor {} (delegate of its doc: {privileged})", o.id, o.actor);
        if f.check_c07 {
            if !privileged && (after.assignees != view.assignees || after.labels != view.labels || after.merges != view.merges) {
                run.fail(id, "c07-nondelegate-changed-guarded-set",
                    format!("{what}: assignees {:?} -> {:?}, labels {:?} -> {:?}, merges {:?} -> {:?}", view.assignees, after.assignees, view.labels, after.labels, view.merges, after.merges), input.clone());
            }
            if !privileged && o.actor != view.author && (after.title != view.title || after.state != view.state) {
                run.fail(id, "c07-stranger-changed-title-or-state",
                    format!("{what}, patch author {}: title {} -> {}, state {:?} -> {:?}", view.author, view.title, after.title, view.state, after.state), input.clone());
            }
            if after.author != view.author {
                run.fail(id, "c07-author-changed", format!("{what}: patch author {} -> {}", view.author, after.author), input.clone());
            }
            // revisions: edited / redacted only by their author or a delegate
            for (rid, b) in &view.revisions {
                if *rid == o.id {
                    continue;
                }
                match b {
                    Some((author, descr)) => {
                        if !privileged && *author != o.actor && after.revisions.get(rid) != Some(&Some((*author, descr.clone()))) {
                            run.fail(id, "c07-revision-altered-by-non-author",
                                format!("{what}: revision {rid} by actor {author}: {b:?} -> {:?}", after.revisions.get(rid)), input.clone());
                        }
                    }
                    None => {
                        if after.revisions.get(rid) != Some(&None) {
                            run.fail(id, "c07-redaction-undone", format!("{what}: redacted revision {rid} came back"), input.clone());
                        }
                    }
                }
            }
            // reviews (of revisions that are still live)
            for ((rid, reviewer), b) in &view.reviews {
                if !matches!(after.revisions.get(rid), Some(Some(_))) {
                    continue;
                }
                if !privileged && b.author != o.actor && after.reviews.get(&(*rid, *reviewer)) != Some(b) {
                    run.fail(id, "c07-review-altered-by-non-author",
                        format!("{what}: review of revision {rid} by actor {}: {b:?} -> {:?}", b.author, after.reviews.get(&(*rid, *reviewer))), input.clone());
                }
            }
            // comments in revision discussions and review threads whose container is still there
            let live = |loc: &str| -> bool {
                let mut it = loc[1..].split("/v");
                let rid: u64 = it.next().unwrap().parse().unwrap();
                if !matches!(after.revisions.get(&rid), Some(Some(_))) {
                    return false;
                }
                match it.next() {
                    Some(rv) => {
                        let rvid: u64 = rv.parse().unwrap();
                        after.reviews.iter().any(|((r, _), v)| *r == rid && v.id == rvid)
                    }
                    None => true,
                }
            };
            check_comments(run, id, &what, &input, &view.comments, &after.comments, o.id, o.actor, privileged, live);
        }
        if f.check_c08 {
            check_merges(run, &what, input.clone(), &after, &merge_log);
            if after.state != view.state {
                check_merged(run, &what, input.clone(), &after, o.doc.and_then(|k| s.docs.get(k)).map(|d| d.threshold), &merge_log);
            }
            if let PState::Merged(..) = view.state {
                let has_merge = o.actions.iter().any(|a| matches!(a, PAct::Merge(..)));
                if !has_merge && after.state != view.state {
                    run.fail(id, "c08-merged-patch-moved-without-merge",
                        format!("{what}: state {:?} -> {:?} by an op without Merge actions", view.state, after.state), input.clone());
                }
                if o.actions.iter().any(|a| matches!(a, PAct::Lifecycle(_))) {
                    run.tally(&format!("{tag}/lifecycle-on-merged"));
                }
                if has_merge && after.state != view.state {
                    run.tally(&format!("{tag}/observation/merged-patch-moved-by-later-merge"));
                }
            }
        }
        match (&view.state, &after.state) {
            (a, b) if a == b => {}
            (_, PState::Merged(..)) => {
                reached_merged = true;
                run.tally(&format!("{tag}/became-merged"));
                let thr = o.doc.and_then(|k| s.docs.get(k)).map(|d| d.threshold).unwrap_or(0);
                run.tally(&format!("{tag}/became-merged/threshold-{thr}"));
            }
            (_, PState::Open(c)) if !c.is_empty() => run.tally(&format!("{tag}/became-conflicted")),
            _ => run.tally(&format!("{tag}/state-changed")),
        }
        if after.merges != view.merges {
            run.tally(&format!("{tag}/merge-recorded"));
        } else if matches!(out, Outcome::Ok) && o.actions.iter().any(|a| matches!(a, PAct::Merge(..))) && privileged {
            run.tally(&format!("{tag}/merge-by-delegate-skipped-or-same"));
        }
        view = after;
    }
    let _ = reached_merged;
    let final_term = if panicked { "None".to_string() } else { format!("(Some {})", view.full) };
    run.nontrivial(format!("{tag}:{}:{}:{:?}", step_terms.len(), view.full.len(), view.state));
    let obs = format!("(PObsRun {g0} [{}] {final_term})", step_terms.join("; "));
    run.sample(json!({"kind": tag, "setup": setup_json, "history": json_ops(&root, &ops)}));
    finish_patch(run, id, f, &s, &orc, &root, &ops, obs);
}

fn finish_patch(run: &mut Run, id: &str, f: &Flags, s: &Setup, orc: &str, root: &SOp<PAct>, ops: &[SOp<PAct>], obs: String) {
    let ops_t: Vec<String> = ops.iter().map(|o| op_coq(o, &s.docs)).collect();
    let case = format!(
        "(CPatch (mkPCase {} {} {orc} {} [{}]))",
        f.dbg.coq(),
        f.patch_atomic.coq(),
        op_coq(root, &s.docs),
        ops_t.join("; ")
    );
    run.case(id, case, format!("(OPatch {obs})"));
}
