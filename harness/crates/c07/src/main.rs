//! C07: issue and patch actions obey the authorization rules.
//!
//! Random multi-author issue and patch histories (delegates, object author,
//! comment/review/revision authors, strangers; several identity documents; no-op
//! label/assign; edits and redactions of other people's comments; unknown and
//! redacted targets; multi-action ops whose k-th action fails) are applied to
//! the real `Issue` / `Patch` through the public `radicle::cob::Evaluate::{init,
//! apply}` with hand-built `radicle::cob::Entry` values.
//!
//! Direct oracle (independent of the model): after every op the guarded parts
//! of the real object are compared with their value before the op — see
//! `cobsim::run_issue_case` / `run_patch_case` (`check_c07`).
//! Correspondence: the same history is evaluated by coq/model/CobIssue.v /
//! CobPatch.v; per op the outcome and the guarded scalars, at the end the whole
//! object state.
mod cobsim;
use cobsim::*;
use hw_common::*;

fn main() {
    quiet_panics();
    let mut run = Run::new(
        "C07",
        "model.CobPatch",
        "distinct (kind, number of ops applied, size of the final object state[, final patch state]) per generated history",
    );
    run.shard_size(60);
    let mut w = World::new();
    let (issue_atomic, patch_atomic) = probe_atomic(&mut w);
    run.note(format!(
        "op application measured on the compiled code: issue atomic={issue_atomic}, patch atomic={patch_atomic} (false: effects of the actions before a failing action stay); debug assertions: {}",
        cfg!(debug_assertions)
    ));
    let f = Flags { dbg: cfg!(debug_assertions), issue_atomic, patch_atomic, check_c07: true, check_c08: false };
    let seed = run.args.seed;
    let n_issue = run.args.count(220, 1500);
    let n_patch = run.args.count(260, 2000);
    for i in 0..n_issue {
        let id = format!("issue:{i}");
        if !run.args.wants(&id) {
            continue;
        }
        let mut rng = Rng::for_case(seed, 1, i);
        run_issue_case(&mut run, &mut w, &id, &mut rng, &f);
    }
    for i in 0..n_patch {
        let id = format!("patch:{i}");
        if !run.args.wants(&id) {
            continue;
        }
        let mut rng = Rng::for_case(seed, 2, i);
        run_patch_case(&mut run, &mut w, &id, &mut rng, &f, i % 4 == 3);
    }
    run.finish();
}
