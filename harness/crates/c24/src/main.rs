//! C24: node databases behave like their simple models.
//!
//! Runs random operation sequences against the real SQLite-backed stores
//! (`radicle::node::Database::memory()` for routing / repo-sync-status / refs
//! cache / gossip announcements / nodes, a file-backed policy `Store` so that the
//! raw tables can be read through a second connection), records every return
//! value and the final raw dump of every table (`ORDER BY rowid`) as a
//! correspondence case for coq/model/Stores.v, and evaluates the property's
//! invariants directly on the real tables between every two steps.
use std::collections::{BTreeMap, BTreeSet, HashMap};
use std::panic::AssertUnwindSafe;
use std::str::FromStr;

use hw_common::*;
use radicle::git::{Oid, Qualified};
use radicle::identity::RepoId;
use radicle::node::address::Store as AddressStore;
use radicle::node::policy::store::{Store as PolicyStore, Write};
use radicle::node::policy::{Policy, Scope};
use radicle::node::refs::Store as RefsStore;
use radicle::node::routing::{InsertResult, Store as RoutingStore};
use radicle::node::seed::Store as SeedStore;
use radicle::node::{Alias, Database, Features, NodeId, Timestamp, UserAgent};
use radicle::storage::refs::RefsAt;
use radicle_node::bounded::BoundedVec;
use radicle_node::service::filter::Filter;
use radicle_node::service::gossip::{RelayStatus, Store as GossipStore};
use radicle_node::service::message::{
    Announcement, AnnouncementMessage, InventoryAnnouncement, NodeAnnouncement, RefsAnnouncement,
};
use radicle_node::wire;

const I64_MAX: u64 = i64::MAX as u64;

// ---------------------------------------------------------------- universe

struct World {
    nodes: Vec<NodeId>, // index = model id; sorted by SQL text (ORDER BY node)
    node_txt: HashMap<String, u64>,
    rids: Vec<RepoId>, // model id = index + 1 (0 is the empty `repo` column)
    rid_txt: HashMap<String, u64>,
    oids: Vec<Oid>,
    oid_txt: HashMap<String, u64>,
    refnames: Vec<Qualified<'static>>,
    ref_txt: HashMap<String, u64>,
    aliases: Vec<Alias>, // model id = index + 1 (0 is '' / None)
    alias_txt: HashMap<String, u64>,
}

fn oid(i: u8) -> Oid {
    Oid::from_str(&format!("{:02x}", i).repeat(20)).unwrap()
}

impl World {
    fn new() -> Self {
        let mut nodes: Vec<NodeId> = (1..=5u8).map(|i| NodeId::from([i.wrapping_mul(37); 32])).collect();
        nodes.sort_by_key(|n| n.to_human());
        let node_txt = nodes.iter().enumerate().map(|(i, n)| (n.to_human(), i as u64)).collect();
        let rids: Vec<RepoId> = (1..=4u8).map(|i| RepoId::from(oid(i))).collect();
        let rid_txt = rids.iter().enumerate().map(|(i, r)| (r.urn(), i as u64 + 1)).collect();
        let oids: Vec<Oid> = (0..4u8).map(|i| oid(0xa0 + i)).collect();
        let oid_txt = oids.iter().enumerate().map(|(i, o)| (o.to_string(), i as u64)).collect();
        let refnames: Vec<Qualified<'static>> = ["refs/heads/master", "refs/heads/dev", "refs/rad/sigrefs"]
            .iter()
            .map(|s| Qualified::from_refstr(radicle::git::RefString::try_from(*s).unwrap()).unwrap())
            .collect();
        let ref_txt = refnames.iter().enumerate().map(|(i, r)| (r.to_string(), i as u64)).collect();
        let aliases: Vec<Alias> = ["alice", "bob", "eve"].iter().map(Alias::new).collect();
        let alias_txt = aliases.iter().enumerate().map(|(i, a)| (a.to_string(), i as u64 + 1)).collect();
        World { nodes, node_txt, rids, rid_txt, oids, oid_txt, refnames, ref_txt, aliases, alias_txt }
    }
    fn node(&self, i: u64) -> NodeId {
        self.nodes[i as usize]
    }
    fn rid(&self, i: u64) -> RepoId {
        self.rids[(i - 1) as usize]
    }
}

fn ts(v: u64) -> Timestamp {
    if v <= I64_MAX {
        Timestamp::try_from(v).unwrap()
    } else {
        Timestamp::MAX + (v - I64_MAX)
    }
}

// ---------------------------------------------------------------- operations

#[derive(Clone, Copy, Debug, PartialEq, Eq, PartialOrd, Ord)]
enum Pol {
    Allow,
    Block,
}
#[derive(Clone, Copy, Debug, PartialEq, Eq, PartialOrd, Ord)]
enum Sc {
    Followed,
    All,
}
#[derive(Clone, Copy, Debug, PartialEq, Eq)]
enum Relay {
    Relay,
    DontRelay,
    RelayedAt(u64),
}
#[derive(Clone, Copy, Debug, PartialEq, Eq)]
enum AKind {
    Inv,
    Node,
    Refs(u64),
}
impl AKind {
    fn ty(&self) -> u64 {
        match self {
            AKind::Inv => 0,
            AKind::Node => 1,
            AKind::Refs(_) => 2,
        }
    }
    fn repo(&self) -> u64 {
        match self {
            AKind::Refs(r) => *r,
            _ => 0,
        }
    }
}

#[derive(Clone, Debug)]
enum Op {
    NInsert(u64, u64),
    NRemove(u64),
    RAdd(Vec<u64>, u64, u64),
    RRemove(u64, u64),
    RRemoveMany(Vec<u64>, u64),
    RPrune(u64, Option<u64>, u64),
    REntry(u64, u64),
    RLen,
    RCount(u64),
    SSynced(u64, u64, u64, u64),
    FSet(u64, u64, u64, u64, u128),
    FGet(u64, u64, u64),
    FDelete(u64, u64, u64),
    FCount,
    PFollow(u64, u64),
    PSetFollow(u64, Pol),
    PSeed(u64, Sc),
    PSetSeed(u64, Pol),
    PUnfollow(u64),
    PUnseed(u64),
    PUnblockRid(u64),
    PUnblockNid(u64),
    PFollowPolicy(u64),
    PSeedPolicy(u64),
    GAnnounced(u64, AKind, u64, u64, u64),
    GSetRelay(u64, Relay),
    GRelays(u64),
    GPrune(u64),
    GLast,
    GFiltered(u64, u64),
}

impl Coq for Pol {
    fn coq(&self) -> String {
        format!("{:?}", self)
    }
}
impl Coq for Sc {
    fn coq(&self) -> String {
        format!("{:?}", self)
    }
}
impl Coq for Relay {
    fn coq(&self) -> String {
        match self {
            Relay::Relay => "Relay".into(),
            Relay::DontRelay => "DontRelay".into(),
            Relay::RelayedAt(t) => format!("(RelayedAt {})", t),
        }
    }
}
impl Coq for AKind {
    fn coq(&self) -> String {
        match self {
            AKind::Inv => "AInv".into(),
            AKind::Node => "ANode".into(),
            AKind::Refs(r) => format!("(ARefs {})", r),
        }
    }
}
impl Coq for Op {
    fn coq(&self) -> String {
        use Op::*;
        match self {
            NInsert(n, t) => format!("(NInsert {} {})", n, t),
            NRemove(n) => format!("(NRemove {})", n),
            RAdd(r, n, t) => format!("(RAdd {} {} {})", r.coq(), n, t),
            RRemove(r, n) => format!("(RRemove {} {})", r, n),
            RRemoveMany(r, n) => format!("(RRemoveMany {} {})", r.coq(), n),
            RPrune(o, l, i) => format!("(RPrune {} {} {})", o, l.coq(), i),
            REntry(r, n) => format!("(REntry {} {})", r, n),
            RLen => "RLen".into(),
            RCount(r) => format!("(RCount {})", r),
            SSynced(r, n, h, t) => format!("(SSynced {} {} {} {})", r, n, h, t),
            FSet(r, n, f, o, t) => format!("(FSet {} {} {} {} {})", r, n, f, o, t),
            FGet(r, n, f) => format!("(FGet {} {} {})", r, n, f),
            FDelete(r, n, f) => format!("(FDelete {} {} {})", r, n, f),
            FCount => "FCount".into(),
            PFollow(i, a) => format!("(PFollow {} {})", i, a),
            PSetFollow(i, p) => format!("(PSetFollow {} {})", i, p.coq()),
            PSeed(i, s) => format!("(PSeed {} {})", i, s.coq()),
            PSetSeed(i, p) => format!("(PSetSeed {} {})", i, p.coq()),
            PUnfollow(i) => format!("(PUnfollow {})", i),
            PUnseed(i) => format!("(PUnseed {})", i),
            PUnblockRid(i) => format!("(PUnblockRid {})", i),
            PUnblockNid(i) => format!("(PUnblockNid {})", i),
            PFollowPolicy(i) => format!("(PFollowPolicy {})", i),
            PSeedPolicy(i) => format!("(PSeedPolicy {})", i),
            GAnnounced(n, k, m, s, t) => format!("(GAnnounced {} {} {} {} {})", n, k.coq(), m, s, t),
            GSetRelay(i, r) => format!("(GSetRelay {} {})", i, r.coq()),
            GRelays(t) => format!("(GRelays {})", t),
            GPrune(t) => format!("(GPrune {})", t),
            GLast => "GLast".into(),
            GFiltered(a, b) => format!("(GFiltered {} {})", a, b),
        }
    }
}
impl Op {
    fn name(&self) -> &'static str {
        use Op::*;
        match self {
            NInsert(..) => "NInsert",
            NRemove(..) => "NRemove",
            RAdd(..) => "RAdd",
            RRemove(..) => "RRemove",
            RRemoveMany(..) => "RRemoveMany",
            RPrune(..) => "RPrune",
            REntry(..) => "REntry",
            RLen => "RLen",
            RCount(..) => "RCount",
            SSynced(..) => "SSynced",
            FSet(..) => "FSet",
            FGet(..) => "FGet",
            FDelete(..) => "FDelete",
            FCount => "FCount",
            PFollow(..) => "PFollow",
            PSetFollow(..) => "PSetFollow",
            PSeed(..) => "PSeed",
            PSetSeed(..) => "PSetSeed",
            PUnfollow(..) => "PUnfollow",
            PUnseed(..) => "PUnseed",
            PUnblockRid(..) => "PUnblockRid",
            PUnblockNid(..) => "PUnblockNid",
            PFollowPolicy(..) => "PFollowPolicy",
            PSeedPolicy(..) => "PSeedPolicy",
            GAnnounced(..) => "GAnnounced",
            GSetRelay(..) => "GSetRelay",
            GRelays(..) => "GRelays",
            GPrune(..) => "GPrune",
            GLast => "GLast",
            GFiltered(..) => "GFiltered",
        }
    }
}

// ---------------------------------------------------------------- observations

type GObs = (u64, (u64, u64, u64), u64, u64, u64); // rowid, key, msg, sig, ts

#[derive(Clone, Debug, PartialEq)]
enum Ret {
    Unit,
    Bool(bool),
    Num(u64),
    Ins(Vec<(u64, &'static str)>),
    OptN(Option<u64>),
    OptRef(Option<(u64, u64)>),
    OptFollow(Option<(u64, Pol)>),
    OptSeed(Option<Option<Sc>>), // Some(None) = Block
    Rows(Vec<GObs>),
    Err(&'static str),
    Panic(&'static str),
}
fn k3c(k: &(u64, u64, u64)) -> String {
    format!("(({}, {}), {})", k.0, k.1, k.2)
}
impl Coq for Ret {
    fn coq(&self) -> String {
        match self {
            Ret::Unit => "RUnit".into(),
            Ret::Bool(b) => format!("(RBool {})", b.coq()),
            Ret::Num(n) => format!("(RNum {})", n),
            Ret::Ins(l) => format!(
                "(RIns [{}])",
                l.iter().map(|(r, s)| format!("({}, {})", r, s)).collect::<Vec<_>>().join("; ")
            ),
            Ret::OptN(o) => format!("(ROptN {})", o.coq()),
            Ret::OptRef(o) => format!("(ROptRef {})", o.coq()),
            Ret::OptFollow(o) => format!(
                "(ROptFollow {})",
                match o {
                    Some((a, p)) => format!("(Some ({}, {}))", a, p.coq()),
                    None => "None".into(),
                }
            ),
            Ret::OptSeed(o) => format!(
                "(ROptSeed {})",
                match o {
                    Some(Some(s)) => format!("(Some (SAllow {}))", s.coq()),
                    Some(None) => "(Some SBlock)".into(),
                    None => "None".into(),
                }
            ),
            Ret::Rows(l) => format!(
                "(RRows [{}])",
                l.iter()
                    .map(|(id, k, m, s, t)| format!("(((({}, {}), {}), {}), {})", id, k3c(k), m, s, t))
                    .collect::<Vec<_>>()
                    .join("; ")
            ),
            Ret::Err(e) => format!("(RErr {})", e),
            Ret::Panic(p) => format!("(RPanic {})", p),
        }
    }
}

#[derive(Clone, Debug, PartialEq)]
struct GRow {
    id: u64,
    msg: u64,
    sig: u64,
    ts: u64,
    relay: Relay,
}

#[derive(Clone, Debug, PartialEq, Default)]
struct Dump {
    nodes: Vec<(u64, u64)>,
    routing: Vec<((u64, u64), u64)>,
    sync: Vec<((u64, u64), (u64, u64))>,
    refs: Vec<((u64, u64, u64), (u64, u64))>,
    following: Vec<(u64, (u64, Pol))>,
    seeding: Vec<(u64, (Sc, Pol))>,
    gossip: Vec<((u64, u64, u64), GRow)>,
}
impl Coq for Dump {
    fn coq(&self) -> String {
        let j = |v: Vec<String>| format!("[{}]", v.join("; "));
        format!(
            "{{| nodes := {}; routing := {}; sync := {}; refs := {}; following := {}; seeding := {}; gossip := {} |}}",
            j(self.nodes.iter().map(|(k, t)| format!("({}, {})", k, t)).collect()),
            j(self.routing.iter().map(|(k, t)| format!("(({}, {}), {})", k.0, k.1, t)).collect()),
            j(self.sync.iter().map(|(k, v)| format!("(({}, {}), ({}, {}))", k.0, k.1, v.0, v.1)).collect()),
            j(self.refs.iter().map(|(k, v)| format!("({}, ({}, {}))", k3c(k), v.0, v.1)).collect()),
            j(self.following.iter().map(|(k, v)| format!("({}, ({}, {}))", k, v.0, v.1.coq())).collect()),
            j(self.seeding.iter().map(|(k, v)| format!("({}, ({}, {}))", k, v.0.coq(), v.1.coq())).collect()),
            j(self
                .gossip
                .iter()
                .map(|(k, r)| format!(
                    "({}, {{| g_id := {}; g_msg := {}; g_sig := {}; g_ts := {}; g_relay := {} |}})",
                    k3c(k),
                    r.id,
                    r.msg,
                    r.sig,
                    r.ts,
                    r.relay.coq()
                ))
                .collect()),
        )
    }
}

// ---------------------------------------------------------------- the real stores

struct Real<'w> {
    w: &'w World,
    db: Database,
    policy: PolicyStore<Write>,
    praw: sqlite::Connection,
    ppath: std::path::PathBuf,
}

fn message(w: &World, k: AKind, msg: u64, t: u64) -> AnnouncementMessage {
    match k {
        AKind::Node => AnnouncementMessage::Node(NodeAnnouncement {
            version: 1,
            features: Features::SEED,
            timestamp: ts(t),
            alias: Alias::new("n"),
            addresses: BoundedVec::new(),
            nonce: msg,
            agent: UserAgent::default(),
        }),
        AKind::Inv => AnnouncementMessage::Inventory(InventoryAnnouncement {
            inventory: BoundedVec::collect_from((0..msg).map(|i| RepoId::from(oid(0x40 + i as u8)))),
            timestamp: ts(t),
        }),
        AKind::Refs(r) => AnnouncementMessage::Refs(RefsAnnouncement {
            rid: w.rid(r),
            refs: BoundedVec::collect_from((0..msg).map(|i| RefsAt { remote: w.node(i % 5), at: oid(0x60 + i as u8) })),
            timestamp: ts(t),
        }),
    }
}
fn message_id(m: &AnnouncementMessage) -> u64 {
    match m {
        AnnouncementMessage::Node(n) => n.nonce,
        AnnouncementMessage::Inventory(i) => i.inventory.len() as u64,
        AnnouncementMessage::Refs(r) => r.refs.len() as u64,
    }
}
fn signature(sig: u64) -> radicle::crypto::Signature {
    radicle::crypto::Signature::from([sig as u8; 64])
}

fn sql_err_class(e: &sqlite::Error) -> &'static str {
    match e.code {
        None => "EBind",
        Some(19) => "EFk",
        _ => "EOther",
    }
}

impl<'w> Real<'w> {
    fn new(w: &'w World, dir: &std::path::Path, tag: &str) -> Self {
        let db = Database::memory().unwrap();
        let ppath = dir.join(format!("policy-{}.db", tag));
        let _ = std::fs::remove_file(&ppath);
        let policy = PolicyStore::open(&ppath).unwrap();
        let praw = sqlite::Connection::open(&ppath).unwrap();
        Real { w, db, policy, praw, ppath }
    }

    fn dump(&self) -> Dump {
        let w = self.w;
        let mut d = Dump::default();
        let q = |sql: &str| self.db.db.prepare(sql).unwrap();
        for row in q("SELECT id, timestamp FROM nodes ORDER BY rowid").into_iter() {
            let row = row.unwrap();
            d.nodes.push((w.node_txt[row.read::<&str, _>("id")], row.read::<i64, _>("timestamp") as u64));
        }
        for row in q("SELECT repo, node, timestamp FROM routing ORDER BY rowid").into_iter() {
            let row = row.unwrap();
            d.routing.push((
                (w.rid_txt[row.read::<&str, _>("repo")], w.node_txt[row.read::<&str, _>("node")]),
                row.read::<i64, _>("timestamp") as u64,
            ));
        }
        for row in q("SELECT repo, node, head, timestamp FROM `repo-sync-status` ORDER BY rowid").into_iter() {
            let row = row.unwrap();
            d.sync.push((
                (w.rid_txt[row.read::<&str, _>("repo")], w.node_txt[row.read::<&str, _>("node")]),
                (w.oid_txt[row.read::<&str, _>("head")], row.read::<i64, _>("timestamp") as u64),
            ));
        }
        for row in q("SELECT repo, namespace, ref, oid, timestamp FROM refs ORDER BY rowid").into_iter() {
            let row = row.unwrap();
            d.refs.push((
                (
                    w.rid_txt[row.read::<&str, _>("repo")],
                    w.node_txt[row.read::<&str, _>("namespace")],
                    w.ref_txt[row.read::<&str, _>("ref")],
                ),
                (w.oid_txt[row.read::<&str, _>("oid")], row.read::<i64, _>("timestamp") as u64),
            ));
        }
        for row in q("SELECT rowid, node, repo, type, message, signature, timestamp, relay FROM announcements ORDER BY rowid")
            .into_iter()
        {
            let row = row.unwrap();
            let node = w.node_txt[row.read::<&str, _>("node")];
            let repo_txt = row.read::<&str, _>("repo");
            let repo = if repo_txt.is_empty() { 0 } else { w.rid_txt[repo_txt] };
            let (ty, kind) = match row.read::<&str, _>("type") {
                "inventory" => (0, AKind::Inv),
                "node" => (1, AKind::Node),
                "refs" => (2, AKind::Refs(repo)),
                other => panic!("unknown type {other}"),
            };
            let t = row.read::<i64, _>("timestamp") as u64;
            let blob = row.read::<&[u8], _>("message");
            // identify the stored message by its wire bytes
            let msg = (0..16u64)
                .find(|m| {
                    (ty != 2 || repo != 0) && {
                        // also try other timestamps: the stored blob carries its own
                        let mm = message(w, kind, *m, t);
                        wire::serialize(&mm)[..] == blob[..]
                    }
                })
                .unwrap_or_else(|| {
                    // blob does not match (type, repo, timestamp) of its row: decode what it is
                    1000 + decode_msg_id(ty, blob)
                });
            let sigb = row.read::<&[u8], _>("signature");
            let relay = match row.read::<Option<i64>, _>("relay") {
                None => Relay::Relay,
                Some(-1) => Relay::DontRelay,
                Some(t) => Relay::RelayedAt(t as u64),
            };
            d.gossip.push((
                (node, repo, ty),
                GRow { id: row.read::<i64, _>("rowid") as u64, msg, sig: sigb[0] as u64, ts: t, relay },
            ));
        }
        let pol = |s: &str| if s == "allow" { Pol::Allow } else { assert_eq!(s, "block"); Pol::Block };
        for row in self.praw.prepare("SELECT id, alias, policy FROM following ORDER BY rowid").unwrap().into_iter() {
            let row = row.unwrap();
            let a = row.read::<&str, _>("alias");
            d.following.push((
                w.node_txt[row.read::<&str, _>("id")],
                (if a.is_empty() { 0 } else { w.alias_txt[a] }, pol(row.read::<&str, _>("policy"))),
            ));
        }
        for row in self.praw.prepare("SELECT id, scope, policy FROM seeding ORDER BY rowid").unwrap().into_iter() {
            let row = row.unwrap();
            let sc = match row.read::<&str, _>("scope") {
                "followed" => Sc::Followed,
                "all" => Sc::All,
                o => panic!("scope {o}"),
            };
            d.seeding.push((w.rid_txt[row.read::<&str, _>("id")], (sc, pol(row.read::<&str, _>("policy")))));
        }
        d
    }

    fn exec(&mut self, op: &Op) -> Ret {
        let w = self.w;
        let db = &mut self.db;
        let policy = &mut self.policy;
        let r = catch(AssertUnwindSafe(|| -> Ret {
            match op {
                Op::NInsert(n, t) => match AddressStore::insert(
                    db,
                    &w.node(*n),
                    1,
                    Features::SEED,
                    &Alias::new("n"),
                    0,
                    &UserAgent::default(),
                    ts(*t),
                    [],
                ) {
                    Ok(b) => Ret::Bool(b),
                    Err(radicle::node::address::Error::Internal(e)) => Ret::Err(sql_err_class(&e)),
                    Err(_) => Ret::Err("EOther"),
                },
                Op::NRemove(n) => match AddressStore::remove(db, &w.node(*n)) {
                    Ok(b) => Ret::Bool(b),
                    Err(_) => Ret::Err("EOther"),
                },
                Op::RAdd(rids, n, t) => {
                    let ids: Vec<RepoId> = rids.iter().map(|r| w.rid(*r)).collect();
                    match RoutingStore::add_inventory(db, ids.iter(), w.node(*n), ts(*t)) {
                        Ok(v) => Ret::Ins(
                            v.into_iter()
                                .map(|(rid, r)| {
                                    (
                                        w.rid_txt[&rid.urn()],
                                        match r {
                                            InsertResult::NotUpdated => "NotUpdated",
                                            InsertResult::TimeUpdated => "TimeUpdated",
                                            InsertResult::SeedAdded => "SeedAdded",
                                        },
                                    )
                                })
                                .collect(),
                        ),
                        Err(e) => routing_err(e),
                    }
                }
                Op::RRemove(r, n) => match RoutingStore::remove_inventory(db, &w.rid(*r), &w.node(*n)) {
                    Ok(b) => Ret::Bool(b),
                    Err(e) => routing_err(e),
                },
                Op::RRemoveMany(rids, n) => {
                    let ids: Vec<RepoId> = rids.iter().map(|r| w.rid(*r)).collect();
                    match RoutingStore::remove_inventories(db, ids.iter(), &w.node(*n)) {
                        Ok(()) => Ret::Unit,
                        Err(e) => routing_err(e),
                    }
                }
                Op::RPrune(o, l, i) => match RoutingStore::prune(db, ts(*o), l.map(|l| l as usize), &w.node(*i)) {
                    Ok(n) => Ret::Num(n as u64),
                    Err(e) => routing_err(e),
                },
                Op::REntry(r, n) => match RoutingStore::entry(db, &w.rid(*r), &w.node(*n)) {
                    Ok(o) => Ret::OptN(o.map(|t| *t)),
                    Err(e) => routing_err(e),
                },
                Op::RLen => match RoutingStore::len(db) {
                    Ok(n) => Ret::Num(n as u64),
                    Err(e) => routing_err(e),
                },
                Op::RCount(r) => match RoutingStore::count(db, &w.rid(*r)) {
                    Ok(n) => Ret::Num(n as u64),
                    Err(e) => routing_err(e),
                },
                Op::SSynced(r, n, h, t) => {
                    match SeedStore::synced(db, &w.rid(*r), &w.node(*n), w.oids[*h as usize], ts(*t)) {
                        Ok(b) => Ret::Bool(b),
                        Err(radicle::node::seed::Error::Internal(e)) => Ret::Err(sql_err_class(&e)),
                        Err(_) => Ret::Err("EOther"),
                    }
                }
                Op::FSet(r, n, f, o, t) => match RefsStore::set(
                    db,
                    &w.rid(*r),
                    &w.node(*n),
                    &w.refnames[*f as usize],
                    w.oids[*o as usize],
                    localtime::LocalTime::from_millis(*t),
                ) {
                    Ok(b) => Ret::Bool(b),
                    Err(radicle::node::refs::Error::Timestamp(_)) => Ret::Err("ETimestamp"),
                    Err(radicle::node::refs::Error::Internal(e)) => Ret::Err(sql_err_class(&e)),
                    Err(_) => Ret::Err("EOther"),
                },
                Op::FGet(r, n, f) => match RefsStore::get(db, &w.rid(*r), &w.node(*n), &w.refnames[*f as usize]) {
                    Ok(o) => Ret::OptRef(o.map(|(oid, t)| (w.oid_txt[&oid.to_string()], t.as_millis()))),
                    Err(_) => Ret::Err("EOther"),
                },
                Op::FDelete(r, n, f) => {
                    match RefsStore::delete(db, &w.rid(*r), &w.node(*n), &w.refnames[*f as usize]) {
                        Ok(b) => Ret::Bool(b),
                        Err(_) => Ret::Err("EOther"),
                    }
                }
                Op::FCount => match RefsStore::count(db) {
                    Ok(n) => Ret::Num(n as u64),
                    Err(_) => Ret::Err("EOther"),
                },
                Op::PFollow(i, a) => {
                    let alias = if *a == 0 { None } else { Some(&w.aliases[(*a - 1) as usize]) };
                    pbool(policy.follow(&w.node(*i), alias))
                }
                Op::PSetFollow(i, p) => pbool(policy.set_follow_policy(&w.node(*i), rpol(*p))),
                Op::PSeed(i, s) => pbool(policy.seed(&w.rid(*i), rsc(*s))),
                Op::PSetSeed(i, p) => pbool(policy.set_seed_policy(&w.rid(*i), rpol(*p))),
                Op::PUnfollow(i) => pbool(policy.unfollow(&w.node(*i))),
                Op::PUnseed(i) => pbool(policy.unseed(&w.rid(*i))),
                Op::PUnblockRid(i) => pbool(policy.unblock_rid(&w.rid(*i))),
                Op::PUnblockNid(i) => pbool(policy.unblock_nid(&w.node(*i))),
                Op::PFollowPolicy(i) => match policy.follow_policy(&w.node(*i)) {
                    Ok(o) => Ret::OptFollow(o.map(|f| {
                        (
                            f.alias.map(|a| w.alias_txt[a.as_str()]).unwrap_or(0),
                            if f.policy == Policy::Allow { Pol::Allow } else { Pol::Block },
                        )
                    })),
                    Err(_) => Ret::Err("EOther"),
                },
                Op::PSeedPolicy(i) => match policy.seed_policy(&w.rid(*i)) {
                    Ok(o) => Ret::OptSeed(o.map(|s| s.scope().map(|sc| if sc == Scope::All { Sc::All } else { Sc::Followed }))),
                    Err(_) => Ret::Err("EOther"),
                },
                Op::GAnnounced(n, k, m, s, t) => {
                    let ann = Announcement {
                        // the store keys the row by the `nid` argument, not by this field
                        node: w.node((*n + 1) % 5),
                        signature: signature(*s),
                        message: message(w, *k, *m, *t),
                    };
                    match GossipStore::announced(db, &w.node(*n), &ann) {
                        Ok(o) => Ret::OptN(o),
                        Err(e) => gossip_err(e),
                    }
                }
                Op::GSetRelay(id, r) => {
                    let st = match r {
                        Relay::Relay => RelayStatus::Relay,
                        Relay::DontRelay => RelayStatus::DontRelay,
                        Relay::RelayedAt(t) => RelayStatus::RelayedAt(ts(*t)),
                    };
                    match GossipStore::set_relay(db, *id, st) {
                        Ok(()) => Ret::Unit,
                        Err(e) => gossip_err(e),
                    }
                }
                Op::GRelays(now) => match GossipStore::relays(db, ts(*now)) {
                    Ok(v) => Ret::Rows(v.iter().map(|(id, a)| self_gobs(w, *id, a)).collect()),
                    Err(e) => gossip_err(e),
                },
                Op::GPrune(c) => match GossipStore::prune(db, ts(*c)) {
                    Ok(n) => Ret::Num(n as u64),
                    Err(e) => gossip_err(e),
                },
                Op::GLast => match GossipStore::last(db) {
                    Ok(o) => Ret::OptN(o.map(|t| *t)),
                    Err(e) => gossip_err(e),
                },
                Op::GFiltered(a, b) => {
                    let filter = Filter::default();
                    let r = match GossipStore::filtered(db, &filter, ts(*a), ts(*b)) {
                        Ok(it) => {
                            let mut rows = vec![];
                            let mut bad = None;
                            for x in it {
                                match x {
                                    Ok(ann) => rows.push(self_gobs(w, 0, &ann)),
                                    Err(e) => bad = Some(e),
                                }
                            }
                            match bad {
                                Some(e) => gossip_err(e),
                                None => Ret::Rows(rows),
                            }
                        }
                        Err(e) => gossip_err(e),
                    };
                    r
                }
            }
        }));
        match r {
            Ok(r) => r,
            Err(msg) => {
                if msg.contains("must not be zero") {
                    Ret::Panic("PAnnouncedZero")
                } else if msg.contains("TryFromIntError") || msg.contains("called `Result::unwrap()`") {
                    Ret::Panic("PLocalTimeMillis")
                } else {
                    eprintln!("unexpected panic: {msg}");
                    Ret::Panic("POther")
                }
            }
        }
    }
}

fn decode_msg_id(ty: u64, blob: &[u8]) -> u64 {
    match ty {
        0 => wire::deserialize::<InventoryAnnouncement>(blob).map(|m| m.inventory.len() as u64).unwrap_or(99),
        1 => wire::deserialize::<NodeAnnouncement>(blob).map(|m| m.nonce).unwrap_or(99),
        _ => wire::deserialize::<RefsAnnouncement>(blob).map(|m| m.refs.len() as u64).unwrap_or(99),
    }
}

fn self_gobs(w: &World, id: u64, a: &Announcement) -> GObs {
    let (repo, ty) = match &a.message {
        AnnouncementMessage::Inventory(_) => (0, 0),
        AnnouncementMessage::Node(_) => (0, 1),
        AnnouncementMessage::Refs(r) => (w.rid_txt[&r.rid.urn()], 2),
    };
    (
        id,
        (w.node_txt[&a.node.to_human()], repo, ty),
        message_id(&a.message),
        a.signature.to_vec()[0] as u64,
        *a.message.timestamp(),
    )
}

fn rpol(p: Pol) -> Policy {
    match p {
        Pol::Allow => Policy::Allow,
        Pol::Block => Policy::Block,
    }
}
fn rsc(s: Sc) -> Scope {
    match s {
        Sc::All => Scope::All,
        Sc::Followed => Scope::Followed,
    }
}
fn pbool(r: Result<bool, radicle::node::policy::store::Error>) -> Ret {
    match r {
        Ok(b) => Ret::Bool(b),
        Err(_) => Ret::Err("EOther"),
    }
}
fn routing_err(e: radicle::node::routing::Error) -> Ret {
    match e {
        radicle::node::routing::Error::Internal(e) => Ret::Err(sql_err_class(&e)),
        radicle::node::routing::Error::UnitOverflow => Ret::Err("EOverflow"),
    }
}
fn gossip_err(e: radicle_node::service::gossip::Error) -> Ret {
    match e {
        radicle_node::service::gossip::Error::Internal(e) => Ret::Err(sql_err_class(&e)),
        _ => Ret::Err("EOther"),
    }
}

impl Drop for Real<'_> {
    fn drop(&mut self) {
        let _ = std::fs::remove_file(&self.ppath);
        let _ = std::fs::remove_file(self.ppath.with_extension("db-journal"));
    }
}

// ---------------------------------------------------------------- direct oracle

fn to_map<K: Ord + Clone, V: Clone>(v: &[(K, V)]) -> BTreeMap<K, V> {
    v.iter().cloned().collect()
}

/// The property's invariants, checked on the real tables before/after one step.
/// Independent of the Coq model.
fn oracle(run: &mut Run, id: &str, step: usize, op: &Op, ret: &Ret, pre: &Dump, post: &Dump, ops: &[Op]) {
    let mut fail = |class: &str, what: String| {
        run.fail(
            id,
            class,
            what,
            json!({"step": step, "op": format!("{:?}", op), "ret": format!("{:?}", ret),
                   "ops": ops.iter().map(|o| format!("{:?}", o)).collect::<Vec<_>>(),
                   "pre": format!("{:?}", pre), "post": format!("{:?}", post)}),
        )
    };
    // every table keeps its keys unique
    macro_rules! uniq {
        ($f:ident) => {
            let ks: BTreeSet<_> = post.$f.iter().map(|r| r.0.clone()).collect();
            if ks.len() != post.$f.len() {
                fail("duplicate-key", format!("table {} holds a key twice", stringify!($f)));
            }
        };
    }
    uniq!(nodes);
    uniq!(routing);
    uniq!(sync);
    uniq!(refs);
    uniq!(following);
    uniq!(seeding);
    uniq!(gossip);

    // --- routing: timestamps of an entry only increase
    let (r0, r1) = (to_map(&pre.routing), to_map(&post.routing));
    for (k, t0) in &r0 {
        if let Some(t1) = r1.get(k) {
            if t1 < t0 {
                fail("routing-timestamp-decreased", format!("routing entry {:?}: timestamp {} -> {}", k, t0, t1));
            }
        }
    }
    // which routing keys may this op touch at all
    let may_touch_routing: Box<dyn Fn(&(u64, u64)) -> bool> = match op {
        Op::RAdd(rids, n, _) => { let (rids, n) = (rids.clone(), *n); Box::new(move |k| rids.contains(&k.0) && k.1 == n) }
        Op::RRemove(r, n) => { let (r, n) = (*r, *n); Box::new(move |k| *k == (r, n)) }
        Op::RRemoveMany(rids, n) => { let (rids, n) = (rids.clone(), *n); Box::new(move |k| rids.contains(&k.0) && k.1 == n) }
        Op::RPrune(..) => Box::new(|_| true), // checked in detail below
        Op::NRemove(n) => { let n = *n; Box::new(move |k| k.1 == n) }
        _ => Box::new(|_| false),
    };
    for k in r0.keys().chain(r1.keys()) {
        if r0.get(k) != r1.get(k) && !may_touch_routing(k) {
            fail("routing-foreign-change", format!("{} changed routing entry {:?}: {:?} -> {:?}", op.name(), k, r0.get(k), r1.get(k)));
        }
    }
    if let Op::RPrune(oldest, limit, ignore) = op {
        if let Ret::Num(n) = ret {
            let removed: Vec<_> = r0.iter().filter(|(k, _)| !r1.contains_key(*k)).collect();
            for (k, t) in &removed {
                if k.1 == *ignore {
                    fail("routing-prune-removed-local", format!("prune(ignore={}) removed the local node's entry {:?}", ignore, k));
                }
                if **t >= *oldest {
                    fail("routing-prune-removed-recent", format!("prune(oldest={}) removed entry {:?} with timestamp {}", oldest, k, t));
                }
            }
            for (k, t) in &r1 {
                if r0.get(k) != Some(t) {
                    fail("routing-prune-modified", format!("prune changed/added entry {:?}", k));
                }
            }
            if let Some(l) = limit {
                if removed.len() as u64 > *l {
                    fail("routing-prune-over-limit", format!("prune(limit={}) removed {} entries", l, removed.len()));
                }
            }
            if removed.len() as u64 != *n {
                fail("routing-prune-count", format!("prune returned {} but removed {}", n, removed.len()));
            }
            // oldest first: a surviving non-local candidate is no older than anything removed,
            // and then the limit was exhausted (local candidates may take slots)
            let lim = limit.unwrap_or(I64_MAX);
            let local_cands = r0.iter().filter(|(k, t)| k.1 == *ignore && **t < *oldest).count() as u64;
            for (k, t) in r1.iter().filter(|(k, t)| k.1 != *ignore && **t < *oldest) {
                if let Some((rk, rt)) = removed.iter().find(|(_, rt)| **rt > *t) {
                    fail("routing-prune-not-oldest-first", format!("prune kept {:?}@{} but removed newer {:?}@{}", k, t, rk, rt));
                }
                if removed.len() as u64 + local_cands < lim {
                    fail("routing-prune-kept-old-entry", format!("prune kept {:?}@{} < {} although the limit {} was not reached", k, t, oldest, lim));
                }
            }
        } else if pre.routing != post.routing {
            fail("routing-prune-modified", "failed prune changed the table".into());
        }
    }
    if let (Op::RAdd(rids, n, t), Ret::Ins(res)) = (op, ret) {
        // each reported result must agree with what happened to the entry (sequentially)
        let mut cur = r0.clone();
        for (i, rid) in rids.iter().enumerate() {
            let k = (*rid, *n);
            let want = match cur.get(&k) {
                None => "SeedAdded",
                Some(old) if old < t => "TimeUpdated",
                Some(_) => "NotUpdated",
            };
            if want != "NotUpdated" {
                cur.insert(k, *t);
            }
            if res.get(i).map(|x| (x.0, x.1)) != Some((*rid, want)) {
                fail("routing-insert-result", format!("add_inventory result #{} is {:?}, expected {:?}", i, res.get(i), (rid, want)));
            }
        }
        if cur != r1 {
            fail("routing-insert-effect", format!("add_inventory left {:?}, expected {:?}", r1, cur));
        }
    }

    // --- sync status and refs cache: only to a strictly newer timestamp AND a different value
    let (s0, s1) = (to_map(&pre.sync), to_map(&post.sync));
    for (k, (h0, t0)) in &s0 {
        if let Some((h1, t1)) = s1.get(k) {
            if (h0, t0) != (h1, t1) && !(t0 < t1 && h0 != h1) {
                fail("sync-update-rule", format!("sync status {:?}: ({},{}) -> ({},{})", k, h0, t0, h1, t1));
            }
        }
    }
    for k in s0.keys().chain(s1.keys()) {
        let ok = match op {
            Op::SSynced(r, n, _, _) => *k == (*r, *n),
            Op::NRemove(n) => k.1 == *n,
            _ => false,
        };
        if s0.get(k) != s1.get(k) && !ok {
            fail("sync-foreign-change", format!("{} changed sync status {:?}", op.name(), k));
        }
    }
    if let (Op::SSynced(r, n, h, t), Ret::Bool(b)) = (op, ret) {
        let k = (*r, *n);
        if *b != (s0.get(&k) != s1.get(&k)) {
            fail("sync-return-value", format!("synced returned {} but the row {}", b, if *b { "did not change" } else { "changed" }));
        }
        if *b && s1.get(&k) != Some(&(*h, *t)) {
            fail("sync-row-content", format!("synced({},{}) = true left {:?}", h, t, s1.get(&k)));
        }
        if !*b {
            // a rejected write must be justified: existing row not older, or same head
            match s0.get(&k) {
                Some((h0, t0)) if t0 < t && h0 != h => fail("sync-update-lost", format!("synced({},{}) over ({},{}) was rejected", h, t, h0, t0)),
                None => fail("sync-update-lost", "synced on a missing row returned false".into()),
                _ => {}
            }
        }
    }
    let (f0, f1) = (to_map(&pre.refs), to_map(&post.refs));
    for (k, (o0, t0)) in &f0 {
        if let Some((o1, t1)) = f1.get(k) {
            if (o0, t0) != (o1, t1) && !(t0 < t1 && o0 != o1) {
                fail("refs-update-rule", format!("cached ref {:?}: ({},{}) -> ({},{})", k, o0, t0, o1, t1));
            }
        }
    }
    for k in f0.keys().chain(f1.keys()) {
        let ok = match op {
            Op::FSet(r, n, f, _, _) | Op::FDelete(r, n, f) => *k == (*r, *n, *f),
            _ => false,
        };
        if f0.get(k) != f1.get(k) && !ok {
            fail("refs-foreign-change", format!("{} changed cached ref {:?}", op.name(), k));
        }
    }
    if let (Op::FSet(r, n, f, o, t), Ret::Bool(b)) = (op, ret) {
        let k = (*r, *n, *f);
        let t = *t as u64;
        if *b != (f0.get(&k) != f1.get(&k)) {
            fail("refs-return-value", format!("set returned {} inconsistently with the table", b));
        }
        if *b && f1.get(&k) != Some(&(*o, t)) {
            fail("refs-row-content", format!("set({},{}) = true left {:?}", o, t, f1.get(&k)));
        }
        if !*b {
            match f0.get(&k) {
                Some((o0, t0)) if *t0 < t && o0 != o => fail("refs-update-lost", format!("set({},{}) over ({},{}) was rejected", o, t, o0, t0)),
                None => fail("refs-update-lost", "set on a missing row returned false".into()),
                _ => {}
            }
        }
    }

    // --- policies: the written column holds the last write, the other column is untouched
    let (p0, p1) = (to_map(&pre.following), to_map(&post.following));
    for k in p0.keys().chain(p1.keys()) {
        let ok = match op {
            Op::PFollow(i, _) | Op::PSetFollow(i, _) | Op::PUnfollow(i) | Op::PUnblockNid(i) => k == i,
            _ => false,
        };
        if p0.get(k) != p1.get(k) && !ok {
            fail("policy-foreign-change", format!("{} changed following row {}", op.name(), k));
        }
    }
    match op {
        Op::PFollow(i, a) => {
            let want = (*a, p0.get(i).map(|x| x.1).unwrap_or(Pol::Allow));
            if p1.get(i) != Some(&want) {
                fail("policy-last-write", format!("follow({},{}) left {:?}, expected {:?}", i, a, p1.get(i), want));
            }
        }
        Op::PSetFollow(i, p) => {
            let want = (p0.get(i).map(|x| x.0).unwrap_or(0), *p);
            if p1.get(i) != Some(&want) {
                fail("policy-last-write", format!("set_follow_policy({},{:?}) left {:?}, expected {:?}", i, p, p1.get(i), want));
            }
        }
        Op::PUnfollow(i) => {
            if p1.contains_key(i) {
                fail("policy-last-write", format!("unfollow({}) left the row", i));
            }
        }
        Op::PUnblockNid(i) => {
            let blocked = matches!(p0.get(i), Some((_, Pol::Block)));
            if p1.contains_key(i) != (p0.contains_key(i) && !blocked) {
                fail("policy-last-write", format!("unblock_nid({}) over {:?} left {:?}", i, p0.get(i), p1.get(i)));
            }
        }
        _ => {}
    }
    let (q0, q1) = (to_map(&pre.seeding), to_map(&post.seeding));
    for k in q0.keys().chain(q1.keys()) {
        let ok = match op {
            Op::PSeed(i, _) | Op::PSetSeed(i, _) | Op::PUnseed(i) | Op::PUnblockRid(i) => k == i,
            _ => false,
        };
        if q0.get(k) != q1.get(k) && !ok {
            fail("policy-foreign-change", format!("{} changed seeding row {}", op.name(), k));
        }
    }
    match op {
        Op::PSeed(i, s) => {
            let want = (*s, q0.get(i).map(|x| x.1).unwrap_or(Pol::Allow));
            if q1.get(i) != Some(&want) {
                fail("policy-last-write", format!("seed({},{:?}) left {:?}, expected {:?}", i, s, q1.get(i), want));
            }
        }
        Op::PSetSeed(i, p) => {
            let want = (q0.get(i).map(|x| x.0).unwrap_or(Sc::Followed), *p);
            if q1.get(i) != Some(&want) {
                fail("policy-last-write", format!("set_seed_policy({},{:?}) left {:?}, expected {:?}", i, p, q1.get(i), want));
            }
        }
        Op::PUnseed(i) => {
            if q1.contains_key(i) {
                fail("policy-last-write", format!("unseed({}) left the row", i));
            }
        }
        Op::PUnblockRid(i) => {
            let blocked = matches!(q0.get(i), Some((_, Pol::Block)));
            if q1.contains_key(i) != (q0.contains_key(i) && !blocked) {
                fail("policy-last-write", format!("unblock_rid({}) over {:?} left {:?}", i, q0.get(i), q1.get(i)));
            }
        }
        _ => {}
    }
    if let Ret::Bool(b) = ret {
        let changed = match op {
            Op::PFollow(..) | Op::PSetFollow(..) | Op::PUnfollow(..) | Op::PUnblockNid(..) => Some(p0 != p1),
            Op::PSeed(..) | Op::PSetSeed(..) | Op::PUnseed(..) | Op::PUnblockRid(..) => Some(q0 != q1),
            _ => None,
        };
        if let Some(c) = changed {
            if c != *b {
                fail("policy-return-value", format!("{} returned {} but table changed = {}", op.name(), b, c));
            }
        }
    }
    // reads reflect the table
    if let (Op::PFollowPolicy(i), Ret::OptFollow(o)) = (op, ret) {
        if p1.get(i) != o.as_ref() {
            fail("policy-read", format!("follow_policy({}) = {:?}, row = {:?}", i, o, p1.get(i)));
        }
    }
    if let (Op::PSeedPolicy(i), Ret::OptSeed(o)) = (op, ret) {
        let want = q1.get(i).map(|(s, p)| if *p == Pol::Allow { Some(*s) } else { None });
        if want != *o {
            fail("policy-read", format!("seed_policy({}) = {:?}, row = {:?}", i, o, q1.get(i)));
        }
    }

    // --- gossip: a stored announcement is replaced only by a strictly newer one of the same kind
    let (g0, g1) = (to_map(&pre.gossip), to_map(&post.gossip));
    let content = |r: &GRow| (r.msg, r.sig, r.ts);
    for (k, a) in &g0 {
        if let Some(b) = g1.get(k) {
            if a.id != b.id {
                fail("gossip-rowid-changed", format!("announcement {:?}: rowid {} -> {}", k, a.id, b.id));
            }
            if content(a) != content(b) {
                if !(a.ts < b.ts) {
                    fail("gossip-replaced-not-newer", format!("announcement {:?}: timestamp {} replaced by {}", k, a.ts, b.ts));
                }
                match op {
                    Op::GAnnounced(n, kd, ..) if (*n, kd.repo(), kd.ty()) == *k => {}
                    _ => fail("gossip-replaced-by-other-kind", format!("{:?} replaced stored announcement {:?}", op, k)),
                }
            }
        }
    }
    for k in g1.keys() {
        if !g0.contains_key(k) {
            match op {
                Op::GAnnounced(n, kd, ..) if (*n, kd.repo(), kd.ty()) == *k => {}
                _ => fail("gossip-replaced-by-other-kind", format!("{:?} created announcement row {:?}", op, k)),
            }
        }
    }
    for k in g0.keys() {
        if !g1.contains_key(k) {
            match op {
                Op::GPrune(c) if g0[k].ts < *c => {}
                _ => fail("gossip-row-lost", format!("{:?} deleted announcement {:?}@{}", op, k, g0[k].ts)),
            }
        }
    }
    if let Op::GAnnounced(n, kd, m, s, t) = op {
        let k = (*n, kd.repo(), kd.ty());
        match ret {
            Ret::OptN(Some(id)) => {
                match g1.get(&k) {
                    Some(r) if r.id == *id && (r.msg, r.sig, r.ts) == (*m, *s, *t) => {}
                    other => fail("gossip-announced-return", format!("announced returned Some({}) but the row is {:?}", id, other)),
                }
                if g0.get(&k).map(content) == g1.get(&k).map(content) {
                    fail("gossip-announced-return", "announced returned an id although nothing changed".into());
                }
            }
            Ret::OptN(None) => {
                if g0 != g1 {
                    fail("gossip-announced-return", "announced returned None but the table changed".into());
                }
                match g0.get(&k) {
                    Some(r) if r.ts >= *t => {}
                    other => fail("gossip-update-lost", format!("announced(ts={}) over {:?} returned None", t, other)),
                }
            }
            _ => {
                if g0 != g1 {
                    fail("gossip-announced-return", "failed announced changed the table".into());
                }
            }
        }
    }
    if let (Op::GPrune(c), Ret::Num(n)) = (op, ret) {
        let kept = g0.iter().filter(|(_, r)| r.ts >= *c).count();
        if g1.len() != kept || (g0.len() - g1.len()) as u64 != *n {
            fail("gossip-prune-rule", format!("prune({}) kept {} of {} rows, returned {}", c, g1.len(), g0.len(), n));
        }
    }
}

// ---------------------------------------------------------------- generator

struct Gen<'a> {
    r: &'a mut Rng,
    wide: bool,
    /// a node / repository this case keeps coming back to (so that upserts meet existing rows)
    hot_nid: u64,
    hot_rid: u64,
}
impl Gen<'_> {
    fn nid(&mut self) -> u64 {
        if self.r.chance(2, 5) { self.hot_nid } else { self.r.below(if self.wide { 5 } else { 3 }) }
    }
    fn rid(&mut self) -> u64 {
        if self.r.chance(2, 5) { self.hot_rid } else { 1 + self.r.below(if self.wide { 4 } else { 2 }) }
    }
    fn rids(&mut self) -> Vec<u64> {
        let n = self.r.below(4);
        (0..n).map(|_| self.rid()).collect()
    }
    fn oid(&mut self) -> u64 {
        self.r.below(if self.wide { 4 } else { 2 })
    }
    fn rf(&mut self) -> u64 {
        self.r.below(if self.wide { 3 } else { 2 })
    }
    /// timestamps: narrow = 0..5 (ties and equalities frequent), wide = distinct large values;
    /// both with rare boundary values around i64::MAX
    fn t(&mut self) -> u64 {
        if self.r.chance(1, 40) {
            *self.r.pick(&[I64_MAX, I64_MAX + 1, u64::MAX, I64_MAX - 1])
        } else if self.wide {
            1 + self.r.below(1_000_000_000_000)
        } else {
            self.r.below(6)
        }
    }
    fn t128(&mut self) -> u128 {
        if self.r.chance(1, 60) {
            *self.r.pick(&[u64::MAX as u128, u64::MAX as u128 + 1, u128::MAX])
        } else {
            self.t() as u128
        }
    }
    fn pol(&mut self) -> Pol {
        if self.r.bool() { Pol::Allow } else { Pol::Block }
    }
    fn sc(&mut self) -> Sc {
        if self.r.bool() { Sc::All } else { Sc::Followed }
    }
    fn kind(&mut self) -> AKind {
        match self.r.below(4) {
            0 => AKind::Inv,
            1 => AKind::Node,
            _ => AKind::Refs(self.rid()),
        }
    }
    fn relay(&mut self) -> Relay {
        match self.r.below(4) {
            0 | 1 => Relay::Relay,
            2 => Relay::DontRelay,
            _ => Relay::RelayedAt(self.t()),
        }
    }
    fn op(&mut self, focus: u64) -> Op {
        // focus: 0 routing, 1 sync, 2 refs, 3 policy, 4 gossip, 5 mixed
        let f = if focus == 5 { self.r.below(5) } else if self.r.chance(1, 8) { self.r.below(5) } else { focus };
        match f {
            0 => match self.r.below(20) {
                0 | 1 => Op::NInsert(self.nid(), self.t()),
                2 | 3 => Op::RAdd(vec![self.rid(), self.rid()], self.nid(), self.t()),
                4 => Op::NRemove(self.nid()),
                5..=10 => Op::RAdd(self.rids(), self.nid(), self.t()),
                11 => Op::RRemove(self.rid(), self.nid()),
                12 => Op::RRemoveMany(self.rids(), self.nid()),
                13..=16 => {
                    let lim = match self.r.below(8) {
                        0 | 1 => None,
                        2 => Some(0),
                        3 => Some(*self.r.pick(&[I64_MAX, I64_MAX + 1, u64::MAX])),
                        _ => Some(1 + self.r.below(3)),
                    };
                    Op::RPrune(self.t(), lim, self.nid())
                }
                17 => Op::REntry(self.rid(), self.nid()),
                18 => Op::RLen,
                _ => Op::RCount(self.rid()),
            },
            1 => match self.r.below(10) {
                0 => Op::NInsert(self.nid(), self.t()),
                1 => Op::NRemove(self.nid()),
                _ => Op::SSynced(self.rid(), self.nid(), self.oid(), self.t()),
            },
            2 => match self.r.below(10) {
                0..=5 => Op::FSet(self.rid(), self.nid(), self.rf(), self.oid(), self.t128()),
                6 => Op::FGet(self.rid(), self.nid(), self.rf()),
                7 | 8 => Op::FDelete(self.rid(), self.nid(), self.rf()),
                _ => Op::FCount,
            },
            3 => match self.r.below(16) {
                0..=2 => Op::PFollow(self.nid(), self.r.below(3)),
                3 | 4 => Op::PSetFollow(self.nid(), self.pol()),
                5..=7 => Op::PSeed(self.rid(), self.sc()),
                8 | 9 => Op::PSetSeed(self.rid(), self.pol()),
                10 => Op::PUnfollow(self.nid()),
                11 => Op::PUnseed(self.rid()),
                12 => Op::PUnblockRid(self.rid()),
                13 => Op::PUnblockNid(self.nid()),
                14 => Op::PFollowPolicy(self.nid()),
                _ => Op::PSeedPolicy(self.rid()),
            },
            _ => match self.r.below(16) {
                0..=7 => {
                    let t = if self.r.chance(1, 25) { 0 } else { self.t() };
                    Op::GAnnounced(self.nid(), self.kind(), self.r.below(4), self.r.below(4), t)
                }
                8 | 9 => Op::GSetRelay(1 + self.r.below(5), self.relay()),
                10 | 11 => Op::GRelays(self.t()),
                12 => Op::GPrune(self.t()),
                13 => Op::GLast,
                _ => {
                    let (a, b) = (self.t(), self.t());
                    if self.r.chance(5, 6) { Op::GFiltered(a.min(b), a.max(b)) } else { Op::GFiltered(a, b) }
                }
            },
        }
    }
}

/// prune's `ORDER BY timestamp LIMIT n` cuts through a group of equal timestamps
fn prune_boundary_tie(pre: &Dump, oldest: u64, limit: Option<u64>) -> bool {
    let mut c: Vec<u64> = pre.routing.iter().map(|r| r.1).filter(|t| *t < oldest).collect();
    c.sort();
    match limit {
        Some(l) if l > 0 && (l as usize) < c.len() => c[l as usize - 1] == c[l as usize],
        _ => false,
    }
}

fn one_case(run: &mut Run, w: &World, dir: &std::path::Path, id: &str, r: &mut Rng, wide: bool) {
    run.eval();
    let focus = r.below(6);
    let n = 1 + r.below(if wide { 24 } else { 14 });
    let (hot_nid, hot_rid) = (r.below(if wide { 5 } else { 3 }), 1 + r.below(if wide { 4 } else { 2 }));
    // most cases start by making some nodes known (routing / sync rows reference `nodes`)
    let mut setup: Vec<Op> = vec![];
    if r.chance(7, 8) {
        for nid in 0..(if wide { 5 } else { 3 }) {
            if r.chance(7, 8) {
                setup.push(Op::NInsert(nid, 1 + r.below(5)));
            }
        }
    }
    let mut g = Gen { r, wide, hot_nid, hot_rid };
    let mut real = Real::new(w, dir, &id.replace(':', "-"));
    let mut ops: Vec<Op> = vec![];
    let mut rets: Vec<Ret> = vec![];
    let mut pre = real.dump();
    let mut interesting = false;
    let mut exact = true;
    let total = setup.len() + n as usize;
    for step in 0..total {
        let op = if step < setup.len() { setup[step].clone() } else { g.op(focus) };
        if let Op::RPrune(o, l, _) = &op {
            if prune_boundary_tie(&pre, *o, *l) && std::env::var("C24_NO_TIE_CUT").is_err() {
                // the set SQLite removes is not determined by the statement: stop the exact
                // trace here (the oracle below still checks the invariants of this step)
                run.tally("prune:boundary-tie(trace cut)");
                exact = false;
            }
        }
        let mut ret = real.exec(&op);
        let post = real.dump();
        // filtered() carries no rowids and leaves the order of rows equal on
        // (timestamp, node, type) open: check the documented order, then canonicalise
        if let (Op::GFiltered(..), Ret::Rows(rows)) = (&op, &mut ret) {
            for p in rows.windows(2) {
                let ka = (p[0].4, p[0].1 .0, p[0].1 .2);
                let kb = (p[1].4, p[1].1 .0, p[1].1 .2);
                if ka > kb {
                    run.fail(id, "gossip-filtered-order", format!("filtered returned {:?} before {:?}", p[0], p[1]),
                        json!({"ops": ops.iter().map(|o| format!("{:?}", o)).collect::<Vec<_>>()}));
                }
            }
            for row in rows.iter_mut() {
                row.0 = post.gossip.iter().find(|(k, _)| *k == row.1).map(|(_, r)| r.id).unwrap_or(0);
            }
            rows.sort_by_key(|x| (x.4, x.1 .0, x.1 .2, x.1 .1));
        }
        ops.push(op.clone());
        oracle(run, id, step, &op, &ret, &pre, &post, &ops);
        tally(run, &op, &ret, &pre, &post, &mut interesting);
        if !exact {
            ops.pop();
            break;
        }
        rets.push(ret);
        pre = post;
    }
    run.case(id, ops.coq(), format!("{{| o_rets := {}; o_final := {} |}}", rets.coq(), pre.coq()));
    if interesting {
        run.nontrivial(format!("{:?}", ops));
    }
}

fn tally(run: &mut Run, op: &Op, ret: &Ret, pre: &Dump, post: &Dump, interesting: &mut bool) {
    run.tally(&format!("op:{}", op.name()));
    match ret {
        Ret::Err(e) => run.tally(&format!("err:{}:{}", op.name(), e)),
        Ret::Panic(p) => run.tally(&format!("panic:{}", p)),
        _ => {}
    }
    match (op, ret) {
        (Op::RAdd(..), Ret::Ins(v)) => {
            for (_, r) in v {
                run.tally(&format!("routing:{}", r));
                if *r != "SeedAdded" {
                    *interesting = true;
                }
            }
        }
        (Op::RPrune(_, l, ig), Ret::Num(n)) => {
            if *n > 0 {
                run.tally("prune:removed>0");
                *interesting = true;
            }
            if l.map(|l| l > 0 && l == *n).unwrap_or(false) {
                run.tally("prune:limit-reached");
            }
            if pre.routing.iter().any(|r| r.0 .1 == *ig) {
                run.tally("prune:local-entries-present");
            }
            if l.map(|l| (l as usize) < pre.routing.len()).unwrap_or(false) && *n > 0 {
                run.tally("prune:limit<table");
            }
        }
        (Op::NRemove(n), Ret::Bool(true)) => {
            if pre.routing.iter().any(|r| r.0 .1 == *n) || pre.sync.iter().any(|r| r.0 .1 == *n) {
                run.tally("nodes:cascade-delete");
                *interesting = true;
            }
        }
        (Op::SSynced(r, n, h, t), Ret::Bool(b)) => {
            let old = pre.sync.iter().find(|x| x.0 == (*r, *n));
            let k = match (old, b) {
                (None, _) => "sync:inserted",
                (Some(_), true) => "sync:conflict-updated",
                (Some((_, (h0, t0))), false) => {
                    if h0 == h && t0 < t { "sync:rejected-same-head-newer-ts" }
                    else if h0 != h && t0 == t { "sync:rejected-equal-ts" }
                    else if h0 != h { "sync:rejected-older-ts" }
                    else { "sync:rejected-same-head" }
                }
            };
            run.tally(k);
            if old.is_some() {
                *interesting = true;
            }
        }
        (Op::FSet(r, n, f, o, t), Ret::Bool(b)) => {
            let old = pre.refs.iter().find(|x| x.0 == (*r, *n, *f));
            let t = *t as u64;
            let k = match (old, b) {
                (None, _) => "refs:inserted",
                (Some(_), true) => "refs:conflict-updated",
                (Some((_, (o0, t0))), false) => {
                    if o0 == o && *t0 < t { "refs:rejected-same-oid-newer-ts" }
                    else if o0 != o && *t0 == t { "refs:rejected-equal-ts" }
                    else if o0 != o { "refs:rejected-older-ts" }
                    else { "refs:rejected-same-oid" }
                }
            };
            run.tally(k);
            if old.is_some() {
                *interesting = true;
            }
        }
        (Op::PSeed(i, _), Ret::Bool(b)) | (Op::PSetSeed(i, _), Ret::Bool(b)) => {
            let old = pre.seeding.iter().find(|x| x.0 == *i);
            run.tally(match (old, b) {
                (None, _) => "policy:seeding-inserted",
                (Some(_), true) => "policy:seeding-column-updated",
                (Some(_), false) => "policy:seeding-unchanged",
            });
            if let (Op::PSeed(..), Some((_, (_, Pol::Block)))) = (op, old) {
                run.tally("policy:seed-after-block(stays blocked)");
            }
            if old.is_some() {
                *interesting = true;
            }
        }
        (Op::PFollow(i, _), Ret::Bool(b)) | (Op::PSetFollow(i, _), Ret::Bool(b)) => {
            let old = pre.following.iter().find(|x| x.0 == *i);
            run.tally(match (old, b) {
                (None, _) => "policy:following-inserted",
                (Some(_), true) => "policy:following-column-updated",
                (Some(_), false) => "policy:following-unchanged",
            });
            if old.is_some() {
                *interesting = true;
            }
        }
        (Op::PUnblockRid(_), Ret::Bool(b)) | (Op::PUnblockNid(_), Ret::Bool(b)) => {
            run.tally(if *b { "policy:unblock-removed" } else { "policy:unblock-noop" });
        }
        (Op::GAnnounced(n, k, ..), Ret::OptN(o)) => {
            let old = pre.gossip.iter().find(|x| x.0 == (*n, k.repo(), k.ty()));
            run.tally(match (old, o) {
                (None, _) => "gossip:inserted",
                (Some(_), Some(_)) => "gossip:replaced-by-newer",
                (Some(_), None) => "gossip:rejected-not-newer",
            });
            if old.is_some() {
                *interesting = true;
            }
            if let Some(id) = o {
                if old.is_none() && pre.gossip.iter().any(|x| x.1.id >= *id) {
                    run.tally("gossip:rowid-not-fresh?");
                }
                if old.is_none() && (*id as usize) <= pre.gossip.len() {
                    run.tally("gossip:rowid-reused-after-prune");
                }
            }
        }
        (Op::GRelays(_), Ret::Rows(v)) => {
            if !v.is_empty() {
                run.tally("gossip:relays-nonempty");
            }
        }
        (Op::GFiltered(..), Ret::Rows(v)) => {
            if v.len() > 1 {
                run.tally("gossip:filtered>1");
            }
        }
        (Op::GPrune(_), Ret::Num(n)) => {
            if *n > 0 {
                run.tally("gossip:pruned>0");
            }
        }
        (Op::GSetRelay(id, _), _) => {
            if pre.gossip.iter().any(|x| x.1.id == *id) && pre.gossip != post.gossip {
                run.tally("gossip:set-relay-hit");
            }
        }
        _ => {}
    }
}

fn main() {
    quiet_panics();
    let mut run = Run::new(
        "C24",
        "model.Stores",
        "stream 0: 3 nodes x 2 repos x 2 refs x 2 oids, timestamps 0..5 (equal/older/newer collisions and prune ties frequent); \
         stream 1: 5 nodes x 4 repos, timestamps up to 1e12 (mostly distinct), longer sequences; both with rare boundary values \
         (0, i64::MAX, i64::MAX+1, u64::MAX, u64::MAX+1 for LocalTime). Each case focuses on one store (or mixes all). \
         Non-trivial = some upsert met an existing row (conflict path), a prune removed rows, or a node removal cascaded; \
         distinct by operation sequence.",
    );
    let w = World::new();
    let base = if std::path::Path::new("/dev/shm").is_dir() { Some(std::path::PathBuf::from("/dev/shm")) } else { None };
    let tmp = match base {
        Some(b) => tempfile::Builder::new().prefix("hw-c24-").tempdir_in(b).unwrap(),
        None => tempfile::tempdir().unwrap(),
    };
    let seed = run.args.seed;
    let n = run.args.count(1500, 15000);
    for i in 0..n {
        for (stream, wide) in [(0u64, false), (1u64, true)] {
            let id = format!("{}:{}", stream, i);
            if !run.args.wants(&id) {
                continue;
            }
            let mut r = Rng::for_case(seed, stream, i);
            one_case(&mut run, &w, tmp.path(), &id, &mut r, wide);
        }
    }
    run.finish();
}
