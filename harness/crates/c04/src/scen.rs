//! Scenario = blobs + a list of identity ops (author, actions, concurrency).
//! `Built` materialises a scenario against a `World` (object ids, signatures,
//! encoded actions) and renders the model-side terms.
#![allow(dead_code)]
use radicle::cob::identity::Action;
use radicle::crypto::Signature;
use radicle::git::Oid;

use crate::world::*;

#[derive(Clone, Debug, PartialEq, Eq)]
pub enum SigSpec {
    /// `signer` signs the object id of blob `over`.
    By { signer: usize, over: usize },
    /// A signature over unrelated bytes.
    Junk(u64),
}

#[derive(Clone, Debug, PartialEq, Eq)]
pub enum Ref {
    Root,
    Op(usize),
    Unknown,
}

#[derive(Clone, Debug, PartialEq, Eq)]
pub enum Act {
    Revision { text: u64, blob: usize, parent: Option<Ref>, sig: SigSpec },
    Edit { rev: Ref, text: u64 },
    Accept { rev: Ref, sig: SigSpec },
    Reject { rev: Ref },
    Redact { rev: Ref },
}

#[derive(Clone, Debug)]
pub struct OpSpec {
    pub author: usize,
    /// direct stream: hand a non-empty `concurrent` iterator to `apply`
    pub conc: bool,
    pub acts: Vec<Act>,
    /// repository stream: parents (indices of earlier ops; empty = the root entry) and commit time
    pub tips: Vec<usize>,
    pub ts: u64,
}

#[derive(Clone, Debug)]
pub struct Scen {
    /// blob 0 is always the repository's real initial document
    pub blobs: Vec<BlobSpec>,
    pub ops: Vec<OpSpec>,
}

pub const ROOT_ID: u64 = 1;
pub const UNKNOWN_ID: u64 = 5;
pub fn op_id(i: usize) -> u64 {
    10 + i as u64
}

pub struct Built {
    pub ids: Ids,
    pub blob_specs: Vec<BlobSpec>,
    pub blob_oids: Vec<Oid>,
    pub blob_docs: Vec<Option<radicle::identity::doc::Doc>>,
    pub unknown: Oid,
    pub root_sig: u64,
}

impl Built {
    /// Blob 0 is the repository's real initial document.
    pub fn new(w: &World, scen: &Scen, tag: u64) -> Built {
        let mut ids = Ids::default();
        let unknown = w.fake_oid(tag, 0xFFFF);
        ids.entries.insert(w.root, ROOT_ID);
        ids.entries.insert(unknown, UNKNOWN_ID);
        ids.blobs.insert(w.root_blob, 0);
        let root_sig = ids.sig(&w.root_signature());
        let mut b = Built {
            ids,
            blob_specs: vec![BlobSpec::Doc { delegates: vec![0], threshold: 1, body: 0, pad: false }],
            blob_oids: vec![w.root_blob],
            blob_docs: vec![Some(w.root_doc.clone())],
            unknown,
            root_sig,
        };
        for spec in scen.blobs.iter().skip(1) {
            b.add_blob(w, spec);
        }
        b
    }

    pub fn add_blob(&mut self, w: &World, spec: &BlobSpec) -> usize {
        let (oid, doc) = w.blob(spec);
        let i = self.blob_oids.len();
        // two specs may produce the same object (same document): the first index names it
        self.ids.blobs.entry(oid).or_insert(i as u64);
        self.blob_specs.push(spec.clone());
        self.blob_oids.push(oid);
        self.blob_docs.push(doc);
        i
    }

    /// Index of a blob object among the blobs of the case.
    pub fn blob_index(&self, oid: &Oid) -> Option<usize> {
        self.blob_oids.iter().position(|o| o == oid)
    }

    pub fn signature(&mut self, w: &World, s: &SigSpec) -> (Signature, u64) {
        let sig = match s {
            SigSpec::By { signer, over } => w.sign(*signer, self.blob_oids[*over].as_bytes()),
            SigSpec::Junk(n) => w.sign(0, format!("junk {n}").as_bytes()),
        };
        let id = self.ids.sig(&sig);
        (sig, id)
    }

    pub fn resolve(&self, w: &World, r: &Ref, op_oids: &[Oid]) -> Oid {
        match r {
            Ref::Root => w.root,
            Ref::Op(i) => op_oids.get(*i).copied().unwrap_or(self.unknown),
            Ref::Unknown => self.unknown,
        }
    }

    /// Encode the actions of one op as the real JSON contents; also the model-side terms.
    pub fn encode(&mut self, w: &World, op: &OpSpec, op_oids: &[Oid]) -> (Vec<Vec<u8>>, Vec<String>) {
        let mut contents = vec![];
        let mut terms = vec![];
        for a in &op.acts {
            let (action, term) = match a {
                Act::Revision { text, blob, parent, sig } => {
                    let (signature, sid) = self.signature(w, sig);
                    let parent = parent.as_ref().map(|p| self.resolve(w, p, op_oids));
                    let pt = match parent {
                        Some(p) => format!("(Some {})", self.ids.entry(&p)),
                        None => "None".into(),
                    };
                    (
                        Action::Revision {
                            title: format!("t{text}"),
                            description: format!("d{text}"),
                            blob: self.blob_oids[*blob],
                            parent,
                            signature,
                        },
                        format!("(ARevision {} {} {} {})", text, self.ids.blob(&self.blob_oids[*blob]), pt, sid),
                    )
                }
                Act::Edit { rev, text } => {
                    let r = self.resolve(w, rev, op_oids);
                    (
                        Action::RevisionEdit { revision: r, title: format!("t{text}"), description: format!("d{text}") },
                        format!("(AEdit {} {})", self.ids.entry(&r), text),
                    )
                }
                Act::Accept { rev, sig } => {
                    let (signature, sid) = self.signature(w, sig);
                    let r = self.resolve(w, rev, op_oids);
                    (Action::RevisionAccept { revision: r, signature }, format!("(AAccept {} {})", self.ids.entry(&r), sid))
                }
                Act::Reject { rev } => {
                    let r = self.resolve(w, rev, op_oids);
                    (Action::RevisionReject { revision: r }, format!("(AReject {})", self.ids.entry(&r)))
                }
                Act::Redact { rev } => {
                    let r = self.resolve(w, rev, op_oids);
                    (Action::RevisionRedact { revision: r }, format!("(ARedact {})", self.ids.entry(&r)))
                }
            };
            contents.push(serde_json::to_vec(&action).unwrap());
            terms.push(term);
        }
        (contents, terms)
    }

    /// Model blob store: `[(blob id, BDoc d | BInvalid | BMissing)]`.
    pub fn blob_table(&self, w: &World) -> String {
        let mut rows = vec![];
        let mut seen = std::collections::BTreeSet::new();
        for (i, b) in self.blob_specs.iter().enumerate() {
            let id = self.ids.blob(&self.blob_oids[i]);
            if !seen.insert(id) {
                continue;
            }
            let t = match (&self.blob_docs[i], b) {
                (Some(d), _) => format!("BDoc {}", w.mdoc(d).coq()),
                (None, BlobSpec::Missing(_)) => "BMissing".to_string(),
                (None, _) => "BInvalid".to_string(),
            };
            rows.push(format!("({id}, {t})"));
        }
        format!("[{}]", rows.join("; "))
    }

    /// Every (key, blob, signature) triple of the case that really verifies.
    pub fn sig_table(&self, w: &World) -> String {
        let mut rows = vec![];
        for (si, sig) in self.ids.sigs.iter().enumerate() {
            for (ki, key) in w.keys.iter().enumerate() {
                for (oid, bid) in self.ids.blobs.iter() {
                    if key.verify(oid.as_bytes(), sig).is_ok() {
                        rows.push(format!("({}, {}, {})", ki + 1, bid, si + 1));
                    }
                }
            }
        }
        format!("[{}]", rows.join("; "))
    }
}
