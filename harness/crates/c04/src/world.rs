//! A real radicle test repository plus the material the C04 scenarios are
//! built from: a fixed set of signers, identity-document blobs written into the
//! repository, signatures (valid, over the wrong blob, by the wrong key), and
//! hand-built / really stored `xyz.radicle.id` change entries.
#![allow(dead_code)]
use std::collections::BTreeMap;

use nonempty::NonEmpty;
use radicle::cob::identity::{Identity, State, Verdict, TYPENAME};
use radicle::cob::{change, Entry, Manifest, Version};
use radicle::crypto::ssh::ExtendedSignature;
use radicle::crypto::test::signer::MockSigner;
use radicle::crypto::{PublicKey, Signature, Signer};
use radicle::git::Oid;
use radicle::identity::doc::{Doc, RawDoc};
use radicle::identity::{Did, Visibility};
use radicle::storage::git::Repository;
use radicle::storage::ReadRepository;
use radicle::test::setup::{Node, NodeWithRepo};
use radicle_cob::change::Storage as _;
use radicle_cob::object::Storage as _;

pub const N_ACTORS: usize = 6;
pub const N_BODIES: u64 = 3;

/// What a blob id used in a `revision` action resolves to.
#[derive(Clone, Debug, PartialEq, Eq, PartialOrd, Ord)]
pub enum BlobSpec {
    /// A verified document: delegates (actor indices, in order), threshold, body variant;
    /// `pad` stores the same document with a non-canonical encoding (other blob id, equal `Doc`).
    Doc { delegates: Vec<usize>, threshold: usize, body: u64, pad: bool },
    /// Bytes that are not an identity document.
    Garbage(u64),
    /// An object id that is not in the repository.
    Missing(u64),
}

#[derive(Clone, Debug, PartialEq, Eq)]
pub struct MDoc {
    pub delegates: Vec<u64>,
    pub threshold: u64,
    pub body: u64,
}

impl MDoc {
    pub fn coq(&self) -> String {
        format!(
            "(mkDoc [{}] {} {})",
            self.delegates.iter().map(|d| d.to_string()).collect::<Vec<_>>().join("; "),
            self.threshold,
            self.body
        )
    }
}

pub struct World {
    pub node: NodeWithRepo,
    pub actors: Vec<MockSigner>,
    pub keys: Vec<PublicKey>,
    pub root: Oid,
    pub root_entry: Entry,
    pub root_doc: Doc,
    pub root_blob: Oid,
    pub resource: Oid,
    nonce: std::cell::Cell<u64>,
}

impl World {
    pub fn new() -> World {
        let actors: Vec<MockSigner> =
            (0..N_ACTORS).map(|i| MockSigner::from_seed([0xA0 + i as u8; 32])).collect();
        let tmp = tempfile::tempdir().unwrap();
        let node = Node::new(tmp, actors[0].clone(), "alice");
        let repo = node.project();
        let node = NodeWithRepo { node, repo };
        let r = &node.repo.repo;
        let root = r.identity_root().unwrap();
        let root_entry = r.load(root).unwrap();
        let at = r.identity_doc_at(root).unwrap();
        let keys = actors.iter().map(|a| *a.public_key()).collect();
        let resource = r.identity_head().unwrap();
        World {
            root_doc: at.doc.clone(),
            root_blob: at.blob,
            node,
            actors,
            keys,
            root,
            root_entry,
            resource,
            nonce: std::cell::Cell::new(0),
        }
    }

    pub fn repo(&self) -> &Repository {
        &self.node.repo.repo
    }

    pub fn did(&self, i: usize) -> Did {
        Did::from(self.keys[i])
    }

    pub fn actor_of(&self, k: &PublicKey) -> u64 {
        self.keys.iter().position(|x| x == k).map(|i| i as u64 + 1).unwrap_or(900)
    }

    fn visibility(&self, body: u64) -> Visibility {
        match body {
            0 => Visibility::Public,
            1 => Visibility::private([]),
            _ => Visibility::private([self.did(1)]),
        }
    }

    pub fn body_of(&self, doc: &Doc) -> u64 {
        (0..N_BODIES).find(|b| &self.visibility(*b) == doc.visibility()).unwrap_or(99)
    }

    pub fn mdoc(&self, doc: &Doc) -> MDoc {
        MDoc {
            delegates: doc.delegates().iter().map(|d| self.actor_of(d.as_key())).collect(),
            threshold: doc.threshold() as u64,
            body: self.body_of(doc),
        }
    }

    pub fn make_doc(&self, delegates: &[usize], threshold: usize, body: u64) -> Result<Doc, String> {
        let mut raw: RawDoc = self.root_doc.clone().edit();
        raw.delegates = delegates.iter().map(|i| self.did(*i)).collect();
        raw.threshold = threshold;
        raw.visibility = self.visibility(body);
        raw.verified().map_err(|e| e.to_string())
    }

    /// Materialise a blob spec: returns (object id, the document it parses to).
    pub fn blob(&self, spec: &BlobSpec) -> (Oid, Option<Doc>) {
        let raw = &self.repo().backend;
        match spec {
            BlobSpec::Doc { delegates, threshold, body, pad } => {
                let doc = self.make_doc(delegates, *threshold, *body).expect("generator makes valid docs");
                let (oid, mut bytes) = doc.encode().unwrap();
                if *pad {
                    bytes.push(b'\n');
                    let oid = raw.blob(&bytes).unwrap();
                    (oid.into(), Some(doc))
                } else {
                    let w = raw.blob(&bytes).unwrap();
                    assert_eq!(Oid::from(w), oid);
                    (oid, Some(doc))
                }
            }
            BlobSpec::Garbage(n) => {
                let oid = raw.blob(format!("{{\"not a doc\": {n}}}").as_bytes()).unwrap();
                (oid.into(), None)
            }
            BlobSpec::Missing(n) => {
                let oid = radicle::git::raw::Oid::hash_object(
                    radicle::git::raw::ObjectType::Blob,
                    format!("never stored {n}").as_bytes(),
                )
                .unwrap();
                (oid.into(), None)
            }
        }
    }

    /// The signature carried by the real root entry's `revision` action.
    pub fn root_signature(&self) -> Signature {
        let a: radicle::cob::identity::Action =
            serde_json::from_slice(self.root_entry.contents.first()).expect("root action decodes");
        match a {
            radicle::cob::identity::Action::Revision { signature, .. } => signature,
            _ => panic!("root action is not a revision"),
        }
    }

    pub fn sign(&self, actor: usize, over: &[u8]) -> Signature {
        self.actors[actor].sign(over)
    }

    /// A deterministic object id that names nothing.
    pub fn fake_oid(&self, a: u64, b: u64) -> Oid {
        radicle::git::raw::Oid::hash_object(
            radicle::git::raw::ObjectType::Commit,
            format!("c04 fake {a} {b}").as_bytes(),
        )
        .unwrap()
        .into()
    }

    /// Hand-built entry (never stored): `Evaluate::apply` only looks at id, author, contents, timestamp.
    pub fn entry(&self, id: Oid, author: usize, ts: u64, contents: Vec<Vec<u8>>) -> Entry {
        let sig = self.actors[author].sign(&[0]);
        Entry {
            id,
            revision: id,
            signature: ExtendedSignature::new(self.keys[author], sig),
            resource: self.root_entry.resource,
            parents: vec![],
            related: vec![],
            manifest: Manifest::new(TYPENAME.clone(), Version::default()),
            contents: NonEmpty::from_vec(contents).expect("non-empty"),
            timestamp: ts,
        }
    }

    /// Really store a change commit on top of `tips`.
    pub fn store_change(&self, tips: &[Oid], actor: usize, ts: u64, contents: Vec<Vec<u8>>) -> Entry {
        std::env::set_var("GIT_COMMITTER_DATE", ts.to_string());
        let n = self.nonce.get();
        self.nonce.set(n + 1);
        let template = change::Template {
            type_name: TYPENAME.clone(),
            tips: tips.to_vec(),
            message: format!("c04 change {n}"),
            embeds: vec![],
            contents: NonEmpty::from_vec(contents).expect("non-empty contents"),
        };
        let e = self.repo().store(self.root_entry.resource, vec![], &self.actors[actor], template);
        std::env::remove_var("GIT_COMMITTER_DATE");
        e.expect("store change")
    }

    /// Point the identity COB refs of the given actors' namespaces at `heads`
    /// (all other refs of the object are removed first).
    pub fn set_refs(&self, layout: &[(usize, Oid)]) {
        let object = radicle::cob::ObjectId::from(self.root);
        let pattern = format!("refs/namespaces/*/refs/cobs/{}/{}", &*TYPENAME, object);
        let raw = &self.repo().backend;
        let names: Vec<String> = raw
            .references_glob(&pattern)
            .unwrap()
            .filter_map(|r| r.ok().and_then(|r| r.name().map(|s| s.to_string())))
            .collect();
        for n in names {
            raw.find_reference(&n).unwrap().delete().unwrap();
        }
        for (ns, oid) in layout {
            self.repo().update(&self.keys[*ns], &TYPENAME, &object, oid).unwrap();
        }
    }
}

// ------------------------------------------------------------------ snapshots

#[derive(Clone, Debug, PartialEq, Eq)]
pub enum MVerdict {
    Accept(u64),
    Reject,
}

#[derive(Clone, Debug, PartialEq, Eq)]
pub struct MRev {
    pub id: u64,
    pub blob: u64,
    pub state: &'static str,
    pub author: u64,
    pub doc: MDoc,
    pub parent: Option<u64>,
    pub text: u64,
    pub verdicts: Vec<(u64, MVerdict)>,
}

#[derive(Clone, Debug, PartialEq, Eq)]
pub struct Snap {
    pub current: u64,
    pub root: u64,
    pub heads: Vec<(u64, u64)>,
    pub revisions: Vec<(u64, Option<MRev>)>,
    pub timeline: Vec<u64>,
}

/// Maps of the case: object ids, blobs, signatures <-> small numbers.
#[derive(Default)]
pub struct Ids {
    pub entries: BTreeMap<Oid, u64>,
    pub blobs: BTreeMap<Oid, u64>,
    pub sigs: Vec<Signature>,
}

impl Ids {
    pub fn entry(&self, o: &Oid) -> u64 {
        *self.entries.get(o).unwrap_or(&9000)
    }
    pub fn blob(&self, o: &Oid) -> u64 {
        *self.blobs.get(o).unwrap_or(&9000)
    }
    pub fn sig(&mut self, s: &Signature) -> u64 {
        if let Some(i) = self.sigs.iter().position(|x| x == s) {
            return i as u64 + 1;
        }
        self.sigs.push(*s);
        self.sigs.len() as u64
    }
    pub fn sig_ro(&self, s: &Signature) -> u64 {
        self.sigs.iter().position(|x| x == s).map(|i| i as u64 + 1).unwrap_or(9000)
    }
}

pub fn text_of(title: &str) -> u64 {
    title.strip_prefix('t').and_then(|s| s.parse().ok()).unwrap_or(99)
}

pub fn snapshot(w: &World, idn: &Identity, ids: &Ids) -> Snap {
    let v = serde_json::to_value(idn).unwrap();
    let mut revisions = vec![];
    for (k, val) in v["revisions"].as_object().unwrap() {
        let oid: Oid = k.parse().unwrap();
        let id = ids.entry(&oid);
        if val.is_null() {
            revisions.push((id, None));
            continue;
        }
        let r = idn.revision(&oid).expect("non-null revision");
        let mut verdicts: Vec<(u64, MVerdict)> = r
            .verdicts()
            .map(|(k, v)| {
                (
                    w.actor_of(k),
                    match v {
                        Verdict::Accept(s) => MVerdict::Accept(ids.sig_ro(s)),
                        Verdict::Reject => MVerdict::Reject,
                    },
                )
            })
            .collect();
        verdicts.sort_by_key(|x| x.0);
        revisions.push((
            id,
            Some(MRev {
                id: ids.entry(&r.id),
                blob: ids.blob(&r.blob),
                state: match r.state {
                    State::Active => "Active",
                    State::Accepted => "Accepted",
                    State::Rejected => "Rejected",
                    State::Stale => "Stale",
                },
                author: w.actor_of(r.author.public_key()),
                doc: w.mdoc(&r.doc),
                parent: r.parent.map(|p| ids.entry(&p)),
                text: text_of(&r.title),
                verdicts,
            }),
        ));
    }
    revisions.sort_by_key(|x| x.0);
    let mut heads: Vec<(u64, u64)> =
        idn.heads.iter().map(|(d, r)| (w.actor_of(d.as_key()), ids.entry(r))).collect();
    heads.sort();
    let timeline = v["timeline"]
        .as_array()
        .unwrap()
        .iter()
        .map(|x| ids.entry(&x.as_str().unwrap().parse().unwrap()))
        .collect();
    Snap { current: ids.entry(&idn.current), root: ids.entry(&idn.root), heads, revisions, timeline }
}

impl Snap {
    pub fn coq(&self) -> String {
        let heads =
            self.heads.iter().map(|(a, r)| format!("({a}, {r})")).collect::<Vec<_>>().join("; ");
        let revs = self
            .revisions
            .iter()
            .map(|(id, r)| match r {
                None => format!("({id}, None)"),
                Some(r) => {
                    let vs = r
                        .verdicts
                        .iter()
                        .map(|(a, v)| match v {
                            MVerdict::Accept(s) => format!("({a}, VAccept {s})"),
                            MVerdict::Reject => format!("({a}, VReject)"),
                        })
                        .collect::<Vec<_>>()
                        .join("; ");
                    format!(
                        "({id}, Some (mkRev {} {} {} {} {} {} {} [{}]))",
                        r.id,
                        r.blob,
                        r.text,
                        r.state,
                        r.author,
                        r.doc.coq(),
                        match r.parent {
                            Some(p) => format!("(Some {p})"),
                            None => "None".into(),
                        },
                        vs
                    )
                }
            })
            .collect::<Vec<_>>()
            .join("; ");
        let tl = self.timeline.iter().map(|x| x.to_string()).collect::<Vec<_>>().join("; ");
        format!("(mkId {} {} [{}] [{}] [{}])", self.current, self.root, heads, revs, tl)
    }
}
