//! C04: identity revisions need a majority of valid delegate signatures.
//! Drives the REAL `radicle::cob::identity::Identity` through `cob::Evaluate::{init, apply}`
//! (hand-built entries) and through `cob::get` on a real repository (stored change
//! commits, concurrent branches), evaluates the direct oracle on what the
//! implementation did and records the correspondence cases for coq/model/CobIdentity.v.
//!
//! Streams (case id `<stream>:<index>`):
//!   corpus  fixed scenarios (the suspected defects of DESIGN.md C04, boundary cases)
//!   init    `Identity::init` on the real root entry and on tampered variants of it
//!   direct  generated op lists applied with `Evaluate::apply` on hand-built entries
//!   repo    generated op DAGs stored as real change commits, evaluated by `cob::get`
mod scen;
mod world;

use std::cell::RefCell;

use hw_common::*;
use radicle::cob::identity::{Action, ApplyError, Error as IdError, Identity, State, TYPENAME};
use radicle::cob::{Entry, Evaluate, ObjectId};
use radicle_cob::Embed;
use radicle::git::Oid;
use radicle::storage::git::Repository;
use radicle_cob::change::Storage as _;
use scen::*;
use world::*;

// ------------------------------------------------------------------ running the real code

#[derive(Clone, Debug, PartialEq, Eq)]
pub enum Outcome {
    Ok,
    Err(&'static str),
    Panic(String),
}

fn panic_site(msg: &str) -> &'static str {
    if msg.contains("timeline.contains") {
        "PDebugTimeline"
    } else if msg.contains("Identity::current_mut") {
        "PCurrentMut"
    } else if msg.contains("Identity::current:") {
        "PCurrent"
    } else if msg.contains("left == right") || msg.contains("revision.parent") {
        "PAssertParent"
    } else if msg.contains("subtract with overflow") {
        "PSubOverflow"
    } else {
        "POther"
    }
}

impl Outcome {
    fn coq(&self) -> String {
        match self {
            Outcome::Ok => "OOk".into(),
            Outcome::Err(e) => format!("(OErr {e})"),
            Outcome::Panic(m) => format!("(OPanic {})", panic_site(m)),
        }
    }
    fn tag(&self) -> String {
        match self {
            Outcome::Ok => "ok".into(),
            Outcome::Err(e) => e.to_string(),
            Outcome::Panic(m) => format!("panic:{}", panic_site(m)),
        }
    }
}

fn classify(e: &IdError) -> &'static str {
    match e {
        IdError::Apply(a) => match a {
            ApplyError::Missing(_) => "EMissing",
            ApplyError::Init(_) => "EInit",
            ApplyError::InvalidSignature(..) => "EInvalidSignature",
            ApplyError::NotAuthorized => "ENotAuthorized",
            ApplyError::MissingParent => "EMissingParent",
            ApplyError::DuplicateVerdict => "EDuplicateVerdict",
            ApplyError::UnexpectedState => "EUnexpectedState",
            ApplyError::Redacted => "ERedacted",
            ApplyError::DocUnchanged => "EDocUnchanged",
            ApplyError::Git(_) | ApplyError::GitExt(_) => "EGit",
            ApplyError::Doc(_) => "EDoc",
        },
        IdError::Op(_) => "EOp",
        IdError::Doc(_) => "EDoc",
        _ => "EOther",
    }
}

/// One applied entry as the implementation saw it.
pub struct Step {
    pub op: usize,
    pub conc: bool,
    pub outcome: Outcome,
    pub before: Identity,
    pub after: Identity,
}

fn apply_real(idn: &mut Identity, e: &Entry, conc: &[(Oid, Entry)], repo: &Repository) -> Outcome {
    let r = catch(std::panic::AssertUnwindSafe(|| {
        <Identity as Evaluate<Repository>>::apply(idn, e, conc.iter().map(|(k, e)| (k, e)), repo)
    }));
    match r {
        Ok(Ok(())) => Outcome::Ok,
        Ok(Err(e)) => Outcome::Err(classify(&e)),
        Err(p) => Outcome::Panic(p),
    }
}

fn init_real(e: &Entry, repo: &Repository) -> (Outcome, Option<Identity>) {
    match catch(std::panic::AssertUnwindSafe(|| <Identity as Evaluate<Repository>>::init(e, repo))) {
        Ok(Ok(i)) => (Outcome::Ok, Some(i)),
        Ok(Err(e)) => (Outcome::Err(classify(&e)), None),
        Err(p) => (Outcome::Panic(p), None),
    }
}

/// Direct stream: `Identity::init` on the real root entry, then `apply` on hand-built entries.
/// `next` produces the ops one at a time and may look at the real state (guided generation).
fn run_direct(
    w: &World,
    b: &mut Built,
    tag: u64,
    mut next: impl FnMut(&World, &mut Built, &Identity, &[OpSpec], &[Outcome]) -> Option<OpSpec>,
) -> (Vec<OpSpec>, Vec<Step>, Vec<Vec<String>>) {
    let repo = w.repo();
    let (_, idn) = init_real(&w.root_entry, repo);
    let mut idn = idn.expect("the real root initialises");
    let mut steps = vec![];
    let mut ops: Vec<OpSpec> = vec![];
    let mut outs: Vec<Outcome> = vec![];
    let mut op_oids: Vec<Oid> = vec![];
    let mut terms = vec![];
    let sib = w.fake_oid(tag, 0xEEEE);
    let sibling = (sib, w.entry(sib, 0, 1, vec![b"{}".to_vec()]));
    while let Some(op) = next(w, b, &idn, &ops, &outs) {
        let i = ops.len();
        let oid = w.fake_oid(tag, i as u64);
        b.ids.entries.insert(oid, op_id(i));
        op_oids.push(oid);
        let (contents, t) = b.encode(w, &op, &op_oids);
        terms.push(t);
        let e = w.entry(oid, op.author, 1000 + i as u64, contents);
        let conc: Vec<(Oid, Entry)> = if op.conc { vec![sibling.clone()] } else { vec![] };
        let before = idn.clone();
        let outcome = apply_real(&mut idn, &e, &conc, repo);
        let stop = matches!(outcome, Outcome::Panic(_)) || idn.revision(&idn.current).is_none();
        outs.push(outcome.clone());
        steps.push(Step { op: i, conc: op.conc, outcome, before, after: idn.clone() });
        ops.push(op);
        if stop {
            break;
        }
    }
    (ops, steps, terms)
}

// --- repository stream: the real ChangeGraph::evaluate feeds a tracing wrapper around Identity

struct Rec {
    entry: Oid,
    conc: usize,
    outcome: Outcome,
    before: Identity,
    after: Identity,
}

thread_local! {
    static LOG: RefCell<Vec<Rec>> = const { RefCell::new(Vec::new()) };
}

#[derive(Debug)]
struct Traced(Identity);

impl Evaluate<Repository> for Traced {
    type Error = IdError;

    fn init(entry: &Entry, repo: &Repository) -> Result<Self, Self::Error> {
        <Identity as Evaluate<Repository>>::init(entry, repo).map(Traced)
    }

    fn apply<'a, I: Iterator<Item = (&'a Oid, &'a Entry)>>(
        &mut self,
        entry: &Entry,
        concurrent: I,
        repo: &Repository,
    ) -> Result<(), Self::Error> {
        let conc: Vec<(Oid, Entry)> = concurrent.map(|(k, e)| (*k, e.clone())).collect();
        let before = self.0.clone();
        let r = catch(std::panic::AssertUnwindSafe(|| {
            <Identity as Evaluate<Repository>>::apply(&mut self.0, entry, conc.iter().map(|(k, e)| (k, e)), repo)
        }));
        let (outcome, ret) = match r {
            Ok(Ok(())) => (Outcome::Ok, Ok(())),
            Ok(Err(e)) => (Outcome::Err(classify(&e)), Err(e)),
            Err(p) => (Outcome::Panic(p.clone()), Ok(())),
        };
        let panicked = matches!(outcome, Outcome::Panic(_));
        LOG.with(|l| {
            l.borrow_mut().push(Rec { entry: entry.id, conc: conc.len(), outcome, before, after: self.0.clone() })
        });
        if panicked {
            panic!("identity apply panicked");
        }
        ret
    }
}

/// Store the ops as real change commits (parents = `tips`), expose the DAG's tips through
/// namespace refs and let the real `cob::get` evaluate it.
fn run_repo(w: &World, scen: &Scen, b: &mut Built) -> (Vec<Step>, Vec<Vec<String>>, Option<Identity>) {
    let mut op_oids: Vec<Oid> = vec![];
    let mut terms = vec![];
    let mut used = vec![false; scen.ops.len()];
    for (i, op) in scen.ops.iter().enumerate() {
        // ids of earlier entries are needed to encode references to them
        let placeholder = w.fake_oid(0xABCD, i as u64);
        op_oids.push(placeholder);
        let (contents, _) = b.encode(w, op, &op_oids);
        let tips: Vec<Oid> = if op.tips.is_empty() {
            vec![w.root]
        } else {
            op.tips.iter().map(|j| { used[*j] = true; op_oids[*j] }).collect()
        };
        let e = w.store_change(&tips, op.author, op.ts, contents);
        op_oids[i] = e.id;
        b.ids.entries.insert(e.id, op_id(i));
    }
    // now that every id is known render the model-side actions
    for op in scen.ops.iter() {
        let (_, t) = b.encode(w, op, &op_oids);
        terms.push(t);
    }
    let mut layout: Vec<(usize, Oid)> = vec![];
    let heads: Vec<usize> = (0..scen.ops.len()).filter(|i| !used[*i]).collect();
    for (k, i) in heads.iter().enumerate().take(N_ACTORS) {
        layout.push((k, op_oids[*i]));
    }
    if layout.is_empty() {
        layout.push((0, w.root));
    }
    w.set_refs(&layout);
    LOG.with(|l| l.borrow_mut().clear());
    let object = ObjectId::from(w.root);
    let got = catch(std::panic::AssertUnwindSafe(|| radicle::cob::get::<Traced, _>(w.repo(), &TYPENAME, &object)));
    let recs: Vec<Rec> = LOG.with(|l| l.borrow_mut().drain(..).collect());
    let steps = recs
        .into_iter()
        .map(|r| Step {
            op: op_oids.iter().position(|o| *o == r.entry).expect("applied entry is one of ours"),
            conc: r.conc > 0,
            outcome: r.outcome,
            before: r.before,
            after: r.after,
        })
        .collect();
    let fin = match got {
        Ok(Ok(Some(c))) => Some(c.object.0),
        Ok(Ok(None)) => {
            if std::env::var("HW_LOUD").is_ok() {
                eprintln!("cob::get: no such object");
            }
            None
        }
        Ok(Err(e)) => {
            if std::env::var("HW_LOUD").is_ok() {
                eprintln!("cob::get: {e:?}");
            }
            None
        }
        Err(p) => {
            if std::env::var("HW_LOUD").is_ok() {
                eprintln!("cob::get panicked: {p}");
            }
            None
        }
    };
    // leave the repository with its identity ref pointing at the root again
    w.set_refs(&[(0, w.root)]);
    (steps, terms, fin)
}

// ------------------------------------------------------------------ the direct oracle

fn valid_signatures(prev: &radicle::cob::identity::Revision, new: &radicle::cob::identity::Revision) -> (usize, usize) {
    let n = prev.doc.delegates().len();
    let mut valid = 0;
    for d in prev.doc.delegates().iter() {
        let key = d.as_key();
        if let Some((_, sig)) = new.signatures().find(|(k, _)| *k == key) {
            if prev.doc.verify_signature(key, &sig, new.blob).is_ok() && key.verify(new.blob.as_bytes(), &sig).is_ok() {
                valid += 1;
            }
        }
    }
    (valid, n)
}

/// Independent of the model: what the property says about one applied entry, recounted with
/// the real verification functions on the real states.
fn oracle(w: &World, st: &Step, author: usize) -> Vec<(&'static str, String)> {
    let mut out = vec![];
    let (pre, post) = (&st.before, &st.after);
    if matches!(st.outcome, Outcome::Panic(_)) {
        return out;
    }
    // a state without its current revision was reported when it arose
    let Some(prev) = pre.revision(&pre.current).cloned() else {
        return out;
    };
    let a = serde_json::to_value(pre).unwrap();
    let p = serde_json::to_value(post).unwrap();
    // a rejected entry leaves no trace (Identity::op is atomic)
    if st.outcome != Outcome::Ok && a != p {
        out.push(("rejected-op-changed-identity", format!("op {} was rejected ({}) but changed the identity", st.op, st.outcome.tag())));
    }
    // non-delegates never change the identity
    if !prev.doc.is_delegate(&w.did(author)) && (pre.current != post.current || a["revisions"] != p["revisions"] || pre.heads != post.heads) {
        out.push(("non-delegate-changed-identity", format!("op {} by actor {} (not a delegate of the current document) changed the identity", st.op, author + 1)));
    }
    // the accepted (current) revision is never redacted, edited or swapped in place
    match post.revision(&pre.current) {
        None => out.push(("current-redacted", format!("op {}: the current revision disappeared", st.op))),
        Some(r) => {
            if r != &prev {
                out.push(("current-edited", format!("op {}: the current revision was modified in place", st.op)));
            }
        }
    }
    for r in pre.revisions().filter(|r| r.state == State::Accepted) {
        if post.revision(&r.id) != Some(r) {
            out.push(("accepted-revision-changed", format!("op {}: an accepted revision was modified or redacted", st.op)));
        }
    }
    match post.revision(&post.current) {
        Some(r) if r.state == State::Accepted => {}
        _ => out.push(("current-not-accepted", format!("op {}: the current revision is missing or not in state accepted", st.op))),
    }
    if post.current != pre.current {
        // `current` moves along parent links; every link needs a strict majority of valid
        // signatures among the delegates of the document it replaces
        let mut cur = post.current;
        let bound = post.revisions().count() + 1;
        for hop in 0.. {
            let Some(new) = post.revision(&cur) else {
                out.push(("adopted-non-successor", format!("op {}: adopted revision missing", st.op)));
                break;
            };
            let Some(parent) = new.parent.and_then(|p| post.revision(&p)) else {
                out.push(("adopted-non-successor", format!("op {}: the new current revision does not descend from the previous current one", st.op)));
                break;
            };
            let (valid, n) = valid_signatures(parent, new);
            if 2 * valid <= n {
                out.push((
                    "adopted-without-majority",
                    format!("op {}: a revision became current with {} valid delegate signature(s) out of {} delegates of the replaced document", st.op, valid, n),
                ));
            }
            if parent.id == pre.current {
                break;
            }
            if hop > bound {
                out.push(("adopted-non-successor", format!("op {}: parent chain of the new current revision does not reach the previous one", st.op)));
                break;
            }
            cur = parent.id;
        }
    }
    out
}

// ------------------------------------------------------------------ generation

fn pick_other(r: &mut Rng, n: usize, not: usize) -> usize {
    let mut x = r.below(n as u64) as usize;
    if x == not {
        x = (x + 1) % n;
    }
    x
}

/// One guided op: looks at the real state to make most actions meaningful.
fn gen_op(w: &World, b: &mut Built, r: &mut Rng, idn: &Identity, ops: &[OpSpec], scen_blobs: &mut Vec<BlobSpec>, wide: bool) -> OpSpec {
    let cur = idn.current().clone();
    let delegates: Vec<usize> = cur.doc.delegates().iter().map(|d| w.actor_of(d.as_key()) as usize - 1).collect();
    let entries = b.ids.entries.clone();
    let op_of = |oid: &Oid| -> Ref {
        if *oid == w.root {
            Ref::Root
        } else {
            match entries.get(oid) {
                Some(n) if *n >= 10 => Ref::Op((*n - 10) as usize),
                _ => Ref::Unknown,
            }
        }
    };
    let active: Vec<(Ref, Oid, usize)> = idn
        .revisions()
        .filter(|rv| rv.is_active())
        .map(|rv| (op_of(&rv.id), rv.blob, w.actor_of(rv.author.public_key()) as usize - 1))
        .collect();
    let all: Vec<(Ref, Oid, usize)> =
        idn.revisions().map(|rv| (op_of(&rv.id), rv.blob, w.actor_of(rv.author.public_key()) as usize - 1)).collect();
    // delegates that have not voted yet on an active revision
    let missing_votes = |rev: &Ref| -> Vec<usize> {
        idn.revisions()
            .filter(|rv| &op_of(&rv.id) == rev)
            .flat_map(|rv| {
                delegates
                    .iter()
                    .copied()
                    .filter(|d| !rv.verdicts().any(|(k, _)| k == &w.keys[*d]))
                    .collect::<Vec<_>>()
            })
            .collect()
    };
    let mut author = if r.chance(82, 100) { *r.pick(&delegates) } else { r.below(N_ACTORS as u64) as usize };
    let nacts = if r.chance(if wide { 10 } else { 4 }, 100) { r.range(2, 3) } else { 1 };
    let mut acts = vec![];
    for n in 0..nacts {
        let k = if active.is_empty() {
            // nothing to vote on: mostly propose
            if r.chance(70, 100) { 0 } else { 40 + r.below(60) }
        } else {
            match r.below(100) {
                0..=17 => 0,
                18..=66 => 50,
                67..=78 => 75,
                79..=86 => 85,
                _ => 95,
            }
        };
        let target = |r: &mut Rng| -> (Ref, Option<Oid>, usize) {
            if !active.is_empty() && r.chance(85, 100) {
                let t = r.pick(&active).clone();
                (t.0, Some(t.1), t.2)
            } else if r.chance(80, 100) {
                let t = r.pick(&all).clone();
                (t.0, Some(t.1), t.2)
            } else if r.chance(50, 100) && !ops.is_empty() {
                (Ref::Op(r.below(ops.len() as u64) as usize), None, 0)
            } else {
                (Ref::Unknown, None, 0)
            }
        };
        let act = if k < 34 {
            // propose
            let mut ds = delegates.clone();
            let mut body = w.body_of(&cur.doc);
            let mut threshold = cur.doc.threshold();
            let grow = if ds.len() < 3 { 6 } else { 3 };
            match r.below(10) {
                x if x <= grow => {
                    let cand: Vec<usize> = (0..N_ACTORS).filter(|a| !ds.contains(a)).collect();
                    if !cand.is_empty() {
                        ds.push(*r.pick(&cand));
                        let cand: Vec<usize> = (0..N_ACTORS).filter(|a| !ds.contains(a)).collect();
                        if !cand.is_empty() && r.chance(40, 100) {
                            ds.push(*r.pick(&cand));
                        }
                    } else {
                        body = (body + 1) % N_BODIES;
                    }
                }
                7 => {
                    if ds.len() > 1 {
                        let i = r.below(ds.len() as u64) as usize;
                        ds.remove(i);
                    } else {
                        body = (body + 1) % N_BODIES;
                    }
                }
                8 => {
                    threshold = r.range(1, ds.len() as u64) as usize;
                    body = (body + 1) % N_BODIES;
                }
                9 if ds.len() > 1 && r.bool() => {
                    if ds.len() > 1 {
                        ds.rotate_left(1);
                    } else {
                        body = (body + 2) % N_BODIES;
                    }
                }
                _ => body = (body + 1 + r.below(N_BODIES - 1)) % N_BODIES,
            }
            if threshold > ds.len() {
                threshold = ds.len();
            }
            let spec = match r.below(100) {
                0..=3 => BlobSpec::Doc { delegates: delegates.clone(), threshold: cur.doc.threshold(), body: w.body_of(&cur.doc), pad: false },
                4..=6 => BlobSpec::Doc { delegates: delegates.clone(), threshold: cur.doc.threshold(), body: w.body_of(&cur.doc), pad: true },
                7 | 8 => BlobSpec::Garbage(r.below(3)),
                9 | 10 => BlobSpec::Missing(r.below(3)),
                11..=13 => BlobSpec::Doc { delegates: ds, threshold, body, pad: true },
                _ => BlobSpec::Doc { delegates: ds, threshold, body, pad: false },
            };
            let blob = b.add_blob(w, &spec);
            scen_blobs.push(spec);
            let parent = match r.below(100) {
                0..=84 => Some(op_of(&idn.current)),
                85..=92 => Some(r.pick(&all).0.clone()),
                93..=94 => None,
                95..=96 => Some(Ref::Unknown),
                _ => Some(Ref::Op(ops.len())), // the op's own id
            };
            let sig = match r.below(100) {
                0..=84 => SigSpec::By { signer: author, over: blob },
                85..=89 => SigSpec::By { signer: pick_other(r, N_ACTORS, author), over: blob },
                90..=94 => SigSpec::By { signer: author, over: r.below(b.blob_oids.len() as u64) as usize },
                _ => SigSpec::Junk(r.below(4)),
            };
            Act::Revision { text: r.below(5), blob, parent, sig }
        } else if k < 70 {
            let (rev, blob, _) = target(r);
            if n == 0 && r.chance(75, 100) {
                let mv = missing_votes(&rev);
                if !mv.is_empty() {
                    author = *r.pick(&mv);
                }
            }
            let over = blob.and_then(|o| b.blob_index(&o)).unwrap_or(0);
            let sig = match r.below(100) {
                0..=77 => SigSpec::By { signer: author, over },
                78..=84 => SigSpec::By { signer: pick_other(r, N_ACTORS, author), over },
                85..=91 => SigSpec::By { signer: author, over: r.below(b.blob_oids.len() as u64) as usize },
                _ => SigSpec::Junk(r.below(4)),
            };
            Act::Accept { rev, sig }
        } else if k < 82 {
            Act::Reject { rev: target(r).0 }
        } else if k < 89 {
            // mostly edit one's own proposal
            let own: Vec<&(Ref, Oid, usize)> = active.iter().filter(|t| t.2 == author).collect();
            let rev = if !own.is_empty() && r.chance(70, 100) { r.pick(&own).0.clone() } else { target(r).0 };
            Act::Edit { rev, text: 5 + r.below(5) }
        } else {
            let own: Vec<&(Ref, Oid, usize)> = all.iter().filter(|t| t.2 == author).collect();
            let rev = if !own.is_empty() && r.chance(60, 100) { r.pick(&own).0.clone() } else { target(r).0 };
            Act::Redact { rev }
        };
        acts.push(act);
    }
    OpSpec { author, conc: r.chance(25, 100), acts, tips: vec![], ts: 0 }
}

// ------------------------------------------------------------------ recording a case

struct InitCase {
    op_term: String,
    load: String,
    repo_id: u64,
    out: Outcome,
    state: Option<Snap>,
}

fn real_init_case(w: &World, b: &Built, idn: &Identity) -> InitCase {
    InitCase {
        op_term: format!("(mkOp {} 1 false [ARevision 99 0 None {}])", ROOT_ID, b.root_sig),
        load: format!("(LDoc 0 {})", w.mdoc(&w.root_doc).coq()),
        repo_id: 0,
        out: Outcome::Ok,
        state: Some(snapshot(w, idn, &b.ids)),
    }
}

fn record(run: &mut Run, id: &str, w: &World, b: &Built, init: &InitCase, ops: &[OpSpec], steps: &[Step], terms: &[Vec<String>]) {
    let dbg = cfg!(debug_assertions);
    let ops_t: Vec<String> = steps
        .iter()
        .map(|st| {
            let o = &ops[st.op];
            format!("(mkOp {} {} {} [{}])", op_id(st.op), o.author + 1, st.conc.coq(), terms[st.op].join("; "))
        })
        .collect();
    let input = format!(
        "(CRun {} {} {} (mkInit {} {} {}) [{}])",
        dbg.coq(),
        b.sig_table(w),
        b.blob_table(w),
        init.op_term,
        init.load,
        init.repo_id,
        ops_t.join("; ")
    );
    let steps_t: Vec<String> = steps
        .iter()
        .map(|st| {
            let s = if matches!(st.outcome, Outcome::Panic(_)) {
                "None".to_string()
            } else {
                format!("(Some {})", snapshot(w, &st.after, &b.ids).coq())
            };
            format!("({}, {})", st.outcome.coq(), s)
        })
        .collect();
    let expected = format!(
        "(Obs {} {} [{}])",
        init.out.coq(),
        match &init.state {
            Some(s) => format!("(Some {})", s.coq()),
            None => "None".into(),
        },
        steps_t.join("; ")
    );
    run.case(id, input, expected);
}

fn act_kind(a: &Act) -> &'static str {
    match a {
        Act::Revision { .. } => "revision",
        Act::Edit { .. } => "edit",
        Act::Accept { .. } => "accept",
        Act::Reject { .. } => "reject",
        Act::Redact { .. } => "redact",
    }
}

/// Oracle + tallies for the steps of one scenario.
fn judge(run: &mut Run, id: &str, stream: &str, w: &World, ops: &[OpSpec], steps: &[Step], input: &Value) {
    let mut adoptions = 0;
    for st in steps {
        run.eval();
        let op = &ops[st.op];
        for (class, what) in oracle(w, st, op.author) {
            run.fail(id, class, what, input.clone());
        }
        run.tally(&format!("{stream}.outcome.{}", st.outcome.tag()));
        for a in &op.acts {
            run.tally(&format!("{stream}.action.{}", act_kind(a)));
        }
        if op.acts.len() > 1 {
            run.tally(&format!("{stream}.multi-action-op"));
        }
        if st.conc {
            run.tally(&format!("{stream}.op-with-concurrent-siblings"));
        }
        let (Some(cur_before), Some(cur_after)) = (st.before.revision(&st.before.current), st.after.revision(&st.after.current)) else {
            run.tally(&format!("{stream}.state-without-current-revision"));
            continue;
        };
        let delegate = cur_before.doc.is_delegate(&w.did(op.author));
        if !delegate {
            run.tally(&format!("{stream}.op-by-non-delegate"));
        }
        if st.after.current != st.before.current {
            adoptions += 1;
            let n = cur_before.doc.delegates().len();
            run.tally(&format!("{stream}.adoption.delegates={}", n.min(4)));
            if cur_after.doc.delegates() != cur_before.doc.delegates() {
                run.tally(&format!("{stream}.adoption.delegate-set-changed"));
            }
            if cur_after.doc.threshold() != cur_before.doc.threshold() {
                run.tally(&format!("{stream}.adoption.threshold-changed"));
            }
            if op.acts.iter().any(|a| matches!(a, Act::Accept { .. })) {
                run.tally(&format!("{stream}.adoption.by-accept"));
            }
        }
        if st.outcome == Outcome::Err("EUnexpectedState") && delegate {
            run.tally(&format!("{stream}.unexpected-state-by-delegate"));
        }
        if st.conc && st.outcome == Outcome::Ok && serde_json::to_value(&st.before).unwrap()["revisions"] == serde_json::to_value(&st.after).unwrap()["revisions"] && st.before.heads == st.after.heads {
            run.tally(&format!("{stream}.ok-op-without-effect(ignored-error)"));
        }
        let max_active = st.after.revisions().filter(|r| r.is_active()).count();
        if max_active >= 2 {
            run.tally(&format!("{stream}.state-with-2+-active-revisions"));
        }
        if st.after.revisions().any(|r| r.state == State::Rejected) {
            run.tally(&format!("{stream}.state-with-rejected-revision"));
        }
    }
    run.tally(&format!("{stream}.scenarios"));
    run.tally(&format!("{stream}.adoptions-per-scenario={}", adoptions.min(4)));
    if adoptions >= 2 {
        let key: Vec<String> = steps.iter().map(|s| format!("{}{}", s.op, s.outcome.tag())).collect();
        run.nontrivial(format!("{stream}:{}", key.join(",")));
    }
}

fn scen_json(ops: &[OpSpec], b: &Built) -> Value {
    json!({
        "blobs": b.blob_specs.iter().map(|s| format!("{s:?}")).collect::<Vec<_>>(),
        "ops": ops.iter().enumerate().map(|(i, o)| format!("op {i}: author actor {} conc={} tips={:?} {:?}", o.author + 1, o.conc, o.tips, o.acts)).collect::<Vec<_>>(),
        "legend": "actors are numbered from 1 (actor 1 founded the repository); blob 0 is the initial document; Ref::Op(i) is the revision created by op i",
    })
}

// ------------------------------------------------------------------ fixed scenarios

fn d(delegates: &[usize], body: u64) -> BlobSpec {
    BlobSpec::Doc { delegates: delegates.to_vec(), threshold: 1, body, pad: false }
}
fn op(author: usize, acts: Vec<Act>) -> OpSpec {
    OpSpec { author, conc: false, acts, tips: vec![], ts: 0 }
}
fn opc(author: usize, acts: Vec<Act>) -> OpSpec {
    OpSpec { author, conc: true, acts, tips: vec![], ts: 0 }
}
fn by(signer: usize, over: usize) -> SigSpec {
    SigSpec::By { signer, over }
}
fn propose(text: u64, blob: usize, parent: Ref, signer: usize) -> Act {
    Act::Revision { text, blob, parent: Some(parent), sig: by(signer, blob) }
}

fn corpus() -> Vec<(&'static str, Scen)> {
    let r0 = Ref::Op(0);
    let r1 = Ref::Op(1);
    vec![
        (
            "accept with an invalid signature is not counted (4 delegates)",
            Scen {
                blobs: vec![d(&[0], 0), d(&[0, 1, 2, 3], 0), d(&[0, 1, 2, 3], 1)],
                ops: vec![
                    op(0, vec![propose(1, 1, Ref::Root, 0)]),
                    op(0, vec![propose(2, 2, r0.clone(), 0)]),
                    op(1, vec![Act::Accept { rev: r1.clone(), sig: SigSpec::Junk(1) }]),
                    op(2, vec![Act::Accept { rev: r1.clone(), sig: by(2, 2) }]),
                    op(1, vec![Act::Accept { rev: r1.clone(), sig: by(2, 2) }]),
                    op(3, vec![Act::Accept { rev: r1.clone(), sig: by(3, 2) }]),
                ],
            },
        ),
        (
            "a duplicate verdict does not replace the earlier one (3 delegates)",
            Scen {
                blobs: vec![d(&[0], 0), d(&[0, 1, 2], 0), d(&[0, 1, 2], 1)],
                ops: vec![
                    op(0, vec![propose(1, 1, Ref::Root, 0)]),
                    op(0, vec![propose(2, 2, r0.clone(), 0)]),
                    op(0, vec![Act::Reject { rev: r1.clone() }]),
                    op(1, vec![Act::Reject { rev: r1.clone() }]),
                    op(1, vec![Act::Accept { rev: r1.clone(), sig: by(1, 2) }]),
                    op(2, vec![Act::Accept { rev: r1.clone(), sig: by(2, 2) }]),
                ],
            },
        ),
        (
            "deciding accept followed, in the same op, by a revision on top of the replaced document",
            // {alice} -> R1 {alice, bob}; bob proposes R2 = {bob}; alice commits
            // [accept R2, revision(parent = R1, doc = {alice})]: the second action is authored by a
            // key that is no longer a delegate once the first action has adopted R2
            Scen {
                blobs: vec![d(&[0], 0), d(&[0, 1], 0), d(&[1], 0), d(&[0], 1)],
                ops: vec![
                    op(0, vec![propose(1, 1, Ref::Root, 0)]),
                    op(1, vec![propose(2, 2, r0.clone(), 1)]),
                    op(0, vec![Act::Accept { rev: r1.clone(), sig: by(0, 2) }, propose(3, 3, r0.clone(), 0)]),
                ],
            },
        ),
        (
            "two revision actions in one op",
            Scen {
                blobs: vec![d(&[0], 0), d(&[0, 1, 2, 3], 0), d(&[0, 1, 2, 3], 1)],
                ops: vec![op(0, vec![propose(1, 1, Ref::Root, 0), propose(2, 2, Ref::Root, 0)])],
            },
        ),
        (
            "two revision actions in one op, the second on top of the first",
            Scen {
                blobs: vec![d(&[0], 0), d(&[0, 1, 2, 3], 0), d(&[0, 1, 2, 3], 1)],
                ops: vec![op(0, vec![propose(1, 1, Ref::Root, 0), propose(2, 2, Ref::Op(0), 0)])],
            },
        ),
        (
            "non-delegate proposes, accepts, rejects, redacts (with and without siblings)",
            Scen {
                blobs: vec![d(&[0], 0), d(&[0, 1], 0), d(&[0, 1, 4], 1)],
                ops: vec![
                    op(0, vec![propose(1, 1, Ref::Root, 0)]),
                    op(0, vec![propose(2, 2, r0.clone(), 0)]),
                    op(4, vec![Act::Accept { rev: r1.clone(), sig: by(4, 2) }]),
                    opc(4, vec![Act::Accept { rev: r1.clone(), sig: by(4, 2) }]),
                    opc(4, vec![propose(3, 2, r0.clone(), 4)]),
                    opc(3, vec![Act::Redact { rev: r1.clone() }]),
                    opc(3, vec![Act::Reject { rev: r1.clone() }]),
                    op(1, vec![Act::Accept { rev: r1.clone(), sig: by(1, 2) }]),
                ],
            },
        ),
        (
            "redact / edit / reject the current revision",
            Scen {
                blobs: vec![d(&[0], 0), d(&[0, 1], 0)],
                ops: vec![
                    op(0, vec![propose(1, 1, Ref::Root, 0)]),
                    op(0, vec![Act::Redact { rev: r0.clone() }]),
                    opc(0, vec![Act::Redact { rev: r0.clone() }]),
                    op(0, vec![Act::Edit { rev: r0.clone(), text: 7 }]),
                    opc(0, vec![Act::Reject { rev: r0.clone() }]),
                    opc(1, vec![Act::Accept { rev: r0.clone(), sig: by(1, 1) }]),
                    op(0, vec![Act::Redact { rev: Ref::Root }]),
                ],
            },
        ),
        (
            "rejection by a blocking minority, then votes on the rejected revision",
            Scen {
                blobs: vec![d(&[0], 0), d(&[0, 1, 2], 0), d(&[0, 1, 2], 2)],
                ops: vec![
                    op(0, vec![propose(1, 1, Ref::Root, 0)]),
                    op(0, vec![propose(2, 2, r0.clone(), 0)]),
                    op(1, vec![Act::Reject { rev: r1.clone() }]),
                    op(2, vec![Act::Reject { rev: r1.clone() }]),
                    opc(2, vec![Act::Accept { rev: r1.clone(), sig: by(2, 2) }]),
                    op(0, vec![Act::Redact { rev: r1.clone() }]),
                    opc(1, vec![Act::Accept { rev: r1.clone(), sig: by(1, 2) }]),
                ],
            },
        ),
        (
            "switching one's vote between two active revisions; stale proposal; removal of a delegate",
            Scen {
                blobs: vec![d(&[0], 0), d(&[0, 1, 2], 0), d(&[0, 1, 2], 1), d(&[0, 1], 0), d(&[0, 1], 2)],
                ops: vec![
                    op(0, vec![propose(1, 1, Ref::Root, 0)]),
                    op(0, vec![propose(2, 2, r0.clone(), 0)]),
                    op(1, vec![propose(3, 3, r0.clone(), 1)]),
                    op(0, vec![Act::Accept { rev: Ref::Op(2), sig: by(0, 3) }]),
                    op(2, vec![Act::Accept { rev: r1.clone(), sig: by(2, 2) }]),
                    op(2, vec![propose(4, 4, r0.clone(), 2)]),
                    op(2, vec![Act::Accept { rev: Ref::Op(2), sig: by(2, 3) }]),
                    op(0, vec![propose(4, 4, Ref::Op(2), 0)]),
                ],
            },
        ),
    ]
}

fn fixed_next(scen: &Scen) -> impl FnMut(&World, &mut Built, &Identity, &[OpSpec], &[Outcome]) -> Option<OpSpec> + '_ {
    move |_, _, _, ops, _| scen.ops.get(ops.len()).cloned()
}

// ------------------------------------------------------------------ init stream

fn init_variants(run: &mut Run, w: &World) {
    let real: Action = serde_json::from_slice(w.root_entry.contents.first()).unwrap();
    let Action::Revision { title, description, blob, parent: _, signature } = real.clone() else { panic!() };
    let scen = Scen { blobs: vec![d(&[0], 0), d(&[0, 1], 1)], ops: vec![] };
    // a commit carrying another document under embeds/radicle.json
    let mut b0 = Built::new(w, &scen, 1);
    let other_blob = b0.blob_oids[1];
    let other_doc = b0.blob_docs[1].clone().unwrap();
    let other_sig = w.sign(0, other_blob.as_bytes());
    let other_sid = b0.ids.sig(&other_sig);
    let other_action = Action::Revision { title: "t1".into(), description: "d1".into(), blob: other_blob, parent: None, signature: other_sig };
    let other_commit = {
        std::env::set_var("GIT_COMMITTER_DATE", "1234");
        let template = radicle::cob::change::Template {
            type_name: TYPENAME.clone(),
            tips: vec![],
            message: "c04 other root".to_string(),
            embeds: vec![Embed { name: "radicle.json".to_string(), content: other_blob }],
            contents: nonempty::NonEmpty::new(serde_json::to_vec(&other_action).unwrap()),
        };
        let e = w.repo().store(w.root_entry.resource, vec![], &w.actors[0], template).unwrap();
        std::env::remove_var("GIT_COMMITTER_DATE");
        e
    };
    let junk = w.sign(0, b"junk root");
    let junk_sid = b0.ids.sig(&junk);
    let rs = b0.root_sig;
    let enc = |a: &Action| serde_json::to_vec(a).unwrap();
    let rev = |blob: Oid, parent: Option<Oid>, signature| Action::Revision { title: title.clone(), description: description.clone(), blob, parent, signature };
    let root_doc_t = format!("(LDoc 0 {})", w.mdoc(&w.root_doc).coq());
    // (name, entry, model op term, model load term)
    let mut variants: Vec<(&str, Entry, String, String)> = vec![];
    variants.push(("real-root", w.root_entry.clone(), format!("(mkOp 1 1 false [ARevision 99 0 None {rs}])"), root_doc_t.clone()));
    let mut e = w.root_entry.clone();
    e.contents = nonempty::NonEmpty::new(enc(&Action::RevisionReject { revision: w.root }));
    variants.push(("first-action-not-a-revision", e, "(mkOp 1 1 false [AReject 1])".into(), root_doc_t.clone()));
    let mut e = w.root_entry.clone();
    e.contents = nonempty::NonEmpty::new(enc(&rev(blob, Some(w.root), signature)));
    variants.push(("root-with-parent", e, format!("(mkOp 1 1 false [ARevision 99 0 (Some 1) {rs}])"), root_doc_t.clone()));
    let mut e = w.root_entry.clone();
    e.contents = nonempty::NonEmpty::from_vec(vec![enc(&real), enc(&Action::RevisionReject { revision: w.root })]).unwrap();
    variants.push(("two-actions", e, format!("(mkOp 1 1 false [ARevision 99 0 None {rs}; AReject 1])"), root_doc_t.clone()));
    let mut e = w.root_entry.clone();
    e.contents = nonempty::NonEmpty::new(enc(&rev(other_blob, None, signature)));
    variants.push(("blob-mismatch", e, format!("(mkOp 1 1 false [ARevision 99 1 None {rs}])"), root_doc_t.clone()));
    let mut e = w.root_entry.clone();
    e.signature = radicle::crypto::ssh::ExtendedSignature::new(w.keys[1], w.sign(1, &[0]));
    variants.push(("author-is-not-the-founder", e, format!("(mkOp 1 2 false [ARevision 99 0 None {rs}])"), root_doc_t.clone()));
    let mut e = w.root_entry.clone();
    e.contents = nonempty::NonEmpty::new(enc(&rev(blob, None, junk)));
    variants.push(("invalid-root-signature", e, format!("(mkOp 1 1 false [ARevision 99 0 None {junk_sid}])"), root_doc_t.clone()));
    let mut e = w.root_entry.clone();
    e.id = w.fake_oid(1, 2);
    b0.ids.entries.insert(e.id, 6);
    variants.push(("entry-is-not-a-commit", e, format!("(mkOp 6 1 false [ARevision 99 0 None {rs}])"), "LFail".into()));
    b0.ids.entries.insert(other_commit.id, 7);
    variants.push((
        "document-is-not-the-repository-id",
        other_commit.clone(),
        format!("(mkOp 7 1 false [ARevision 1 1 None {other_sid}])"),
        format!("(LDoc 1 {})", w.mdoc(&other_doc).coq()),
    ));
    for (i, (name, entry, op_term, load)) in variants.iter().enumerate() {
        let id = format!("init:{i}");
        if !run.args.wants(&id) {
            continue;
        }
        run.eval();
        let (out, idn) = init_real(entry, w.repo());
        run.tally(&format!("init.{name}.{}", out.tag()));
        if *name != "real-root" && out == Outcome::Ok {
            run.fail(&id, "tampered-root-accepted", format!("Identity::init accepted the tampered root entry '{name}'"), json!({"variant": name}));
        }
        let init = InitCase {
            op_term: op_term.clone(),
            load: load.clone(),
            repo_id: 0,
            out,
            state: idn.as_ref().map(|i| snapshot(w, i, &b0.ids)),
        };
        record(run, &id, w, &b0, &init, &[], &[], &[]);
    }
}

// ------------------------------------------------------------------ main

fn main() {
    quiet_panics();
    let mut run = Run::new(
        "C04",
        "model.CobIdentity",
        "distinct (applied-entry, outcome) sequences with at least two adoptions of a new current revision",
    );
    run.shard_size(60);
    let w = World::new();
    let seed = run.args.seed;
    let thorough = run.args.thorough;

    // ---- corpus
    for (k, (name, scen)) in corpus().iter().enumerate() {
        let id = format!("corpus:{k}");
        if !run.args.wants(&id) {
            continue;
        }
        let tag = 100 + k as u64;
        let mut b = Built::new(&w, scen, tag);
        let (ops, steps, terms) = run_direct(&w, &mut b, tag, fixed_next(scen));
        let init_state = <Identity as Evaluate<Repository>>::init(&w.root_entry, w.repo()).unwrap();
        let init = real_init_case(&w, &b, &init_state);
        let mut input = scen_json(&ops, &b);
        input["name"] = json!(name);
        judge(&mut run, &id, "corpus", &w, &ops, &steps, &input);
        record(&mut run, &id, &w, &b, &init, &ops, &steps, &terms);
        run.sample(json!({"case": id, "name": name, "outcomes": steps.iter().map(|s| s.outcome.tag()).collect::<Vec<_>>(),
            "current_after_each_op": steps.iter().map(|s| b.ids.entry(&s.after.current)).collect::<Vec<_>>()}));
    }

    // ---- init
    init_variants(&mut run, &w);

    // ---- direct
    let n_direct = run.args.count(220, 1300);
    let mut kept: Vec<(Scen, Vec<Outcome>)> = vec![];
    for i in 0..n_direct {
        let id = format!("direct:{i}");
        if !run.args.wants(&id) {
            continue;
        }
        let mut r = Rng::for_case(seed, 1, i);
        let wide = i % 5 == 4;
        let n_ops = r.range(3, if wide { 16 } else { 11 });
        let tag = 10_000 + i;
        let empty = Scen { blobs: vec![d(&[0], 0)], ops: vec![] };
        let mut b = Built::new(&w, &empty, tag);
        let mut blobs = vec![d(&[0], 0)];
        let (ops, steps, terms) = {
            let blobs = &mut blobs;
            let r = &mut r;
            run_direct(&w, &mut b, tag, move |w, b, idn, ops, _| {
                if ops.len() as u64 >= n_ops {
                    return None;
                }
                Some(gen_op(w, b, r, idn, ops, blobs, wide))
            })
        };
        let init_state = <Identity as Evaluate<Repository>>::init(&w.root_entry, w.repo()).unwrap();
        let init = real_init_case(&w, &b, &init_state);
        let input = scen_json(&ops, &b);
        judge(&mut run, &id, "direct", &w, &ops, &steps, &input);
        record(&mut run, &id, &w, &b, &init, &ops, &steps, &terms);
        if i < 2 {
            run.sample(json!({"case": id, "scenario": input, "outcomes": steps.iter().map(|s| s.outcome.tag()).collect::<Vec<_>>()}));
        }
        kept.push((Scen { blobs, ops }, steps.iter().map(|s| s.outcome.clone()).collect()));
    }

    // ---- repo: the same kind of op lists, laid out as a DAG of real change commits
    let n_repo = run.args.count(60, 300);
    for i in 0..n_repo {
        let id = format!("repo:{i}");
        if !run.args.wants(&id) {
            continue;
        }
        let mut r = Rng::for_case(seed, 2, i);
        // guide: a direct run decides which ops succeed when applied in list order
        let n_ops = r.range(3, 10);
        let tag = 500_000 + i;
        let empty = Scen { blobs: vec![d(&[0], 0)], ops: vec![] };
        let mut bg = Built::new(&w, &empty, tag);
        let mut blobs = vec![d(&[0], 0)];
        let (mut ops, gsteps, _) = {
            let blobs = &mut blobs;
            let r = &mut r;
            run_direct(&w, &mut bg, tag, move |w, b, idn, ops, _| {
                if ops.len() as u64 >= n_ops {
                    return None;
                }
                let mut o = gen_op(w, b, r, idn, ops, blobs, false);
                o.conc = false;
                if o.acts.len() > 1 && cfg!(debug_assertions) {
                    o.acts.truncate(1);
                }
                // a stored commit cannot mention its own id
                let own = ops.len();
                let fix = |r: &mut Ref| {
                    if matches!(r, Ref::Op(k) if *k >= own) {
                        *r = Ref::Unknown;
                    }
                };
                for a in o.acts.iter_mut() {
                    match a {
                        Act::Revision { parent: Some(p), .. } => fix(p),
                        Act::Revision { .. } => {}
                        Act::Edit { rev, .. } | Act::Accept { rev, .. } | Act::Reject { rev } | Act::Redact { rev } => fix(rev),
                    }
                }
                Some(o)
            })
        };
        // layout: mostly on top of the last op that succeeded; sometimes fork from an earlier one
        let mut good: Vec<usize> = vec![];
        for j in 0..ops.len() {
            let mut tips = vec![];
            if let Some(last) = good.last() {
                if r.chance(22, 100) {
                    tips.push(*r.pick(&good));
                } else {
                    tips.push(*last);
                }
                if r.chance(8, 100) {
                    let other = *r.pick(&good);
                    if !tips.contains(&other) {
                        tips.push(other);
                    }
                }
            } else if r.chance(30, 100) && j > 0 {
                tips.push(r.below(j as u64) as usize);
            }
            ops[j].tips = tips;
            ops[j].ts = if r.chance(30, 100) { 2000 } else { 2000 + j as u64 * r.range(0, 2) };
            if gsteps.get(j).map(|s| s.outcome == Outcome::Ok).unwrap_or(false) {
                good.push(j);
            }
        }
        let scen = Scen { blobs, ops };
        let mut b = Built::new(&w, &scen, tag);
        let (steps, terms, fin) = run_repo(&w, &scen, &mut b);
        let init_state = <Identity as Evaluate<Repository>>::init(&w.root_entry, w.repo()).unwrap();
        let init = real_init_case(&w, &b, &init_state);
        let input = scen_json(&scen.ops, &b);
        judge(&mut run, &id, "repo", &w, &scen.ops, &steps, &input);
        // the object `cob::get` returns is the state after the last applied entry
        let last = steps.last().map(|s| s.after.clone()).unwrap_or(init_state.clone());
        let panicked = steps.iter().any(|s| matches!(s.outcome, Outcome::Panic(_)));
        match &fin {
            Some(f) if *f != last => run.fail(&id, "loaded-identity-differs-from-last-applied-state", "cob::get returned a different identity than the last state seen by apply".into(), input.clone()),
            None if !panicked => run.fail(&id, "identity-failed-to-load", "cob::get failed although no apply panicked".into(), input.clone()),
            _ => {}
        }
        if steps.iter().any(|s| s.conc) {
            run.tally("repo.scenarios-with-concurrent-branches");
        }
        run.tally(&format!("repo.applied-entries={}", steps.len().min(10)));
        record(&mut run, &id, &w, &b, &init, &scen.ops, &steps, &terms);
        if i < 1 {
            run.sample(json!({"case": id, "scenario": input, "applied": steps.iter().map(|s| format!("op {} conc={} {}", s.op, s.conc, s.outcome.tag())).collect::<Vec<_>>()}));
        }
    }
    let _ = (thorough, kept);
    run.note(format!("debug_assertions={}", cfg!(debug_assertions)));
    run.finish();
}
