//! C12: repository data is served only to peers allowed to see it (plus the
//! git-request-header part of C13).
//!
//! Real code driven:
//!  * `pktline::git_request` through the hook `radicle_node::worker::verif::git_request`
//!    (streams 1, 2);
//!  * the real worker `Pool` (`Worker::run/_process/is_authorized`, `upload_pack` with a real
//!    `git upload-pack`) fed with `Task { FetchRequest::Responder, .. }` over real worker
//!    `Channels`; the `TaskResult` is received by a do-nothing io-reactor `Handler` standing in
//!    for the wire service (streams 3, 4).  Storage, identity documents and the policy
//!    databases are the real ones.
//! Correspondence with coq/model/Worker.v (+Pktline.v) and the direct oracle
//! "no panic" / "served or any byte written => seeded /\ stored /\ visible", the right-hand side
//! computed here from the policy database and the identity document.
use std::collections::BTreeMap;
use std::io;
use std::os::fd::{AsRawFd, RawFd};
use std::path::PathBuf;
use std::time::{Duration, Instant};

use crossbeam_channel as chan;
use hw_common::*;

use radicle::crypto::test::signer::MockSigner;
use radicle::identity::{Did, RepoId, Visibility};
use radicle::node::device::Device;
use radicle::node::policy::{Policy, Scope, SeedingPolicy};
use radicle::node::NodeId;
use radicle::profile::Home;
use radicle::storage::{ReadRepository, ReadStorage};
use radicle::test::fixtures;
use radicle::Storage;
use radicle_node::runtime::Handle;
use radicle_node::wire::{Control, StreamId};
use radicle_node::worker::{self, ChannelEvent, Channels, ChannelsConfig, FetchRequest, FetchResult, Task, TaskResult, UploadError};
use radicle_node::Link;

// ------------------------------------------------------------------ stand-in for the wire service

struct NoRes;
impl AsRawFd for NoRes {
    fn as_raw_fd(&self) -> RawFd {
        -1
    }
}
impl io::Write for NoRes {
    fn write(&mut self, buf: &[u8]) -> io::Result<usize> {
        Ok(buf.len())
    }
    fn flush(&mut self) -> io::Result<()> {
        Ok(())
    }
}
impl reactor::WriteAtomic for NoRes {
    fn is_ready_to_write(&self) -> bool {
        true
    }
    fn empty_write_buf(&mut self) -> io::Result<bool> {
        Ok(true)
    }
    fn write_or_buf(&mut self, _buf: &[u8]) -> io::Result<()> {
        Ok(())
    }
}
impl reactor::Resource for NoRes {
    type Event = ();
    fn interests(&self) -> reactor::poller::IoType {
        reactor::poller::IoType::none()
    }
    fn handle_io(&mut self, _io: reactor::Io) -> Option<()> {
        None
    }
}

/// Receives what the workers send to the service: only `Control::Worker(TaskResult)` matters.
struct Sink {
    tx: chan::Sender<TaskResult>,
}
impl Iterator for Sink {
    type Item = reactor::Action<NoRes, NoRes>;
    fn next(&mut self) -> Option<Self::Item> {
        None
    }
}
impl reactor::Handler for Sink {
    type Listener = NoRes;
    type Transport = NoRes;
    type Command = Control;
    fn tick(&mut self, _time: reactor::Timestamp) {}
    fn handle_timer(&mut self) {}
    fn handle_listener_event(&mut self, _id: reactor::ResourceId, _event: (), _time: reactor::Timestamp) {}
    fn handle_transport_event(&mut self, _id: reactor::ResourceId, _event: (), _time: reactor::Timestamp) {}
    fn handle_registered(&mut self, _fd: RawFd, _id: reactor::ResourceId, _ty: reactor::ResourceType) {}
    fn handle_command(&mut self, cmd: Control) {
        if let Control::Worker(r) = cmd {
            let _ = self.tx.send(r);
        }
    }
    fn handle_error(&mut self, _err: reactor::Error<NoRes, NoRes>) {}
    fn handover_listener(&mut self, _id: reactor::ResourceId, _listener: NoRes) {}
    fn handover_transport(&mut self, _id: reactor::ResourceId, _transport: NoRes) {}
}

// ------------------------------------------------------------------ world

#[derive(Clone, Debug)]
struct RepoInfo {
    rid: RepoId,
    /// what the harness built: "public" | "private[]" | "private[B]" | "private[B,C]" | "broken" | "absent"
    kind: &'static str,
}

struct PoolCtx {
    name: &'static str,
    default: SeedingPolicy,
    policies_db: PathBuf,
    tasks: chan::Sender<Task>,
    results: chan::Receiver<TaskResult>,
    _reactor: reactor::Reactor<Control, reactor::poller::popol::Poller>,
    _pool_thread: std::thread::JoinHandle<()>,
    dead: bool,
    /// the `seeding` table was dropped after the workers opened the database: every policy
    /// lookup fails (policy::store::Error)
    db_broken: bool,
}

struct World {
    _tmp: tempfile::TempDir,
    storage: Storage,
    repos: Vec<RepoInfo>,
    /// requesters: index = model node id
    nodes: Vec<(&'static str, NodeId)>,
    pools: Vec<PoolCtx>,
}

const N_SERVER: usize = 0;
#[allow(dead_code)]
const N_DELEGATE: usize = 1;
const N_B: usize = 2;
const N_C: usize = 3;

fn dev(seed: u8) -> Device<MockSigner> {
    Device::mock_from_seed([seed; 32])
}

fn build_world() -> World {
    let tmp = tempfile::tempdir().unwrap();
    let server = dev(0x51);
    let delegate = dev(0xD1);
    let b = dev(0xB1);
    let c = dev(0xC1);
    let x = dev(0xE1);
    let nodes: Vec<(&'static str, NodeId)> = vec![
        ("server", *server.public_key()),
        ("delegate", *delegate.public_key()),
        ("allow-listed-B", *b.public_key()),
        ("allow-listed-C", *c.public_key()),
        ("stranger", *x.public_key()),
    ];
    let storage = Storage::open(
        tmp.path().join("storage"),
        radicle::git::UserInfo { alias: radicle::node::Alias::new("server"), key: *server.public_key() },
    )
    .unwrap();
    radicle::storage::git::transport::local::register(storage.clone());

    let did = |i: usize| Did::from(nodes[i].1);
    let mut repos = vec![];
    // four visibilities, all with the single delegate D (the policy rows are set per case)
    let viss: [(&'static str, Visibility); 4] = [
        ("public", Visibility::Public),
        ("private[]", Visibility::private([])),
        ("private[B]", Visibility::private([did(N_B)])),
        ("private[B,C]", Visibility::private([did(N_B), did(N_C)])),
    ];
    for (k, (kind, vis)) in viss.iter().enumerate() {
        let (working, _) = fixtures::repository(tmp.path().join(format!("work{k}")));
        let (rid, _, _) = radicle::rad::init(
            &working,
            format!("proj{k}").as_str().try_into().unwrap(),
            "hw-c12",
            radicle::git::RefString::try_from("master").unwrap(),
            vis.clone(),
            &delegate,
            &storage,
        )
        .unwrap();
        repos.push(RepoInfo { rid, kind });
    }
    // a repository directory whose identity document cannot be loaded
    for seed in [0x77u8] {
        let rid = RepoId::from(radicle::git::Oid::try_from(&[seed; 20][..]).unwrap());
        radicle::git::raw::Repository::init_bare(radicle::storage::git::paths::repository(&storage, &rid)).unwrap();
        repos.push(RepoInfo { rid, kind: "broken" });
    }
    // repositories that are not in storage at all
    for seed in [0x91u8] {
        let rid = RepoId::from(radicle::git::Oid::try_from(&[seed; 20][..]).unwrap());
        repos.push(RepoInfo { rid, kind: "absent" });
    }

    let mut pools = vec![];
    let defaults: [(&'static str, SeedingPolicy); 4] = [
        ("default-allow-all", SeedingPolicy::Allow { scope: Scope::All }),
        ("default-allow-followed", SeedingPolicy::Allow { scope: Scope::Followed }),
        ("default-block", SeedingPolicy::Block),
        ("policy-db-unreadable", SeedingPolicy::Allow { scope: Scope::All }),
    ];
    for (name, default) in defaults {
        let home = Home::new(tmp.path().join(name)).unwrap();
        let policies_db = home.node().join(radicle::node::POLICIES_DB_FILE);
        drop(radicle::node::policy::store::Store::open(&policies_db).unwrap());
        let (rtx, rrx) = chan::unbounded::<TaskResult>();
        let reactor = reactor::Reactor::named(Sink { tx: rtx }, reactor::poller::popol::Poller::new(), format!("sink-{name}")).unwrap();
        let handle = Handle::new(home.clone(), reactor.controller(), Default::default());
        let (ttx, trx) = chan::bounded::<Task>(8);
        let nid = nodes[N_SERVER].1;
        let pool = worker::Pool::with(
            trx,
            nid,
            handle,
            radicle::node::notifications::StoreWriter::memory().unwrap(),
            radicle::cob::cache::StoreWriter::memory().unwrap(),
            radicle::node::Database::memory().unwrap(),
            worker::Config {
                capacity: 1,
                storage: storage.clone(),
                fetch: worker::FetchConfig {
                    limit: Default::default(),
                    local: nid,
                    expiry: Default::default(),
                },
                policy: default,
                policies_db: policies_db.clone(),
            },
        )
        .unwrap();
        let pool_thread = std::thread::spawn(move || {
            let _ = pool.run();
        });
        pools.push(PoolCtx { name, default, policies_db, tasks: ttx, results: rrx, _reactor: reactor, _pool_thread: pool_thread, dead: false, db_broken: false });
    }
    let mut w = World { _tmp: tmp, storage, repos, nodes, pools };
    for p in 0..w.pools.len() {
        reset_policies(&mut w, p);
    }
    {
        let last = w.pools.last_mut().unwrap();
        sqlite::open(&last.policies_db).unwrap().execute("DROP TABLE seeding").unwrap();
        last.db_broken = true;
    }
    w
}

/// No policy rows to start with; every case sets the rows it needs.
fn initial_explicit(_i: usize) -> Option<Policy> {
    None
}

fn set_policy(w: &World, pool: usize, rid: &RepoId, p: Option<Policy>) {
    if w.pools[pool].db_broken {
        return;
    }
    let mut store = radicle::node::policy::store::Store::open(&w.pools[pool].policies_db).unwrap();
    // delete first: `seed` on an existing row does not change its policy column
    store.unseed(rid).unwrap();
    match p {
        Some(Policy::Allow) => {
            store.seed(rid, Scope::All).unwrap();
        }
        Some(Policy::Block) => {
            store.set_seed_policy(rid, Policy::Block).unwrap();
        }
        None => {}
    }
}

fn reset_policies(w: &mut World, pool: usize) {
    for i in 0..w.repos.len() {
        let rid = w.repos[i].rid;
        set_policy(w, pool, &rid, initial_explicit(i));
    }
}

// ------------------------------------------------------------------ independent reading of the state

#[derive(Clone, Debug, PartialEq)]
enum RepoState {
    Doc { delegates: Vec<Did>, public: bool, allow: Vec<Did> },
    Broken,
    Absent,
}

fn read_repo(storage: &Storage, rid: &RepoId) -> RepoState {
    if !radicle::storage::git::paths::repository(storage, rid).exists() {
        return RepoState::Absent;
    }
    match storage.repository(*rid) {
        Err(_) => RepoState::Broken,
        Ok(repo) => match repo.identity_doc() {
            Err(_) => RepoState::Broken,
            Ok(doc) => {
                let delegates: Vec<Did> = doc.delegates().iter().cloned().collect();
                match doc.visibility() {
                    Visibility::Public => RepoState::Doc { delegates, public: true, allow: vec![] },
                    Visibility::Private { allow } => RepoState::Doc { delegates, public: false, allow: allow.iter().cloned().collect() },
                }
            }
        },
    }
}

/// (explicit row, policy in force is Allow)
fn read_policy(pool: &PoolCtx, rid: &RepoId) -> (Option<bool>, bool) {
    if pool.db_broken {
        return (None, false);
    }
    let store = radicle::node::policy::store::Store::reader(&pool.policies_db).unwrap();
    let row = store.seed_policy(rid).unwrap().map(|p| matches!(p.policy, SeedingPolicy::Allow { .. }));
    let in_force = row.unwrap_or(matches!(pool.default, SeedingPolicy::Allow { .. }));
    (row, in_force)
}

struct Ids {
    map: BTreeMap<Did, usize>,
}
impl Ids {
    fn new(w: &World) -> Self {
        let mut map = BTreeMap::new();
        for (i, (_, n)) in w.nodes.iter().enumerate() {
            map.insert(Did::from(*n), i);
        }
        Ids { map }
    }
    fn id(&mut self, d: &Did) -> usize {
        let n = self.map.len();
        *self.map.entry(*d).or_insert(n)
    }
}

fn rid_bytes(rid: &RepoId) -> Vec<u8> {
    let oid: &radicle::git::Oid = rid;
    oid.as_bytes().to_vec()
}

/// Cases-file preamble: the repository ids (`hw_r<i>`) and the storage (`hw_repos`), read
/// back from the real storage once (the harness never changes the storage afterwards).
fn storage_preamble(w: &World) -> String {
    let mut ids = Ids::new(w);
    let mut out = String::new();
    let mut repos = vec![];
    for (i, r) in w.repos.iter().enumerate() {
        out.push_str(&format!("Definition hw_r{} : list N := {}.\n", i, rid_bytes(&r.rid).coq()));
        match read_repo(&w.storage, &r.rid) {
            RepoState::Absent => {}
            RepoState::Broken => repos.push(format!("(hw_r{i}, RepoBroken)")),
            RepoState::Doc { delegates, public, allow } => {
                let ds: Vec<usize> = delegates.iter().map(|d| ids.id(d)).collect();
                let vis = if public { "Public".to_string() } else { format!("(Private {})", allow.iter().map(|d| ids.id(d)).collect::<Vec<_>>().coq()) };
                repos.push(format!("(hw_r{i}, RepoDoc {{| d_delegates := {}; d_visibility := {} |}})", ds.coq(), vis));
            }
        }
    }
    out.push_str(&format!("Definition hw_repos : list (list N * repo_entry) := [{}].\n", repos.join("; ")));
    out
}

/// Gallina `state` of pool `p`: the policy rows are read back from the policy database.
fn state_term(w: &World, p: usize) -> String {
    let pool = &w.pools[p];
    let unreadable = format!(
        "{{| st_default := {}; st_policy_err := true; st_explicit := []; st_repos := hw_repos |}}",
        if matches!(pool.default, SeedingPolicy::Allow { .. }) { "Allow" } else { "Block" }
    );
    let Ok(store) = radicle::node::policy::store::Store::reader(&pool.policies_db) else { return unreadable };
    if store.seed_policy(&w.repos[0].rid).is_err() {
        return unreadable;
    }
    let mut explicit = vec![];
    for (i, r) in w.repos.iter().enumerate() {
        if let Some(pol) = store.seed_policy(&r.rid).unwrap() {
            explicit.push(format!("(hw_r{i}, {})", if matches!(pol.policy, SeedingPolicy::Allow { .. }) { "Allow" } else { "Block" }));
        }
    }
    format!(
        "{{| st_default := {}; st_policy_err := false; st_explicit := [{}]; st_repos := hw_repos |}}",
        if matches!(pool.default, SeedingPolicy::Allow { .. }) { "Allow" } else { "Block" },
        explicit.join("; ")
    )
}

// ------------------------------------------------------------------ headers

const EXTERNAL: &str = "07fFbBcCvVtThmMuU";

/// What the data-encoding decoders of `multibase` return for the repository id text of this
/// stream (passed to the model as data, as in C21): looks at the declared pkt-line only.
fn ext_term(stream: &[u8]) -> String {
    let none = "None".to_string();
    if stream.len() < 4 {
        return none;
    }
    let Ok(l) = std::str::from_utf8(&stream[..4]) else { return none };
    let Ok(len) = usize::from_str_radix(l, 16) else { return none };
    if len < 4 || len > stream.len() {
        return none;
    }
    let Ok(body) = std::str::from_utf8(&stream[4..len]) else { return none };
    let Some(rest) = body.strip_prefix("git-upload-pack /") else { return none };
    let path = rest.split('\0').next().unwrap_or("");
    let text = path.strip_prefix("rad:").unwrap_or(path);
    match text.chars().next() {
        Some(c) if EXTERNAL.contains(c) => multibase::decode(text).ok().map(|(_, b)| b).coq(),
        _ => none,
    }
}

fn chars(s: &str) -> String {
    s.chars().map(|c| c as u32).collect::<Vec<u32>>().coq()
}

fn rid_texts(r: &mut Rng, oid: &[u8]) -> (String, String) {
    use multibase::Base::*;
    let canonical = multibase::encode(Base58Btc, oid);
    match r.below(16) {
        0..=4 => ("rid-canonical".into(), canonical),
        5..=6 => ("rid-rad-prefix".into(), format!("rad:{canonical}")),
        7 => {
            let b = *r.pick(&[Base16Lower, Base16Upper, Base32Lower, Base32Upper, Base58Flickr, Base64, Base64Url, Base36Lower, Base36Upper, Base10, Base32Z, Base32HexLower, Base64Pad, Base8, Base2]);
            let t = multibase::encode(b, oid);
            ("rid-other-base".into(), if r.bool() { format!("rad:{t}") } else { t })
        }
        8 => {
            // wrong length: 19 or 21 bytes (or empty)
            let mut o = oid.to_vec();
            match r.below(3) {
                0 => {
                    o.pop();
                }
                1 => o.push(r.next() as u8),
                _ => o.clear(),
            }
            ("rid-wrong-length".into(), multibase::encode(Base58Btc, &o))
        }
        9 => {
            // wrong / unknown base code in front of the base58 payload
            let c = *r.pick(&['Z', 'y', 'x', '1', 'Q', 'f', 'm', '9', 'k', 'é']);
            ("rid-wrong-base".into(), format!("{}{}", c, &canonical[1..]))
        }
        10 => {
            // a character outside the alphabet
            let mut t: Vec<char> = canonical.chars().collect();
            let i = r.range(1, t.len() as u64 - 1) as usize;
            t[i] = *r.pick(&['0', 'O', 'I', 'l', '-', ' ', 'é', '/']);
            ("rid-bad-char".into(), t.into_iter().collect())
        }
        11 => ("rid-git-suffix".into(), format!("{canonical}.git")),
        12 => ("rid-double-prefix".into(), format!("rad:rad:{canonical}")),
        13 => ("rid-empty".into(), String::new()),
        14 => ("rid-leading-ones".into(), format!("z1{}", &canonical[1..])),
        _ => ("rid-upper-prefix".into(), format!("RAD:{canonical}")),
    }
}

/// A header for `oid`; `(kind, stream bytes)`.  `force_ok`: canonical well-formed v2 header.
fn header(r: &mut Rng, oid: &[u8], force_ok: bool, tail: &[u8]) -> (String, Vec<u8>) {
    let mut kinds = vec![];
    let mut body: Vec<u8> = vec![];
    if force_ok {
        body.extend_from_slice(format!("git-upload-pack /{}\0\0version=2\0", multibase::encode(multibase::Base::Base58Btc, oid)).as_bytes());
        let mut out = format!("{:04x}", body.len() + 4).into_bytes();
        out.extend(body);
        out.extend_from_slice(tail);
        return ("canonical".into(), out);
    }
    // command
    match r.below(12) {
        0 => {
            kinds.push("cmd-other");
            body.extend_from_slice(r.pick(&["git-receive-pack ", "git-upload-pack", "GIT-UPLOAD-PACK ", "git-upload-pack  ", " git-upload-pack ", ""]).as_bytes())
        }
        _ => body.extend_from_slice(b"git-upload-pack "),
    }
    // path
    let (rk, text) = rid_texts(r, oid);
    kinds.push(Box::leak(rk.into_boxed_str()));
    match r.below(12) {
        0 => kinds.push("path-no-slash"),
        1 => {
            kinds.push("path-double-slash");
            body.extend_from_slice(b"//")
        }
        _ => body.push(b'/'),
    }
    body.extend_from_slice(text.as_bytes());
    // host part
    let host = match r.below(14) {
        0..=4 => {
            kinds.push("host-empty");
            Some(String::new())
        }
        5 => {
            kinds.push("host-name");
            Some("host=seed.radicle.xyz".into())
        }
        6 => {
            kinds.push("host-port");
            Some(format!("host=seed.radicle.xyz:{}", r.pick(&["8776", "0", "65535", "00080", "+443"])))
        }
        7 => {
            kinds.push("host-bad-port");
            Some(format!("host=h:{}", r.pick(&["65536", "99999", "", "+", "-1", "80a", " 80", "8 0", "1:2", "١٢"])))
        }
        8 => {
            kinds.push("host-not-host");
            Some(r.pick(&["hots=x", "host", "HOST=x", "version=2", "=x"]).to_string())
        }
        9 => {
            kinds.push("host-unicode");
            Some("host=séed.радикл:8776".into())
        }
        10 => {
            kinds.push("no-nul-after-path");
            None
        }
        _ => {
            kinds.push("host-empty");
            Some(String::new())
        }
    };
    if let Some(h) = &host {
        body.push(0);
        body.extend_from_slice(h.as_bytes());
        // extra parameters
        let extras: Vec<&str> = match r.below(16) {
            0..=5 => {
                kinds.push("extra-version2");
                vec!["", "version=2"]
            }
            6 => {
                kinds.push("extra-version2-no-gap");
                vec!["version=2"]
            }
            7 => {
                kinds.push("extra-version1");
                vec!["", "version=1"]
            }
            8 => {
                kinds.push("extra-version-first-wins");
                if r.bool() { vec!["", "version=1", "version=2"] } else { vec!["", "version=2", "version=1"] }
            }
            9 => {
                kinds.push("extra-more-params");
                vec!["", "", "object-format=sha1", "flag", "version=2", "a=b=c", ""]
            }
            10 => {
                kinds.push("extra-version-odd");
                vec!["", *r.pick(&["version", "version=", "version=2=3", "Version=2", "version=02", "version= 2", "version=0", "version=3", "=2"])]
            }
            11 => {
                kinds.push("extra-none");
                vec![]
            }
            12 => {
                kinds.push("extra-keyless-then-version");
                vec!["", "version", "version=2"]
            }
            _ => {
                kinds.push("extra-version2");
                vec!["", "version=2"]
            }
        };
        for e in &extras {
            body.push(0);
            body.extend_from_slice(e.as_bytes());
        }
        if r.chance(5, 6) {
            body.push(0);
        } else {
            kinds.push("no-final-nul");
        }
    }
    // byte-level damage
    match r.below(24) {
        0 => {
            kinds.push("non-utf8");
            let i = r.below(body.len() as u64 + 1) as usize;
            let bad: &[u8] = *r.pick(&[&[0xff][..], &[0xc0, 0xaf], &[0xed, 0xa0, 0x80], &[0xf4, 0x90, 0x80, 0x80], &[0xe2, 0x82], &[0x80], &[0xf0, 0x80, 0x80, 0x80]]);
            for (k, b) in bad.iter().enumerate() {
                body.insert(i + k, *b);
            }
        }
        1 => {
            kinds.push("utf8-multibyte");
            let i = r.below(body.len() as u64 + 1) as usize;
            let good = r.pick(&["é", "€", "𝄞", "\u{7ff}", "\u{800}", "\u{ffff}", "\u{10000}", "\u{10ffff}", "\u{d7ff}", "\u{e000}"]).as_bytes().to_vec();
            for (k, b) in good.iter().enumerate() {
                body.insert(i + k, *b);
            }
        }
        _ => {}
    }
    if body.len() > 1020 {
        body.truncate(1020);
    }
    // length field
    let real = body.len() + 4;
    let len_field: Vec<u8> = match r.below(20) {
        0 => {
            kinds.push("len-upper-hex");
            format!("{:04X}", real).into_bytes()
        }
        1 => {
            kinds.push("len-short");
            format!("{:04x}", r.range(4, real as u64)).into_bytes()
        }
        2 => {
            kinds.push("len-long");
            format!("{:04x}", r.range(real as u64 + 1, real as u64 + 40).min(1024)).into_bytes()
        }
        3 if real < 0x1000 => {
            kinds.push("len-plus-sign");
            format!("+{:03x}", real).into_bytes()
        }
        _ => format!("{:04x}", real).into_bytes(),
    };
    let mut out = len_field;
    out.extend(body);
    if r.chance(1, 25) {
        kinds.push("truncated");
        let n = r.below(out.len() as u64) as usize;
        out.truncate(n);
    } else {
        out.extend_from_slice(tail);
    }
    (kinds.join("+"), out)
}

// ------------------------------------------------------------------ stream 1/2: the parser through the hook

fn code_of_io(e: &io::Error) -> &'static str {
    match e.kind() {
        io::ErrorKind::InvalidInput => "RInvalidInput",
        io::ErrorKind::UnexpectedEof => "RUnexpectedEof",
        io::ErrorKind::InvalidData => "RInvalidData",
        _ => "ROther",
    }
}

/// Runs the real parser; returns the `obs` term and a short tag.
fn parse_real(stream: &[u8]) -> (String, &'static str) {
    let owned = stream.to_vec();
    let r = catch(move || {
        let mut rd = &owned[..];
        radicle_node::worker::verif::git_request(&mut rd)
    });
    match r {
        Err(_) => ("OReq RPanic None".into(), "panic"),
        Ok(Err(e)) => (format!("OReq {} None", code_of_io(&e)), "err"),
        Ok(Ok((rid, path, extra))) => {
            let ex: Vec<String> = extra
                .iter()
                .map(|(k, v)| format!("({}, {})", chars(k), v.as_ref().map(|v| Raw(chars(v))).coq()))
                .collect();
            (format!("OReq ROk (Some ({}, {}, [{}]))", rid_bytes(&rid).coq(), chars(&path), ex.join("; ")), "ok")
        }
    }
}

fn parser_case(run: &mut Run, id: &str, kind: &str, stream: &[u8], record: bool) {
    run.eval();
    let (obs, tag) = parse_real(stream);
    run.tally(&format!("parse:{tag}"));
    if tag == "panic" {
        run.fail(
            id,
            "git-request-header-panic",
            format!("pktline::git_request panics on a {}-byte stream starting {:?}", stream.len(), String::from_utf8_lossy(&stream[..stream.len().min(24)])),
            json!({"kind": kind, "stream_hex": stream.iter().map(|b| format!("{:02x}", b)).collect::<String>()}),
        );
    }
    if record {
        run.case(id, format!("CGitRequest {} {}", ext_term(stream), coq_bytes(stream)), obs);
    }
    if tag == "ok" {
        run.nontrivial(format!("ok:{kind}"));
    }
}

fn stream_lengths(run: &mut Run) {
    // every 4-hex-digit length value, with a body that is long enough, exactly 0..3 bytes short,
    // or absent.  Oracle on all of them; Coq correspondence on the boundaries and a sample.
    let seed = run.args.seed;
    let good = b"git-upload-pack /z3gqcJUoA1n9HaHKufZs5FCSGazv5\0\0version=2\0";
    let sample_every = if run.args.thorough { 61 } else { 211 };
    for l in 0..=0xffffu32 {
        let id = format!("1:{l}");
        if !run.args.wants(&id) {
            continue;
        }
        let mut r = Rng::for_case(seed, 1, l as u64);
        let mut s = format!("{:04x}", l).into_bytes();
        let body_len = (l as usize).saturating_sub(4);
        let have = match r.below(4) {
            0 => body_len.saturating_sub(r.range(1, 3) as usize),
            1 => 0,
            _ => body_len + r.below(3) as usize,
        }
        .min(if l > 1024 { 48 } else { 2000 });
        let mut body: Vec<u8> = good.iter().cloned().cycle().take(have).collect();
        if l as usize == good.len() + 4 && have >= body_len {
            body = good.to_vec();
        }
        s.extend(body);
        let boundary = l <= 8 || (1016..=1032).contains(&l) || l == 0xffff || l as usize == good.len() + 4 || (0xfff0..=0xffff).contains(&l);
        let record = boundary || l % sample_every == (seed % sample_every as u64) as u32;
        run.tally(if l < 4 { "len:<4" } else if l > 1024 { "len:>1024" } else { "len:4..1024" });
        parser_case(run, &id, "length-sweep", &s, record);
    }
    // other shapes of the 4 length bytes
    let shapes: Vec<Vec<u8>> = vec![
        b"".to_vec(), b"0".to_vec(), b"00".to_vec(), b"000".to_vec(),
        b"+000".to_vec(), b"+003".to_vec(), b"+004".to_vec(), b"+3fa".to_vec(), b"+400".to_vec(), b"+401".to_vec(), b"+fff".to_vec(),
        b"-004".to_vec(), b"-000".to_vec(), b"++04".to_vec(), b"0+04".to_vec(), b"   4".to_vec(), b"4   ".to_vec(), b"0x10".to_vec(),
        b"00 4".to_vec(), b"003G".to_vec(), b"003g".to_vec(), b"\0\0\0\x04".to_vec(), vec![0xff, 0xff, 0xff, 0xff], vec![0xc3, 0xa9, b'0', b'4'],
        vec![b'0', b'0', 0xc3, 0xa9], vec![0xe2, 0x82, 0xac, b'4'], vec![0xf0, 0x9d, 0x84, 0x9e], vec![b'0', 0xef, 0xbc, 0x94],
        b"003E".to_vec(), b"003e".to_vec(), b"003A".to_vec(), b"0400".to_vec(), b"0401".to_vec(), b"FFFF".to_vec(),
    ];
    for (i, sh) in shapes.iter().enumerate() {
        for (j, tail) in [&b""[..], &good[..], &[b'a'; 1100][..]].iter().enumerate() {
            let id = format!("1:s{i}.{j}");
            if !run.args.wants(&id) {
                continue;
            }
            let mut s = sh.clone();
            s.extend_from_slice(tail);
            run.tally("len:odd-shape");
            parser_case(run, &id, "length-shape", &s, true);
        }
    }
}

fn stream_headers(run: &mut Run, w: &World) {
    let n = run.args.count(1200, 5000);
    let seed = run.args.seed;
    for i in 0..n {
        let id = format!("2:{i}");
        if !run.args.wants(&id) {
            continue;
        }
        let mut r = Rng::for_case(seed, 2, i);
        let oid: Vec<u8> = if r.chance(1, 3) { rid_bytes(&r.pick(&w.repos).rid) } else if r.chance(1, 6) {
            // leading zero bytes (leading '1's in base58)
            let mut o = r.bytes(20);
            for b in o.iter_mut().take(r.range(1, 3) as usize) {
                *b = 0;
            }
            o
        } else { r.bytes(20) };
        let tail = if r.bool() { &b"0014command=ls-refs\n0000"[..] } else { &b""[..] };
        let (kind, s) = if r.chance(1, 40) {
            let n = r.below(40) as usize;
            ("random-bytes".to_string(), r.bytes(n))
        } else {
            let ok = r.chance(1, 10);
            header(&mut r, &oid, ok, tail)
        };
        for k in kind.split('+') {
            run.tally(&format!("hdr:{k}"));
        }
        if i < 8 {
            run.sample(json!({"case": id, "kind": kind, "stream": String::from_utf8_lossy(&s)}));
        }
        parser_case(run, &id, &kind, &s, true);
    }
}

// ------------------------------------------------------------------ stream 3/4: the real worker pool

struct Served {
    rid: Option<RepoId>,
    code: &'static str,
    data: Vec<u8>,
    detail: String,
}

/// `(oid, refname)` advertised in an ls-refs response found in the stream output.
fn advertised_refs(data: &[u8]) -> Vec<(String, String)> {
    let mut i = 0;
    let mut out = vec![];
    while i + 4 <= data.len() {
        let Ok(l) = std::str::from_utf8(&data[i..i + 4]) else { break };
        let Ok(l) = usize::from_str_radix(l, 16) else { break };
        if l < 4 {
            i += 4;
            continue;
        }
        if i + l > data.len() {
            break;
        }
        let line = String::from_utf8_lossy(&data[i + 4..i + l]).to_string();
        let line = line.trim_end();
        if line.len() > 41 && line.as_bytes()[40] == b' ' && line[..40].bytes().all(|b| b.is_ascii_hexdigit()) {
            let name = line[41..].split(' ').next().unwrap_or("").to_string();
            out.push((line[..40].to_string(), name));
        }
        i += l;
    }
    out
}

/// The advertised references that do NOT resolve to the advertised object in the storage
/// directory of `rid` (read with libgit2, independently of the worker).
fn foreign_refs(storage: &Storage, rid: &RepoId, adv: &[(String, String)]) -> Vec<(String, String)> {
    let Ok(repo) = radicle::git::raw::Repository::open_bare(radicle::storage::git::paths::repository(storage, rid)) else { return adv.to_vec() };
    adv.iter()
        .filter(|(oid, name)| repo.refname_to_id(name).map(|o| o.to_string() != *oid).unwrap_or(true))
        .cloned()
        .collect()
}

fn flush_count(data: &[u8]) -> usize {
    // count pkt-line flush packets in a (prefix of a) pkt-line stream
    let mut i = 0;
    let mut n = 0;
    while i + 4 <= data.len() {
        let Ok(l) = std::str::from_utf8(&data[i..i + 4]) else { break };
        let Ok(l) = usize::from_str_radix(l, 16) else { break };
        if l == 0 {
            n += 1;
            i += 4;
        } else if l < 4 {
            i += 4;
        } else {
            i += l;
        }
    }
    n
}

fn request(pool: &mut PoolCtx, remote: NodeId, stream: &[u8]) -> Served {
    let (ours, theirs) = Channels::<Vec<u8>>::pair(ChannelsConfig::new(Duration::from_secs(4))).unwrap();
    let task = Task {
        fetch: FetchRequest::Responder { remote, emitter: Default::default() },
        stream: StreamId::git(Link::Inbound),
        channels: theirs,
    };
    let mut data = vec![];
    if pool.dead || pool.tasks.send_timeout(task, Duration::from_secs(5)).is_err() {
        pool.dead = true;
        return Served { rid: None, code: "RPanic", data, detail: "worker thread is gone".into() };
    }
    let _ = ours.send(ChannelEvent::Data(stream.to_vec()));
    let complete = stream.len() >= 4
        && std::str::from_utf8(&stream[..4])
            .ok()
            .and_then(|l| usize::from_str_radix(l, 16).ok())
            .map(|l| l < 4 || l > 1024 || stream.len() >= l)
            .unwrap_or(true);
    let t0 = Instant::now();
    let mut eof_sent = false;
    let mut result = None;
    loop {
        match pool.results.recv_timeout(Duration::from_millis(5)) {
            Ok(r) => {
                result = Some(r);
            }
            Err(chan::RecvTimeoutError::Timeout) => {}
            Err(chan::RecvTimeoutError::Disconnected) => break,
        }
        for ev in ours.try_iter() {
            if let ChannelEvent::Data(d) = ev {
                data.extend(d);
            }
        }
        if result.is_some() {
            break;
        }
        let el = t0.elapsed();
        // A complete pkt-line never makes the worker wait for more header bytes: then either the
        // result arrives at once (refused) or git is starting (be patient, the machine may be
        // loaded).  An incomplete one needs the end-of-stream now.
        let want_eof = if data.is_empty() {
            !complete || el > Duration::from_secs(8)
        } else {
            flush_count(&data) >= 2 || el > Duration::from_secs(10)
        };
        if want_eof && !eof_sent {
            let _ = ours.send(ChannelEvent::Eof);
            eof_sent = true;
        }
        if el > Duration::from_secs(40) {
            break;
        }
    }
    match result {
        None => {
            pool.dead = true;
            Served { rid: None, code: "RPanic", data, detail: "no TaskResult within 40 s (worker thread panicked or hung)".into() }
        }
        Some(TaskResult { result: FetchResult::Responder { rid, result }, .. }) => {
            let (code, detail) = match &result {
                Ok(()) => ("ROk", String::new()),
                Err(UploadError::Io(e)) | Err(UploadError::PacketLine(e)) => (code_of_io(e), e.to_string()),
                Err(e @ UploadError::Unauthorized(..)) => ("RUnauthorized", e.to_string()),
                Err(e @ UploadError::Repository(..)) | Err(e @ UploadError::Storage(..)) | Err(e @ UploadError::Identity(..)) => ("RRepository", e.to_string()),
                Err(e @ UploadError::PolicyStore(..)) => ("RPolicyStore", e.to_string()),
            };
            Served { rid, code, data, detail }
        }
        Some(_) => Served { rid: None, code: "ROther", data, detail: "initiator result?".into() },
    }
}

/// One request against pool `p`: correspondence case + direct oracle.
fn pool_case(run: &mut Run, w: &mut World, id: &str, p: usize, node: usize, kind: &str, stream: &[u8]) {
    pool_case_locked(run, w, id, p, node, kind, stream, None)
}

/// `lock`: a connection holding the policy database exclusively while the request is handled
/// (released right after the worker answered, before the oracle reads the database).
fn pool_case_locked(run: &mut Run, w: &mut World, id: &str, p: usize, node: usize, kind: &str, stream: &[u8], lock: Option<sqlite::Connection>) {
    run.eval();
    let st = state_term(w, p);
    let remote = w.nodes[node].1;
    let s = request(&mut w.pools[p], remote, stream);
    if let Some(c) = lock {
        c.execute("ROLLBACK").unwrap();
    }
    let input = json!({
        "pool": w.pools[p].name, "requester": w.nodes[node].0, "header_kind": kind,
        "stream": String::from_utf8_lossy(stream), "result": s.code, "detail": s.detail,
        "rid": s.rid.map(|r| r.to_string()), "bytes_written": s.data.len(),
    });
    run.tally(&format!("proc:{}", s.code));
    if s.code == "RPanic" {
        run.fail(id, "responder-panic", format!("the worker did not answer: {}", s.detail), input.clone());
    }
    // ---- direct oracle: independent of the model and of Worker::is_authorized
    let served = s.code == "ROk";
    if served || !s.data.is_empty() {
        let what = if served { "request served" } else { "bytes written to the stream of a refused request" };
        match s.rid {
            None => run.fail(id, "data-without-repository", format!("{what} but no repository id was parsed"), input.clone()),
            Some(rid) => {
                let (_, seeded) = read_policy(&w.pools[p], &rid);
                let did = Did::from(remote);
                match read_repo(&w.storage, &rid) {
                    RepoState::Doc { delegates, public, allow } => {
                        let visible = public || delegates.contains(&did) || allow.contains(&did);
                        if !seeded {
                            run.fail(id, "served-unseeded", format!("{what}: {} to {} although the policy in force for it is Block", rid, w.nodes[node].0), input.clone());
                        }
                        if !visible {
                            run.fail(id, "served-not-visible", format!("{what}: private {} to {} who is neither delegate nor allow-listed", rid, w.nodes[node].0), input.clone());
                        }
                        if seeded && visible {
                            run.nontrivial(format!("served:{}:{}:{}", w.pools[p].name, rid, w.nodes[node].0));
                            run.tally(if s.data.is_empty() { "served:no-bytes-before-eof" } else { "served:with-data" });
                            if flush_count(&s.data) >= 2 {
                                run.tally("served:ls-refs-complete");
                            }
                            // the data is that of the repository that was asked for and checked
                            let adv = advertised_refs(&s.data);
                            if !adv.is_empty() {
                                run.tally("served:refs-advertised");
                                let foreign = foreign_refs(&w.storage, &rid, &adv);
                                if !foreign.is_empty() {
                                    run.fail(id, "served-other-repository-data", format!("the stream carries references that are not in {}: {:?}", rid, &foreign[..foreign.len().min(3)]), input.clone());
                                }
                            }
                        }
                    }
                    _ => run.fail(id, "served-no-repository", format!("{what}: {} which has no loadable identity document", rid), input.clone()),
                }
            }
        }
    }
    if !served && !s.data.is_empty() {
        run.fail(id, "data-on-refusal", format!("{} bytes were written to the stream although the request ended with {}", s.data.len(), s.code), input.clone());
    }
    if !served {
        run.nontrivial(format!("refused:{}:{}:{}:{}", w.pools[p].name, s.rid.map(|r| r.to_string()).unwrap_or_default(), w.nodes[node].0, s.code));
    }
    run.sample(json!({"case": id, "input": input}));
    let obs = format!(
        "OProc {} {} {}",
        s.rid.map(|r| Raw(rid_bytes(&r).coq())).coq(),
        s.code,
        (!s.data.is_empty()).coq()
    );
    run.case(id, format!("CProcess {} {} {} {}", st, node, ext_term(stream), coq_bytes(stream)), obs);
}

const LS_REFS: &[u8] = b"0014command=ls-refs\n0001000csymrefs\n0000";

const ROWS: [(&str, Option<Policy>); 3] = [("row-allow", Some(Policy::Allow)), ("row-block", Some(Policy::Block)), ("row-none", None)];

fn stream_enumerate(run: &mut Run, w: &mut World) {
    // complete: default policy x explicit row x repository (4 visibilities, broken, absent) x
    // requester, canonical header
    let seed = run.args.seed;
    let mut k = 0u64;
    for p in 0..w.pools.len() {
        let rows: &[(&str, Option<Policy>)] = if w.pools[p].db_broken { &ROWS[2..] } else { &ROWS[..] };
        for (row_name, row) in rows {
            for i in 0..w.repos.len() {
                let rid = w.repos[i].rid;
                for node in 0..w.nodes.len() {
                    let id = format!("3:{k}");
                    k += 1;
                    if !run.args.wants(&id) {
                        continue;
                    }
                    set_policy(w, p, &rid, *row);
                    let mut r = Rng::for_case(seed, 3, k);
                    let oid = rid_bytes(&rid);
                    let (kind, s) = header(&mut r, &oid, true, LS_REFS);
                    run.tally(&format!("enum:{}:{}:{}", if w.pools[p].db_broken { "db-unreadable" } else if matches!(w.pools[p].default, SeedingPolicy::Block) { "dflt-block" } else { "dflt-allow" }, row_name, w.repos[i].kind));
                    run.tally(&format!("requester:{}", w.nodes[node].0));
                    pool_case(run, w, &id, p, node, &kind, &s);
                }
                set_policy(w, p, &rid, None);
            }
        }
    }
    run.exhaustive = true;
}

fn stream_mutate(run: &mut Run, w: &mut World) {
    // random sessions: the policy rows are rewritten before the request (the requested
    // repository's row and a second, unrelated row); every header shape; unknown repositories
    let n = run.args.count(100, 500);
    let seed = run.args.seed;
    for i in 0..n {
        let id = format!("4:{i}");
        if !run.args.wants(&id) {
            continue;
        }
        let mut r = Rng::for_case(seed, 4, i);
        let p = r.below(w.pools.len() as u64 - 1) as usize;
        let node = r.below(w.nodes.len() as u64) as usize;
        let ri = r.below(w.repos.len() as u64) as usize;
        let rid = w.repos[ri].rid;
        let (row_name, newp) = *r.pick(&ROWS);
        let other = w.repos[r.below(w.repos.len() as u64) as usize].rid;
        let (_, otherp) = *r.pick(&ROWS);
        reset_policies(w, p);
        if other != rid {
            set_policy(w, p, &other, otherp);
        }
        set_policy(w, p, &rid, newp);
        run.tally(&format!("mut:{row_name}"));
        let oid = if r.chance(1, 12) { r.bytes(20) } else { rid_bytes(&rid) };
        let ok = r.chance(1, 3);
        let (kind, s) = header(&mut r, &oid, ok, LS_REFS);
        for k in kind.split('+') {
            run.tally(&format!("mhdr:{k}"));
        }
        pool_case(run, w, &id, p, node, &kind, &s);
        reset_policies(w, p);
    }
}

/// The policy database cannot be read while the request is handled (another connection holds
/// it exclusively for longer than the reader's busy timeout): the repository's row says Block,
/// the default is Allow, the repository is public.
fn stream_db_locked(run: &mut Run, w: &mut World) {
    let id = "7:0";
    if !run.args.wants(id) {
        return;
    }
    let (p, ri, node) = (0usize, 0usize, 4usize);
    let rid = w.repos[ri].rid;
    set_policy(w, p, &rid, Some(Policy::Block));
    let oid = rid_bytes(&rid);
    let mut r = Rng::for_case(run.args.seed, 7, 0);
    let (kind, s) = header(&mut r, &oid, true, LS_REFS);
    let lock = sqlite::open(&w.pools[p].policies_db).unwrap();
    lock.execute("BEGIN EXCLUSIVE").unwrap();
    run.tally("db-locked-during-request");
    pool_case_locked(run, w, id, p, node, &kind, &s, Some(lock));
    set_policy(w, p, &rid, None);
}

/// Parseable (and a few unparseable) header shapes, deterministic: (name, body)
fn shapes(oid: &[u8]) -> Vec<(&'static str, Vec<u8>)> {
    use multibase::Base::*;
    let z = multibase::encode(Base58Btc, oid);
    let f = multibase::encode(Base16Lower, oid);
    let m = multibase::encode(Base64, oid);
    let v: Vec<(&'static str, String)> = vec![
        ("canonical", format!("git-upload-pack /{z}\0\0version=2\0")),
        ("rad-prefix", format!("git-upload-pack /rad:{z}\0\0version=2\0")),
        ("base16", format!("git-upload-pack /{f}\0\0version=2\0")),
        ("rad-base64", format!("git-upload-pack /rad:{m}\0\0version=2\0")),
        ("host", format!("git-upload-pack /{z}\0host=seed.radicle.xyz\0\0version=2\0")),
        ("host-port", format!("git-upload-pack /{z}\0host=seed.radicle.xyz:8776\0\0version=2\0")),
        ("host-bad-port", format!("git-upload-pack /{z}\0host=seed.radicle.xyz:65536\0\0version=2\0")),
        ("no-final-nul", format!("git-upload-pack /{z}\0\0version=2")),
        ("version1", format!("git-upload-pack /{z}\0\0version=1\0")),
        ("version0", format!("git-upload-pack /{z}\0\0version=0\0")),
        ("version3", format!("git-upload-pack /{z}\0\0version=3\0")),
        ("version02", format!("git-upload-pack /{z}\0\0version=02\0")),
        ("no-version", format!("git-upload-pack /{z}\0\0")),
        ("path-only", format!("git-upload-pack /{z}")),
        ("version-1-then-2", format!("git-upload-pack /{z}\0\0version=1\0version=2\0")),
        ("version-2-then-1", format!("git-upload-pack /{z}\0\0version=2\0version=1\0")),
        ("keyless-version-then-2", format!("git-upload-pack /{z}\0\0version\0version=2\0")),
        ("params-then-version", format!("git-upload-pack /{z}\0\0\0object-format=sha1\0flag\0version=2\0a=b=c\0")),
        ("version-in-host-slot", format!("git-upload-pack /{z}\0version=2\0")),
        ("upper-version-key", format!("git-upload-pack /{z}\0\0Version=2\0")),
        ("git-suffix", format!("git-upload-pack /{z}.git\0\0version=2\0")),
        ("no-slash", format!("git-upload-pack {z}\0\0version=2\0")),
        ("receive-pack", format!("git-receive-pack /{z}\0\0version=2\0")),
    ];
    v.into_iter().map(|(n, b)| (n, b.into_bytes())).collect()
}

fn stream_shapes(run: &mut Run, w: &mut World) {
    // every header shape against triples that are allowed (so that what follows the decision —
    // the protocol-version gate, the upload itself — is reached) and a few that are refused
    let triples: [(usize, usize, usize, Option<Policy>); 5] = [
        (0, 0, 4, Some(Policy::Allow)), // default allow, row allow, public, stranger           -> allowed
        (2, 2, 2, Some(Policy::Allow)), // default block, row allow, private[B], B              -> allowed
        (1, 1, 1, None),                // default allow(followed), no row, private[], delegate -> allowed
        (0, 2, 3, None),                // default allow, no row, private[B], C                 -> not visible
        (0, 4, 1, Some(Policy::Allow)), // broken repository
    ];
    let mut k = 0;
    for (p, ri, node, row) in triples {
        let rid = w.repos[ri].rid;
        set_policy(w, p, &rid, row);
        let oid = rid_bytes(&rid);
        for (name, body) in shapes(&oid) {
            let id = format!("5:{k}");
            k += 1;
            if !run.args.wants(&id) {
                continue;
            }
            let mut s = format!("{:04x}", body.len() + 4).into_bytes();
            s.extend(body);
            s.extend_from_slice(LS_REFS);
            run.tally(&format!("shape:{name}"));
            let before = run.distribution.get("proc:ROk").cloned().unwrap_or(0);
            pool_case(run, w, &id, p, node, name, &s);
            if run.distribution.get("proc:ROk").cloned().unwrap_or(0) > before {
                run.tally(&format!("shape-served:{name}"));
                run.nontrivial(format!("shape-served:{name}"));
            }
        }
        set_policy(w, p, &rid, None);
    }
}

/// Thorough tier: two/three REAL nodes (runtime, wire protocol, noise sessions): fetch attempts
/// against a node that holds a public, a private[] and a private[carol] repository.
fn stream_e2e(run: &mut Run) {
    use radicle::node::{Alias, Handle as _, DEFAULT_TIMEOUT};
    use radicle_node::test::environment::Node;
    if !run.args.wants("6:0") {
        return;
    }
    let r = catch(|| {
        let tmp = tempfile::tempdir().unwrap();
        let cfg = |n: &'static str| radicle::node::config::Config::test(Alias::new(n));
        let mut alice = Node::init(tmp.path(), cfg("alice"));
        let bob = Node::init(tmp.path(), cfg("bob"));
        let carol = Node::init(tmp.path(), cfg("carol"));
        radicle::storage::git::transport::local::register(alice.storage.clone());
        let mut rids = vec![];
        let viss = [("public", Visibility::Public), ("private[]", Visibility::private([])), ("private[carol]", Visibility::private([Did::from(carol.id)]))];
        for (i, (kind, vis)) in viss.iter().enumerate() {
            let (working, _) = fixtures::repository(tmp.path().join(format!("w{i}")));
            let (rid, _, _) = radicle::rad::init(&working, format!("e2e{i}").as_str().try_into().unwrap(), "hw-c12", radicle::git::RefString::try_from("master").unwrap(), vis.clone(), &alice.signer, &alice.storage).unwrap();
            alice.policies.seed(&rid, Scope::All).unwrap();
            rids.push((*kind, rid, vis.clone()));
        }
        let alice = alice.spawn();
        let mut bob = bob.spawn();
        let mut carol = carol.spawn();
        bob.connect(&alice);
        carol.connect(&alice);
        let mut out = vec![];
        for (who, node) in [("bob", &mut bob), ("carol", &mut carol)] {
            for (kind, rid, vis) in &rids {
                node.handle.seed(*rid, Scope::All).unwrap();
                let res = node.handle.fetch(*rid, alice.id, DEFAULT_TIMEOUT).unwrap();
                let has = node.storage.contains(rid).unwrap_or(false);
                let did = Did::from(node.id);
                let visible = match vis {
                    Visibility::Public => true,
                    Visibility::Private { allow } => allow.contains(&did) || did == Did::from(alice.id),
                };
                out.push((who, *kind, *rid, res.is_success(), has, visible));
            }
        }
        out
    });
    match r {
        Err(e) => {
            run.tally("e2e:infrastructure-error");
            run.note(format!("e2e scenario could not be run: {e}"));
        }
        Ok(rows) => {
            for (who, kind, rid, ok, has, visible) in rows {
                run.eval();
                run.tally(&format!("e2e:{}:{}:{}", who, kind, if ok { "fetched" } else { "failed" }));
                let input = json!({"requester": who, "repository": kind, "rid": rid.to_string(), "fetch_success": ok, "requester_has_repository": has});
                if (ok || has) && !visible {
                    run.fail("6:0", "e2e-fetched-not-visible", format!("{who} fetched (success={ok}, in storage={has}) the {kind} repository {rid} it is not allowed to see"), input.clone());
                }
                if visible && !ok {
                    run.note(format!("e2e: {who} was allowed to fetch {kind} {rid} but the fetch failed"));
                }
                if ok {
                    run.nontrivial(format!("e2e:{who}:{kind}"));
                }
                run.sample(json!({"case": "6:0", "input": input}));
            }
        }
    }
}

fn main() {
    quiet_panics();
    let mut run = Run::new(
        "C12",
        "model.Worker",
        "distinct (pool default, repository, requester) triples served, plus distinct (pool, repository, requester, error) refusals, plus distinct accepted header shapes",
    );
    run.shard_size(250);
    let w_needed = run.args.only.as_deref().map(|o| !o.starts_with("1:") && !o.starts_with("6:")).unwrap_or(true);
    let t0 = Instant::now();
    stream_lengths(&mut run);
    let lap = |what: &str| if std::env::var("HW_TIMING").is_ok() { eprintln!("{what}: {:?}", t0.elapsed()) };
    lap("lengths");
    if w_needed {
        let mut w = build_world();
        run.preamble = storage_preamble(&w);
        lap("world");
        stream_headers(&mut run, &w);
        lap("headers");
        stream_enumerate(&mut run, &mut w);
        lap("enumerate");
        stream_mutate(&mut run, &mut w);
        lap("mutate");
        stream_shapes(&mut run, &mut w);
        lap("shapes");
        stream_db_locked(&mut run, &mut w);
        lap("db-locked");
        if run.args.thorough {
            stream_e2e(&mut run);
            lap("e2e");
        }
        run.note(format!(
            "world: {} repositories ({}), requesters {:?}, pools {:?}",
            w.repos.len(),
            w.repos.iter().map(|r| r.kind).collect::<Vec<_>>().join(","),
            w.nodes.iter().map(|n| n.0).collect::<Vec<_>>(),
            w.pools.iter().map(|p| p.name).collect::<Vec<_>>()
        ));
        let dead: Vec<_> = w.pools.iter().filter(|p| p.dead).map(|p| p.name).collect();
        if !dead.is_empty() {
            run.note(format!("worker pools that stopped answering: {:?}", dead));
        }
        run.finish();
        // worker threads block on their task channel; do not wait for them
        std::process::exit(0);
    }
    if run.args.thorough {
        stream_e2e(&mut run);
    }
    run.finish();
    std::process::exit(0);
}
