//! C17: rate limiting admits at most capacity plus refill.
//!
//! Drives the real `radicle_node::service::limiter::RateLimiter::limit` on
//! generated timelines (several hosts, bypass list, LAN addresses, bursts, long
//! idles, sub-second steps, equal times, backwards steps under catch_unwind),
//! evaluates the direct window oracle on what the implementation returned, and
//! records every call (returned bool / panic, bucket tokens and refilled_at as
//! serialised by the real `TokenBucket`) for comparison with coq/model/Limiter.v.
use std::collections::BTreeMap;
use std::net::{IpAddr, Ipv4Addr, Ipv6Addr};
use std::panic::AssertUnwindSafe;
use std::str::FromStr;

use hw_common::*;
use localtime::LocalTime;
use radicle::node::config::RateLimit;
use radicle::node::{address, HostName, NodeId};
use radicle_node::service::limiter::RateLimiter;

const ONION: &str = "xmrhfasfg5suueegrnc4gsgyi2tyclcy5oz7f5drnrodmdtob6t2ioyd.onion";

#[derive(Clone, Debug, PartialEq, Eq, PartialOrd, Ord)]
enum Host {
    V4(u32),
    V6(u128),
    Dns(u64),
    Tor,
}

impl Host {
    fn real(&self) -> HostName {
        match self {
            Host::V4(ip) => HostName::Ip(IpAddr::V4(Ipv4Addr::from(*ip))),
            Host::V6(ip) => HostName::Ip(IpAddr::V6(Ipv6Addr::from(*ip))),
            Host::Dns(k) => HostName::Dns(format!("seed{k}.radicle.example")),
            Host::Tor => HostName::from_str(ONION).expect("onion address parses"),
        }
    }
    fn show(&self) -> String {
        self.real().to_string()
    }
    /// The property's own notion of a LAN / non-routable address, written
    /// independently of `address::is_routable` (RFC 1918, loopback, link-local,
    /// "this network", broadcast, documentation ranges).
    fn is_lan(&self) -> bool {
        match self {
            Host::V4(ip) => {
                let o = ip.to_be_bytes();
                if *ip == 0xc000_0009 || *ip == 0xc000_000a {
                    return false;
                }
                o[0] == 10
                    || (o[0] == 172 && (16..=31).contains(&o[1]))
                    || (o[0] == 192 && o[1] == 168)
                    || o[0] == 127
                    || (o[0] == 169 && o[1] == 254)
                    || o[0] == 0
                    || *ip == u32::MAX
                    || (o[0] == 192 && o[1] == 0 && o[2] == 2)
                    || (o[0] == 198 && o[1] == 51 && o[2] == 100)
                    || (o[0] == 203 && o[1] == 0 && o[2] == 113)
            }
            _ => false,
        }
    }
}
impl Coq for Host {
    fn coq(&self) -> String {
        match self {
            Host::V4(ip) => format!("(HIp4 {ip})"),
            Host::V6(ip) => format!("(HIp6 {ip})"),
            Host::Dns(k) => format!("(HDns {k})"),
            Host::Tor => "(HTor 0)".into(),
        }
    }
}

#[derive(Clone, Copy, Debug, PartialEq)]
struct Tok {
    cap: u64,
    num: i64,
    den: u64,
}
impl Tok {
    fn real(&self) -> RateLimit {
        RateLimit { fill_rate: self.num as f64 / self.den as f64, capacity: self.cap as usize }
    }
}
impl Coq for Tok {
    fn coq(&self) -> String {
        format!("{{| t_cap := {}; t_num := {}; t_den := {}%positive |}}", self.cap, coq_z(self.num as i128), self.den)
    }
}

#[derive(Clone, Debug)]
struct Req {
    host: Host,
    nid: Option<u8>,
    tok: Tok,
    now: u64,
}
impl Coq for Req {
    fn coq(&self) -> String {
        format!(
            "{{| r_host := {}; r_nid := {}; r_tok := {}; r_now := {} |}}",
            self.host.coq(),
            self.nid.map(|n| n as u64).coq(),
            self.tok.coq(),
            self.now
        )
    }
}

fn nid(k: u8) -> NodeId {
    let mut b = [0u8; 32];
    b[0] = k;
    b[31] = 0x55;
    NodeId::from(b)
}

const BOUNDARY_V4: &[u32] = &[
    0x0a00_0001, // 10.0.0.1
    0xc0a8_0101, // 192.168.1.1
    0x7f00_0001, // 127.0.0.1
    0xac10_0001, // 172.16.0.1
    0xac1f_ffff, // 172.31.255.255
    0xac0f_ffff, // 172.15.255.255 (routable)
    0xac20_0000, // 172.32.0.0 (routable)
    0xa9fe_0101, // 169.254.1.1
    0xa9fd_0101, // 169.253.1.1 (routable)
    0x0000_0000,
    0x0001_0203, // 0.1.2.3
    0xffff_ffff,
    0xffff_fffe, // 255.255.255.254 (routable per this code)
    0xc000_0009, // 192.0.0.9 (routable)
    0xc000_000a, // 192.0.0.10 (routable)
    0xc000_0008, // 192.0.0.8 (routable per this code: 192.0.0.0/24 is not excluded)
    0xc000_0201, // 192.0.2.1 doc
    0xc633_6401, // 198.51.100.1 doc
    0xcb00_7101, // 203.0.113.1 doc
    0xcb00_7201, // 203.0.114.1 (routable)
    0x0808_0808,
    0x0102_0304,
    0x0b00_0001, // 11.0.0.1
    0xc0a7_0101, // 192.167.1.1
    0x8000_0001,
];

fn gen_host(r: &mut Rng) -> Host {
    match r.below(10) {
        0..=2 => Host::V4([0x0808_0808u32, 0x0102_0304, 0x5db8_d822, 0xc000_0009, 0xac0f_0001][r.below(5) as usize]),
        3 => Host::V4(*r.pick(BOUNDARY_V4)),
        4 => Host::V4(r.next() as u32),
        5 => Host::V4([0x0a00_0001u32, 0xc0a8_0101, 0x7f00_0001][r.below(3) as usize]),
        6 => Host::V6(if r.bool() { 1 } else { 0x2001_0db8_0000_0000_0000_0000_0000_0001 }),
        7 | 8 => Host::Dns(r.below(3)),
        _ => Host::Tor,
    }
}

fn gen_tok(r: &mut Rng, exact: bool) -> Tok {
    let cap = match r.below(10) {
        0 => 0,
        1 | 2 => 1,
        3..=7 => r.range(2, 6),
        8 => r.range(7, 40),
        _ => r.range(100, 1 << 19),
    };
    if exact {
        let m = r.below(11);
        let den = 1u64 << m;
        let mut num = match r.below(8) {
            0 => 0i64,
            1 | 2 => den as i64,                       // 1 token / s
            3 => 1,                                    // slowest
            4 => r.range(1, 4 * den) as i64,
            5 => (den as i64) * r.range(1, 4) as i64, // integral rates
            _ => r.range(1, den.max(2) - 1) as i64,    // < 1 token / s
        };
        if r.chance(1, 30) {
            num = -num;
        }
        Tok { cap, num, den }
    } else {
        let den = *r.pick(&[3u64, 5, 7, 10, 60, 100, 1000]);
        let num = match r.below(4) {
            0 => 1,
            1 => r.range(1, den) as i64,
            2 => r.range(1, 3 * den) as i64,
            _ => 2, // e.g. 0.2 = one token every 5 seconds as in the crate's own test
        };
        Tok { cap, num, den }
    }
}

fn gen_timeline(r: &mut Rng, exact: bool) -> (Vec<u8>, Vec<Req>) {
    let nhosts = r.range(1, 4) as usize;
    let hosts: Vec<Host> = (0..nhosts).map(|_| gen_host(r)).collect();
    let toks = [gen_tok(r, exact), gen_tok(r, exact)];
    let bypass: Vec<u8> = (0..3u8).filter(|_| r.chance(1, 4)).collect();
    let maxn = if r.chance(1, 5) { 70 } else { 28 };
    let n = r.range(1, maxn) as usize;
    let mut now: u64 = r.below(5_000_000);
    let mut reqs = Vec::with_capacity(n);
    let backwards_ok = r.chance(1, 3);
    for _ in 0..n {
        let step = r.below(100);
        match step {
            0..=29 => {}
            30..=44 => now += r.range(1, 999),
            45..=59 => now += *r.pick(&[999u64, 1000, 1001, 1999, 2000, 2001, 4999, 5000]),
            60..=77 => now += 1000 * r.range(1, 20),
            78..=84 => now += r.range(1, 20_000),
            85..=92 => now += r.range(10_000, 10_000_000),
            _ => {
                if backwards_ok {
                    now = now.saturating_sub(*r.pick(&[1u64, 500, 1000, 5000, 60_000]));
                } else {
                    now += r.range(1, 3000);
                }
            }
        }
        let host = hosts[if r.chance(2, 3) { 0 } else { r.below(nhosts as u64) as usize }].clone();
        let nid = if r.chance(1, 5) { None } else { Some(r.below(3) as u8) };
        let tok = if r.chance(4, 5) { toks[0] } else { toks[1] };
        reqs.push(Req { host, nid, tok, now });
    }
    (bypass, reqs)
}

struct Step {
    code: u64,                 // 0 false, 1 true, 2 panic
    view: Option<(i128, u64)>, // (tokens * den, refilled_at) of the host's bucket after the call
    params: Option<(f64, f64)>, // (capacity, rate) of that bucket
    bden: u64,                 // denominator of the rate the bucket was created with
}

fn drive(bypass: &[u8], reqs: &[Req], exact: bool, notes: &mut Vec<String>) -> (Vec<Step>, usize) {
    let mut lim = RateLimiter::new(bypass.iter().map(|k| nid(*k)));
    let mut den_of: BTreeMap<Host, u64> = BTreeMap::new();
    let mut steps = vec![];
    for q in reqs {
        let host = q.host.real();
        let n = q.nid.map(nid);
        let tok = q.tok.real();
        let res = catch(AssertUnwindSafe(|| {
            lim.limit(host.clone(), n.as_ref(), &tok, LocalTime::from_millis(q.now as u128))
        }));
        let code = match res {
            Ok(false) => 0,
            Ok(true) => 1,
            Err(_) => 2,
        };
        let mut view = None;
        let mut params = None;
        let mut bden = 1;
        if let Some(b) = lim.buckets.get(&host) {
            // the bucket keeps the rate it was created with
            let den = *den_of.entry(q.host.clone()).or_insert(q.tok.den);
            let v = serde_json::to_value(b).expect("TokenBucket serialises");
            let tokens = v["tokens"].as_f64().expect("tokens");
            let refilled = v["refilledAt"].as_u64().expect("refilledAt");
            bden = den;
            let scaled = tokens * den as f64;
            if exact && scaled.fract() != 0.0 && notes.len() < 4 {
                notes.push(format!("exact stream: tokens {tokens} * den {den} is not integral (f64 was not exact)"));
            }
            view = Some((scaled.round() as i128, refilled));
            params = Some((v["capacity"].as_f64().unwrap(), v["rate"].as_f64().unwrap()));
        }
        steps.push(Step { code, view, params, bden });
    }
    (steps, lim.buckets.len())
}

fn input_json(bypass: &[u8], reqs: &[Req]) -> Value {
    json!({
        "bypass_nids": bypass,
        "requests": reqs.iter().map(|q| json!({
            "host": q.host.show(), "nid": q.nid, "capacity": q.tok.cap,
            "rate": format!("{}/{}", q.tok.num, q.tok.den), "now_ms": q.now})).collect::<Vec<_>>(),
    })
}

/// The direct oracle on the implementation's own answers.
fn oracle(run: &mut Run, id: &str, bypass: &[u8], reqs: &[Req], steps: &[Step]) {
    let input = || input_json(bypass, reqs);
    // 1. bypassed nodes and LAN addresses are never limited
    for (k, (q, s)) in reqs.iter().zip(steps).enumerate() {
        let bypassed = q.nid.map(|n| bypass.contains(&n)).unwrap_or(false);
        if bypassed {
            run.tally("call-bypassed-nid");
        }
        if q.host.is_lan() {
            run.tally("call-lan-address");
        }
        if (bypassed || q.host.is_lan()) && s.code != 0 {
            run.fail(
                id,
                if bypassed { "bypassed-node-limited" } else { "lan-address-limited" },
                format!(
                    "call #{k} from {} (nid {:?}) was {} although {}",
                    q.host.show(), q.nid,
                    if s.code == 1 { "rate limited" } else { "answered with a panic" },
                    if bypassed { "its node is on the bypass list" } else { "the address is not routable" }),
                input(),
            );
        }
    }
    // 2. window bound per rate-limited host
    let mut hosts: Vec<Host> = reqs.iter().map(|q| q.host.clone()).collect();
    hosts.sort();
    hosts.dedup();
    for h in hosts {
        if h.is_lan() {
            continue;
        }
        // the calls that reach the bucket
        let idx: Vec<usize> = (0..reqs.len())
            .filter(|k| reqs[*k].host == h && !reqs[*k].nid.map(|n| bypass.contains(&n)).unwrap_or(false))
            .collect();
        let Some(first) = idx.first() else { continue };
        let tok = reqs[*first].tok; // the bucket is created by the first such call
        // the real bucket must carry these parameters
        if let Some((cap, rate)) = steps[*first].params {
            if cap != tok.cap as f64 || rate != tok.num as f64 / tok.den as f64 {
                run.fail(id, "bucket-parameters", format!(
                    "bucket of {} has capacity {cap} rate {rate}, created with capacity {} rate {}/{}",
                    h.show(), tok.cap, tok.num, tok.den), input());
            }
        } else {
            // no bucket visible: the window bound below is evaluated with the first call's tokens
            run.tally("host-without-visible-bucket");
        }
        // answered calls, in order; panics admit nothing and must be clock regressions
        let mut last_ok: Option<u64> = None;
        let mut answered: Vec<(u64, bool)> = vec![];
        for k in &idx {
            let (q, s) = (&reqs[*k], &steps[*k]);
            if s.code == 2 {
                match last_ok {
                    Some(t) if q.now < t => run.tally("call-clock-backwards-panic"),
                    _ => run.fail(id, "limiter-panic", format!(
                        "call #{k} from {} at {} ms panicked although the clock did not go backwards for this host",
                        h.show(), q.now), input()),
                }
                continue;
            }
            if let Some(t) = last_ok {
                if q.now < t {
                    run.fail(id, "clock-regression-accepted", format!(
                        "call #{k} from {} at {} ms (earlier than {} ms) was answered {} instead of refilling from a later time", h.show(), q.now, t,
                        if s.code == 0 { "not limited" } else { "limited" }), input());
                    continue;
                }
            }
            last_ok = Some(q.now);
            answered.push((q.now, s.code == 0));
            run.tally(if s.code == 0 { "call-passed" } else { "call-limited" });
        }
        if tok.num < 0 {
            run.tally("host-negative-rate(bound not applicable)");
            continue;
        }
        let (cap, num, den) = (tok.cap as i128, tok.num as i128, tok.den as i128);
        let mut tight = false;
        'outer: for i in 0..answered.len() {
            let mut count: i128 = 0;
            for j in i..answered.len() {
                if answered[j].1 {
                    count += 1;
                }
                let secs = ((answered[j].0 - answered[i].0) / 1000) as i128;
                let bound_scaled = cap * den + num * secs;
                if count * den > bound_scaled {
                    run.fail(id, "window-exceeds-capacity-plus-refill", format!(
                        "{}: {count} requests admitted between {} ms and {} ms; capacity {cap} + rate {num}/{den} * {secs} s allows at most {}",
                        h.show(), answered[i].0, answered[j].0, bound_scaled / den), input());
                    break 'outer;
                }
                if j > i && secs > 0 && (count + 1) * den > bound_scaled {
                    tight = true;
                }
            }
        }
        if tight {
            run.tally("host-window-bound-attained(secs>0)");
        }
        run.tally("host-rate-limited");
    }
}

fn tally_shapes(run: &mut Run, reqs: &[Req], steps: &[Step]) {
    let mut seen: BTreeMap<Host, (i128, u64)> = BTreeMap::new();
    for (q, s) in reqs.iter().zip(steps) {
        match (seen.get(&q.host), s.view) {
            (None, Some(_)) => run.tally("bucket-created"),
            (Some((t0, r0)), Some((t1, r1))) if s.code != 2 => {
                let cap = s.params.map(|p| p.0 as i128).unwrap_or(0) * s.bden as i128;
                let before_take = t1 + if s.code == 0 && (t1 != *t0 || r1 != *r0) { s.bden as i128 } else { 0 };
                if r1 > *r0 {
                    if r1 - r0 < 1000 {
                        run.tally("refill-subsecond(no tokens)");
                    } else if before_take > *t0 && before_take >= cap {
                        run.tally("refill-to-capacity");
                    } else if before_take > *t0 {
                        run.tally("refill-partial");
                    }
                } else if r1 == *r0 {
                    run.tally("same-instant");
                }
            }
            _ => {}
        }
        if let Some(v) = s.view {
            seen.insert(q.host.clone(), v);
        }
    }
}

fn coq_steps(steps: &[Step]) -> String {
    let v: Vec<Raw> = steps
        .iter()
        .map(|s| {
            let view = match s.view {
                Some((t, r)) => format!("(Some ({}, {}))", coq_z(t), r),
                None => "None".into(),
            };
            Raw(format!("({}, {})", s.code, view))
        })
        .collect();
    v.coq()
}

fn main() {
    quiet_panics();
    let mut run = Run::new(
        "C17",
        "model.Limiter",
        "stream 0 (exact): timelines of 1-70 calls over 1-4 hosts (routable/LAN IPv4, IPv6, DNS, onion), bypass list, two token \
         configurations, dyadic rates k/2^m (m<=10, a few negative), capacities 0..2^19, steps: same instant, sub-second, around \
         whole seconds, long idles, clock regressions; compared call by call (answer, bucket tokens, refilled_at). \
         stream 1 (decimal rates like 1/5, 7/10): answers compared up to the first call within 1e-6 of the threshold. \
         stream 2: address::is_routable on boundary and random IPv4 addresses. \
         Non-trivial = timeline in which some rate-limited host is both admitted and limited; distinct by input.",
    );
    let seed = run.args.seed;
    let n = run.args.count(1200, 8000);
    let mut notes = vec![];
    for i in 0..n {
        for stream in 0..2u64 {
            let id = format!("{stream}:{i}");
            if !run.args.wants(&id) {
                continue;
            }
            let exact = stream == 0;
            let mut r = Rng::for_case(seed, stream, i);
            let (bypass, reqs) = gen_timeline(&mut r, exact);
            run.eval();
            let (steps, nbuckets) = drive(&bypass, &reqs, exact, &mut notes);
            oracle(&mut run, &id, &bypass, &reqs, &steps);
            // isolation oracle (C17_hosts_are_isolated) on the implementation's own answers:
            // the answers to one host and its bucket are those of the timeline with
            // every other host's call deleted
            if exact {
                let hosts: std::collections::BTreeSet<Host> = reqs.iter().map(|q| q.host.clone()).collect();
                if hosts.len() > 1 {
                    for h in &hosts {
                        let only: Vec<Req> = reqs.iter().filter(|q| &q.host == h).cloned().collect();
                        let mut scratch = vec![];
                        let (alone, _) = drive(&bypass, &only, exact, &mut scratch);
                        let mixed: Vec<(u64, Option<(i128, u64)>)> = reqs
                            .iter()
                            .zip(&steps)
                            .filter(|(q, _)| &q.host == h)
                            .map(|(_, s)| (s.code, s.view))
                            .collect();
                        let alone: Vec<(u64, Option<(i128, u64)>)> = alone.iter().map(|s| (s.code, s.view)).collect();
                        run.tally("isolation-host-compared");
                        if mixed != alone {
                            run.fail(
                                &id,
                                "host-not-isolated",
                                format!("answers/bucket of host {} differ when the other hosts' calls are deleted: {:?} vs {:?}", h.show(), mixed, alone),
                                input_json(&bypass, &reqs),
                            );
                        }
                    }
                }
            }
            let bypass_n: Vec<u64> = bypass.iter().map(|b| *b as u64).collect();
            if exact {
                tally_shapes(&mut run, &reqs, &steps);
                run.case(
                    &id,
                    format!("CLimit {} {}", bypass_n.coq(), reqs.coq()),
                    format!("OLimit {} {}", coq_steps(&steps), nbuckets),
                );
                run.tally("timeline-exact");
            } else {
                let codes: Vec<u64> = steps.iter().map(|s| s.code).collect();
                run.case(
                    &id,
                    format!("CLimitApprox {} {} 1%Z 1000000%positive", bypass_n.coq(), reqs.coq()),
                    format!("ODecisions {}", codes.coq()),
                );
                run.tally("timeline-decimal");
            }
            let codes: Vec<u64> = steps.iter().map(|s| s.code).collect();
            if codes.contains(&1) && reqs.iter().zip(&steps).any(|(q, s)| s.code == 0 && s.view.is_some() && !q.host.is_lan()) {
                run.nontrivial(format!("{:?}{:?}", bypass, reqs));
            }
            if codes.contains(&2) {
                run.tally("timeline-with-panic");
            }
            if i < 2 {
                run.sample(json!({"case_id": id, "input": input_json(&bypass, &reqs), "answers": codes}));
            }
        }
        // stream 2: is_routable
        let id = format!("2:{i}");
        if run.args.wants(&id) && i % 10 == 0 {
            let mut r = Rng::for_case(seed, 2, i);
            let mut ips: Vec<u32> = (0..20).map(|_| r.next() as u32).collect();
            for _ in 0..10 {
                let b = *r.pick(BOUNDARY_V4);
                ips.push(b);
                ips.push(b.wrapping_add(r.below(3) as u32).wrapping_sub(1));
                ips.push((b & 0xffff_0000) | (r.next() as u32 & 0xffff));
            }
            run.eval();
            let obs: Vec<bool> = ips.iter().map(|ip| address::is_routable(&IpAddr::V4(Ipv4Addr::from(*ip)))).collect();
            for (ip, ro) in ips.iter().zip(&obs) {
                run.tally(if *ro { "ip-routable" } else { "ip-non-routable" });
                if Host::V4(*ip).is_lan() == *ro {
                    run.fail(&id, "routable-classification", format!(
                        "address {} classified as {}", Ipv4Addr::from(*ip), if *ro { "routable" } else { "not routable" }),
                        json!({"ip": Ipv4Addr::from(*ip).to_string()}));
                }
            }
            let ips_n: Vec<u64> = ips.iter().map(|x| *x as u64).collect();
            run.case(&id, format!("CRoutable {}", ips_n.coq()), format!("ORoutable {}", obs.coq()));
        }
    }
    for s in notes {
        run.note(s);
    }
    run.finish();
}
