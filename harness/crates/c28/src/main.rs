//! C28: storage cleanup never deletes the local or delegate namespaces.
//!
//! Builds a real `radicle::Storage` in a temp dir holding one repository whose
//! identity document names 1-3 delegates, with an arbitrary set of namespaces
//! (local node, delegates, strangers, a namespace without `rad/sigrefs`, a
//! namespace whose name is not a public key), each with valid / broken / no
//! signed refs; runs the real `WriteStorage::clean`; dumps every ref of every
//! namespace before and after.  The oracle checks the property directly on the
//! two dumps; the case (built from the *observed* pre-state) is compared with
//! coq/model/Clean.v.
use std::collections::{BTreeMap, BTreeSet};
use std::path::Path;

use hw_common::*;
use radicle::crypto::test::signer::MockSigner;
use radicle::git::raw as git2;
use radicle::identity::{Did, Doc, Project, RepoId, Visibility};
use radicle::node::device::Device;
use radicle::node::{Alias, NodeId};
use radicle::storage::git::Repository;
use radicle::storage::{ReadStorage, RepositoryError, SignRepository, WriteRepository, WriteStorage};
use radicle::Storage;

#[derive(Clone, Copy, Debug, PartialEq, Eq)]
enum Sig {
    None,
    Valid,
    Bad,
}
impl Coq for Sig {
    fn coq(&self) -> String {
        match self {
            Sig::None => "SNone",
            Sig::Valid => "SValid",
            Sig::Bad => "SBad",
        }
        .into()
    }
}

#[derive(Clone, Debug)]
struct NsSpec {
    id: u64, // key index, or 100 + j for malformed names
    sig: Sig,
    branches: Vec<u64>, // refs/heads/b<k>
}

#[derive(Clone, Debug)]
struct Spec {
    local: u64,
    delegates: Vec<u64>,
    doc_ok: bool,
    nss: Vec<NsSpec>,
}

struct Keys {
    devs: Vec<Device<MockSigner>>,
    by_txt: BTreeMap<String, u64>,
}
impl Keys {
    fn new() -> Self {
        let devs: Vec<_> = (0..8u8).map(|i| Device::mock_from_seed([i + 1; 32])).collect();
        let by_txt = devs.iter().enumerate().map(|(i, d)| (d.public_key().to_human(), i as u64)).collect();
        Keys { devs, by_txt }
    }
    fn pk(&self, i: u64) -> NodeId {
        *self.devs[i as usize].public_key()
    }
    fn ns_name(&self, id: u64) -> String {
        if id >= 100 { format!("junk{}", id - 100) } else { self.pk(id).to_human() }
    }
    fn ns_id(&self, name: &str) -> u64 {
        if let Some(j) = name.strip_prefix("junk") {
            100 + j.parse::<u64>().unwrap()
        } else {
            self.by_txt[name]
        }
    }
}

/// name -> (ref suffix -> oid)
type Dump = BTreeMap<String, BTreeMap<String, String>>;

fn dump(path: &Path) -> Option<(Dump, BTreeMap<String, String>)> {
    if !path.exists() {
        return None;
    }
    let repo = git2::Repository::open_bare(path).ok()?;
    let mut nss: Dump = BTreeMap::new();
    let mut top = BTreeMap::new();
    for r in repo.references().unwrap() {
        let r = r.unwrap();
        let name = r.name().unwrap().to_string();
        let target = match r.symbolic_target() {
            Some(s) => format!("-> {s}"),
            None => r.target().map(|o| o.to_string()).unwrap_or_default(),
        };
        if let Some(rest) = name.strip_prefix("refs/namespaces/") {
            let (ns, suffix) = rest.split_once('/').unwrap();
            nss.entry(ns.to_string()).or_default().insert(suffix.to_string(), target);
        } else {
            top.insert(name, target);
        }
    }
    Some((nss, top))
}

/// ref suffix within a namespace -> small number (model `ns_refs`)
fn ref_id(suffix: &str) -> u64 {
    if let Some(b) = suffix.strip_prefix("refs/heads/b") {
        return 1 + b.parse::<u64>().unwrap();
    }
    match suffix {
        "refs/rad/id" => 10,
        "refs/rad/root" => 11,
        s if s.starts_with("refs/cobs/xyz.radicle.id/") => 12,
        _ => 99,
    }
}

fn commit(repo: &git2::Repository, msg: &str) -> git2::Oid {
    let sig = git2::Signature::new("anonymous", "anonymous@radicle.xyz", &git2::Time::new(1_700_000_000, 0)).unwrap();
    let tree = {
        let mut tb = repo.treebuilder(None).unwrap();
        let blob = repo.blob(msg.as_bytes()).unwrap();
        tb.insert("f", blob, 0o100644).unwrap();
        repo.find_tree(tb.write().unwrap()).unwrap()
    };
    repo.commit(None, &sig, &sig, msg, &tree, &[]).unwrap()
}

/// a second, unrelated repository in the same storage (must never be touched)
fn build_other(keys: &Keys, storage: &Storage, d0: u64) -> RepoId {
    let proj = Project::new(
        "other".try_into().unwrap(),
        "Another repository".to_string(),
        radicle::git::RefString::try_from("master").unwrap(),
    )
    .unwrap();
    let doc = Doc::initial(proj, Did::from(keys.pk(d0)), Visibility::default());
    let (repo, identity) = Repository::init(&doc, storage, &keys.devs[d0 as usize]).unwrap();
    repo.set_identity_head_to(identity).unwrap();
    let c = commit(repo.raw(), "other");
    let name = keys.ns_name((d0 + 1) % 5);
    repo.raw().reference(&format!("refs/namespaces/{name}/refs/heads/b0"), c, true, "setup").unwrap();
    repo.raw().reference(&format!("refs/namespaces/{name}/refs/rad/sigrefs"), c, true, "setup").unwrap();
    repo.sign_refs(&keys.devs[d0 as usize]).unwrap();
    repo.id
}

fn build(keys: &Keys, dir: &Path, spec: &Spec) -> (Storage, RepoId, Repository) {
    let storage = Storage::open(
        dir.join("storage"),
        radicle::git::UserInfo { alias: Alias::new("local"), key: keys.pk(spec.local) },
    )
    .unwrap();
    let proj = Project::new(
        "acme".try_into().unwrap(),
        "Acme's repository".to_string(),
        radicle::git::RefString::try_from("master").unwrap(),
    )
    .unwrap();
    let d0 = spec.delegates[0];
    let doc = Doc::initial(proj, Did::from(keys.pk(d0)), Visibility::default())
        .with_edits(|raw| {
            for d in &spec.delegates[1..] {
                raw.delegate(Did::from(keys.pk(*d)));
            }
            raw.threshold = 1;
        })
        .unwrap();
    let (repo, identity) = Repository::init(&doc, &storage, &keys.devs[d0 as usize]).unwrap();
    repo.set_identity_head_to(identity).unwrap();
    let rid = repo.id;
    let raw = repo.raw();
    let plain = commit(raw, "plain");
    // branches first, then signatures over them
    for ns in &spec.nss {
        let name = keys.ns_name(ns.id);
        for b in &ns.branches {
            let c = commit(raw, &format!("{}-b{}", name, b));
            raw.reference(&format!("refs/namespaces/{name}/refs/heads/b{b}"), c, true, "setup").unwrap();
        }
    }
    for ns in &spec.nss {
        let name = keys.ns_name(ns.id);
        match ns.sig {
            Sig::None => {}
            Sig::Valid if ns.id < 100 => {
                repo.sign_refs(&keys.devs[ns.id as usize]).unwrap();
            }
            // a rad/sigrefs ref that does not point to loadable signed refs
            _ => {
                raw.reference(&format!("refs/namespaces/{name}/refs/rad/sigrefs"), plain, true, "setup").unwrap();
            }
        }
    }
    if !spec.doc_ok {
        // make the identity document unreachable: no canonical rad/id, no per-remote rad/id / rad/root
        let names: Vec<String> = raw
            .references()
            .unwrap()
            .map(|r| r.unwrap().name().unwrap().to_string())
            .filter(|n| n == "refs/rad/id" || n.ends_with("/refs/rad/id") || n.ends_with("/refs/rad/root"))
            .collect();
        for n in names {
            raw.find_reference(&n).unwrap().delete().unwrap();
        }
    }
    (storage, rid, repo)
}

fn gen_spec(r: &mut Rng, wide: bool) -> Spec {
    let nkeys = if wide { 8 } else { 5 };
    let local = r.below(nkeys);
    let nd = 1 + r.below(3);
    let mut delegates: Vec<u64> = vec![];
    while (delegates.len() as u64) < nd {
        let d = if r.chance(1, 5) { local } else { r.below(nkeys) };
        if !delegates.contains(&d) {
            delegates.push(d);
        }
    }
    let mut nss = vec![];
    for id in 0..nkeys {
        let is_delegate = delegates.contains(&id);
        let present = if id == delegates[0] {
            true // the delegate that created the identity always has a namespace
        } else if id == local {
            r.chance(4, 5)
        } else if is_delegate {
            r.chance(3, 4)
        } else {
            r.chance(3, 5)
        };
        if !present {
            continue;
        }
        let sig = if id == local {
            *r.pick(&[Sig::Valid, Sig::Valid, Sig::Valid, Sig::None, Sig::None, Sig::Bad])
        } else {
            *r.pick(&[Sig::Valid, Sig::Valid, Sig::Bad, Sig::None])
        };
        let nb = r.below(3);
        let mut branches: Vec<u64> = (0..nb).map(|_| r.below(4)).collect();
        branches.sort();
        branches.dedup();
        nss.push(NsSpec { id, sig, branches });
    }
    // namespaces whose name is not a public key
    for j in 0..2u64 {
        if r.chance(1, 6) {
            let sig = *r.pick(&[Sig::Bad, Sig::None]);
            let branches = if sig == Sig::None || r.bool() { vec![r.below(4)] } else { vec![] };
            nss.push(NsSpec { id: 100 + j, sig, branches });
        }
    }
    Spec { local, delegates, doc_ok: !r.chance(1, 10), nss }
}

fn ns_coq(id: u64, sig: Sig, refs: &[u64]) -> String {
    format!(
        "{{| ns_id := {}; ns_key := {}; ns_sig := {}; ns_refs := {} |}}",
        id,
        (id < 100).coq(),
        sig.coq(),
        refs.coq()
    )
}

fn classify(e: &RepositoryError) -> &'static str {
    use radicle::storage::refs;
    match e {
        RepositoryError::Doc(_) => "EDoc",
        RepositoryError::Refs(refs::Error::Ref(_)) => "ERemoteId",
        RepositoryError::Refs(_) => "ESigrefs",
        RepositoryError::Git(_) | RepositoryError::Storage(_) => "ENoRepo",
        _ => "EOther",
    }
}

fn one_case(run: &mut Run, keys: &Keys, base: &Path, id: &str, r: &mut Rng, wide: bool) {
    run.eval();
    let dir = tempfile::Builder::new().prefix("c28-").tempdir_in(base).unwrap();
    if r.chance(1, 40) {
        // clean of a repository that is not in storage
        let storage = Storage::open(
            dir.path().join("storage"),
            radicle::git::UserInfo { alias: Alias::new("local"), key: keys.pk(0) },
        )
        .unwrap();
        let rid = RepoId::from(git2::Oid::from_bytes(&[7u8; 20]).unwrap());
        let res = storage.clean(rid);
        let o = match &res {
            Ok(v) => format!("(ORemoved {})", v.iter().map(|k| keys.by_txt[&k.to_human()]).collect::<Vec<_>>().coq()),
            Err(e) => format!("(OErr {})", classify(e)),
        };
        if res.is_ok() {
            run.fail(id, "clean-missing-repo-ok", "clean of a missing repository succeeded".into(), json!({}));
        }
        run.tally("missing-repo");
        run.case(id, "CMissing".into(), o);
        return;
    }
    let mut spec = gen_spec(r, wide);
    // 1 in 4: call the public Repository::clean(local) directly, with an arbitrary `local`
    let direct = r.chance(1, 4);
    let with_other = r.chance(1, 5);
    let (storage, rid, repo) = build(keys, dir.path(), &spec);
    if direct {
        spec.local = r.below(if wide { 8 } else { 5 });
    }
    let other = if with_other { Some(build_other(keys, &storage, spec.delegates[0])) } else { None };
    let other_pre = other.map(|o| dump(&storage.path_of(&o)));
    let path = storage.path_of(&rid);
    let (pre, pre_top) = dump(&path).unwrap();

    // the model input is what is actually on disk
    let sig_of = |name: &str| -> Sig {
        let has = pre.get(name).map(|m| m.contains_key("refs/rad/sigrefs")).unwrap_or(false);
        let want = spec.nss.iter().find(|n| keys.ns_name(n.id) == name).map(|n| n.sig).unwrap_or(Sig::None);
        assert_eq!(has, want != Sig::None, "setup: sigrefs of {name}");
        want
    };
    let ns_term = |name: &str, m: &BTreeMap<String, String>| -> (u64, String) {
        let mut refs: Vec<u64> = m.keys().filter(|s| *s != "refs/rad/sigrefs").map(|s| ref_id(s)).collect();
        refs.sort();
        let nid = keys.ns_id(name);
        (nid, ns_coq(nid, sig_of(name), &refs))
    };
    let mut pre_terms: Vec<(u64, String)> = pre.iter().map(|(n, m)| ns_term(n, m)).collect();
    pre_terms.sort();
    let input = format!(
        "({} {} {} {} [{}])",
        if direct { "CRepoClean" } else { "CClean" },
        spec.local,
        spec.doc_ok.coq(),
        spec.delegates.coq(),
        pre_terms.iter().map(|t| t.1.clone()).collect::<Vec<_>>().join("; ")
    );

    let local_pk = keys.pk(spec.local);
    let res = catch(std::panic::AssertUnwindSafe(|| if direct { repo.clean(&local_pk) } else { storage.clean(rid) }));
    drop(repo);
    let post = dump(&path);
    let other_post = other.map(|o| dump(&storage.path_of(&o)));

    // ---- direct oracle on the two dumps
    let local_name = keys.ns_name(spec.local);
    let protected: BTreeSet<String> =
        std::iter::once(spec.local).chain(spec.delegates.iter().cloned()).map(|i| keys.ns_name(i)).collect();
    let local_has_sigrefs = pre.get(&local_name).map(|m| m.contains_key("refs/rad/sigrefs")).unwrap_or(false);
    let inp = json!({"spec": format!("{:?}", spec), "pre": format!("{:?}", pre), "post": format!("{:?}", post),
                     "result": format!("{:?}", res.as_ref().map(|r| r.as_ref().map(|v| v.iter().map(|k| k.to_human()).collect::<Vec<_>>()).map_err(|e| e.to_string())))});
    let mut notes: Vec<String> = vec![];
    let mut fail = |class: &str, what: String| run.fail(id, class, what, inp.clone());
    if other_pre != other_post {
        fail("clean-touched-other-repository", "cleaning one repository changed another repository of the storage".into());
    }
    let obs: String;
    match (&res, &post) {
        (Err(p), _) => {
            fail("clean-panicked", format!("clean panicked: {p}"));
            obs = "(OErr EOther)".into();
        }
        (Ok(Err(e)), Some((post, post_top))) => {
            if *post != pre || *post_top != pre_top {
                fail("clean-error-but-changed", format!("clean failed ({e}) but refs changed"));
            }
            obs = format!("(OErr {})", classify(e));
            if classify(e) == "EOther" {
                notes.push(format!("{id}: unclassified error {e:?}"));
            }
        }
        (Ok(Err(e)), None) => {
            fail("clean-error-but-changed", format!("clean failed ({e}) but the repository is gone"));
            obs = format!("(OErr {})", classify(e));
        }
        (Ok(Ok(list)), None) => {
            // whole repository removed
            if local_has_sigrefs || direct {
                fail(
                    "clean-removed-repo-with-local-sigrefs",
                    "the repository was removed although the local node has rad/sigrefs in it".into(),
                );
            }
            let mut ids: Vec<u64> = list.iter().map(|k| keys.by_txt[&k.to_human()]).collect();
            ids.sort();
            obs = format!("(ORemoved {})", ids.coq());
        }
        (Ok(Ok(list)), Some((post, post_top))) => {
            if !local_has_sigrefs && !direct {
                fail(
                    "clean-kept-repo-without-local-sigrefs",
                    "the local node has no rad/sigrefs but the repository was not removed".into(),
                );
            }
            if *post_top != pre_top {
                fail("clean-touched-toplevel-refs", "refs outside refs/namespaces changed".into());
            }
            for (name, refs) in &pre {
                let after = post.get(name);
                let is_remote = refs.contains_key("refs/rad/sigrefs");
                if protected.contains(name) && after != Some(refs) {
                    let who = if *name == local_name { "local node" } else { "delegate" };
                    fail(
                        "clean-touched-protected-namespace",
                        format!("namespace {name} of the {who} changed: {:?} -> {:?}", refs, after),
                    );
                } else if !is_remote && after != Some(refs) {
                    fail("clean-touched-non-remote-namespace", format!("namespace {name} (no rad/sigrefs) changed"));
                } else if after != Some(refs) && after.is_some() {
                    fail("clean-partial-namespace", format!("namespace {name} was only partly removed: {:?}", after));
                }
            }
            for name in post.keys() {
                if !pre.contains_key(name) {
                    fail("clean-created-namespace", format!("namespace {name} appeared"));
                }
            }
            let mut ids = vec![];
            for k in list {
                let name = k.to_human();
                if protected.contains(&name) {
                    fail("clean-reported-protected", format!("clean reports deleting protected namespace {name}"));
                }
                if post.contains_key(&name) {
                    fail("clean-reported-but-left", format!("clean reports deleting {name} but refs remain"));
                }
                ids.push(keys.by_txt[&name]);
            }
            for name in pre.keys() {
                if !post.contains_key(name) && !list.iter().any(|k| k.to_human() == *name) {
                    fail("clean-unreported-deletion", format!("namespace {name} disappeared but is not reported"));
                }
            }
            ids.sort();
            let mut after: Vec<(u64, String)> = post.iter().map(|(n, m)| ns_term(n, m)).collect();
            after.sort();
            obs = format!(
                "(OCleaned [{}] {})",
                after.iter().map(|t| t.1.clone()).collect::<Vec<_>>().join("; "),
                ids.coq()
            );
        }
    }
    drop(fail);
    for n in notes {
        run.note(n);
    }

    // ---- input distribution
    let lsig = spec.nss.iter().find(|n| n.id == spec.local).map(|n| n.sig).unwrap_or(Sig::None);
    run.tally(&format!("local-sigrefs:{:?}", lsig));
    if direct {
        run.tally("direct-Repository::clean");
    }
    if with_other {
        run.tally("second-repository-in-storage");
    }
    run.tally(&format!("delegates:{}", spec.delegates.len()));
    if spec.delegates.contains(&spec.local) {
        run.tally("local-is-delegate");
    }
    if !spec.doc_ok {
        run.tally("doc-unreachable");
    }
    let strangers = spec
        .nss
        .iter()
        .filter(|n| n.id < 100 && n.sig != Sig::None && n.id != spec.local && !spec.delegates.contains(&n.id))
        .count();
    run.tally(&format!("stranger-remotes:{}", strangers.min(3)));
    if spec.nss.iter().any(|n| n.id >= 100 && n.sig != Sig::None) {
        run.tally("malformed-remote-name");
    }
    if spec.nss.iter().any(|n| n.sig == Sig::None && n.id != spec.local) {
        run.tally("namespace-without-sigrefs");
    }
    if spec.nss.iter().any(|n| n.sig == Sig::Bad && spec.delegates.contains(&n.id)) {
        run.tally("delegate-with-broken-sigrefs");
    }
    let kind = if obs.starts_with("(OCleaned") {
        if obs.ends_with("[])") { "outcome:cleaned-nothing" } else { "outcome:cleaned-some" }
    } else if obs.starts_with("(ORemoved") {
        "outcome:repo-removed"
    } else {
        "outcome:error"
    };
    run.tally(kind);
    if obs.starts_with("(OErr") {
        run.tally(&format!("error:{}", obs.trim_start_matches("(OErr ").trim_end_matches(')')));
    }
    if kind == "outcome:cleaned-some" || kind == "outcome:repo-removed" {
        run.nontrivial(format!("{:?}", spec));
    }
    run.sample(json!({"case_id": id, "spec": format!("{:?}", spec), "obs": obs}));
    run.case(id, input, obs);
}

fn main() {
    if std::env::var("HW_LOUD").is_err() {
        quiet_panics();
    }
    let mut run = Run::new(
        "C28",
        "model.Clean",
        "stream 0: 5 keys, stream 1: 8 keys; local node chosen among them (sometimes itself a delegate), 1-3 delegates, every \
         key present as a namespace with probability 3/5..1, each with valid / broken / no rad/sigrefs and 0-2 branches; \
         sometimes namespaces whose name is not a public key; 1 in 10 with an unreachable identity document; 1 in 40 cleans \
         a missing repository. Non-trivial = something was actually deleted (namespaces or the whole repository); distinct by setup.",
    );
    let keys = Keys::new();
    let base = if Path::new("/dev/shm").is_dir() { std::path::PathBuf::from("/dev/shm") } else { std::env::temp_dir() };
    let tmp = tempfile::Builder::new().prefix("hw-c28-").tempdir_in(base).unwrap();
    let seed = run.args.seed;
    let n = run.args.count(150, 1200);
    for i in 0..n {
        for (stream, wide) in [(0u64, false), (1u64, true)] {
            let id = format!("{}:{}", stream, i);
            if !run.args.wants(&id) {
                continue;
            }
            let mut r = Rng::for_case(seed, stream, i);
            one_case(&mut run, &keys, tmp.path(), &id, &mut r, wide);
        }
    }
    run.finish();
}
