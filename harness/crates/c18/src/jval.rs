//! JSON value tree shared by the C18 and C19 harnesses: generators that reach
//! the interesting Unicode / escape / ordering cases, conversion to and from
//! `serde_json::Value`, Gallina printing, and the NFC table shipped to the model.
#![allow(dead_code)]
use hw_common::*;
use unicode_normalization::UnicodeNormalization;

#[derive(Clone, Debug, PartialEq)]
pub enum J {
    Null,
    Bool(bool),
    /// in `i64::MIN ..= u64::MAX`
    Int(i128),
    Float(f64),
    Str(Vec<char>),
    Arr(Vec<J>),
    /// insertion order, raw keys pairwise distinct
    Obj(Vec<(Vec<char>, J)>),
}

pub fn s(v: &[char]) -> String {
    v.iter().collect()
}

impl J {
    pub fn to_value(&self) -> Value {
        match self {
            J::Null => Value::Null,
            J::Bool(b) => Value::Bool(*b),
            J::Int(i) => {
                if *i >= 0 {
                    Value::Number(serde_json::Number::from(*i as u64))
                } else {
                    Value::Number(serde_json::Number::from(*i as i64))
                }
            }
            J::Float(f) => Value::Number(serde_json::Number::from_f64(*f).expect("finite")),
            J::Str(cs) => Value::String(s(cs)),
            J::Arr(l) => Value::Array(l.iter().map(J::to_value).collect()),
            J::Obj(m) => {
                let mut map = serde_json::Map::new();
                for (k, v) in m {
                    map.insert(s(k), v.to_value());
                }
                Value::Object(map)
            }
        }
    }
    /// From a parsed value (object members in the map's iteration order, which
    /// is parse order under `preserve_order`).
    pub fn from_value(v: &Value) -> J {
        match v {
            Value::Null => J::Null,
            Value::Bool(b) => J::Bool(*b),
            Value::Number(n) => {
                if let Some(u) = n.as_u64() {
                    J::Int(u as i128)
                } else if let Some(i) = n.as_i64() {
                    J::Int(i as i128)
                } else {
                    J::Float(n.as_f64().unwrap_or(0.0))
                }
            }
            Value::String(st) => J::Str(st.chars().collect()),
            Value::Array(l) => J::Arr(l.iter().map(J::from_value).collect()),
            Value::Object(m) => {
                J::Obj(m.iter().map(|(k, v)| (k.chars().collect(), J::from_value(v))).collect())
            }
        }
    }
    pub fn has_float(&self) -> bool {
        match self {
            J::Float(_) => true,
            J::Arr(l) => l.iter().any(J::has_float),
            J::Obj(m) => m.iter().any(|(_, v)| v.has_float()),
            _ => false,
        }
    }
    /// All strings (keys and string values) of the tree.
    pub fn strings<'a>(&'a self, out: &mut Vec<&'a [char]>) {
        match self {
            J::Str(cs) => out.push(cs),
            J::Arr(l) => l.iter().for_each(|v| v.strings(out)),
            J::Obj(m) => m.iter().for_each(|(k, v)| {
                out.push(k);
                v.strings(out)
            }),
            _ => {}
        }
    }
    pub fn depth(&self) -> usize {
        match self {
            J::Arr(l) => 1 + l.iter().map(J::depth).max().unwrap_or(0),
            J::Obj(m) => 1 + m.iter().map(|(_, v)| v.depth()).max().unwrap_or(0),
            _ => 0,
        }
    }
    /// Whole-string NFC of every string and key; later member wins on a
    /// collision (what a reader of the canonical bytes is expected to see).
    pub fn nfc_spec(&self) -> Value {
        match self {
            J::Str(cs) => Value::String(s(cs).nfc().collect()),
            J::Arr(l) => Value::Array(l.iter().map(J::nfc_spec).collect()),
            J::Obj(m) => {
                let mut map = serde_json::Map::new();
                for (k, v) in m {
                    map.insert(s(k).nfc().collect::<String>(), v.nfc_spec());
                }
                Value::Object(map)
            }
            other => other.to_value(),
        }
    }
}

pub fn cps(cs: &[char]) -> String {
    cs.iter().map(|c| *c as u32 as u64).collect::<Vec<u64>>().coq()
}

impl Coq for J {
    fn coq(&self) -> String {
        match self {
            J::Null => "Null".into(),
            J::Bool(b) => format!("(Bool {})", b.coq()),
            J::Int(i) => format!("(Int {})", coq_z(*i)),
            J::Float(_) => "Float".into(),
            J::Str(cs) => format!("(Str {})", cps(cs)),
            J::Arr(l) => format!("(Arr {})", l.coq()),
            J::Obj(m) => {
                let items: Vec<String> = m.iter().map(|(k, v)| format!("({}, {})", cps(k), v.coq())).collect();
                format!("(Obj [{}])", items.join("; "))
            }
        }
    }
}

pub fn is_esc(c: char) -> bool {
    (c as u32) < 0x20 || c == '"' || c == '\\'
}

/// The fragments serde_json hands to `write_string_fragment` (non-empty runs
/// between escaped characters).
pub fn fragments(cs: &[char]) -> Vec<Vec<char>> {
    let mut out = vec![];
    let mut cur = vec![];
    for c in cs {
        if is_esc(*c) {
            if !cur.is_empty() {
                out.push(std::mem::take(&mut cur));
            }
        } else {
            cur.push(*c);
        }
    }
    if !cur.is_empty() {
        out.push(cur);
    }
    out
}

pub fn nfc_chars(cs: &[char]) -> Vec<char> {
    s(cs).nfc().collect()
}

/// NFC images (real unicode-normalization crate) of every fragment of every
/// string in `vals`, and of the images themselves; identity entries omitted.
pub fn nfc_table(vals: &[&J]) -> Vec<(Vec<char>, Vec<char>)> {
    let mut strs = vec![];
    for v in vals {
        v.strings(&mut strs);
    }
    let mut table: Vec<(Vec<char>, Vec<char>)> = vec![];
    let mut add = |a: Vec<char>, b: Vec<char>| {
        if a != b && !table.iter().any(|(x, _)| *x == a) {
            table.push((a, b));
        }
    };
    for st in strs {
        for f in fragments(st) {
            let img = nfc_chars(&f);
            // fragments of the image (it is expected to be a single one)
            for g in fragments(&img) {
                let img2 = nfc_chars(&g);
                add(g, img2);
            }
            add(f, img);
        }
    }
    table
}

pub fn table_term(t: &[(Vec<char>, Vec<char>)]) -> String {
    let items: Vec<String> = t.iter().map(|(a, b)| format!("({}, {})", cps(a), cps(b))).collect();
    format!("[{}]", items.join("; "))
}

// ------------------------------------------------------------------ generators

const PLAIN: &[char] = &['a', 'b', 'c', 'A', 'B', 'Z', 'z', '0', '9', '_', '.', '~', '#', '$', '[', ']', '^', '{', '}', ':', ','];
const NEAR_QUOTE: &[char] = &[' ', '!', '#'];
const ODD_BMP: &[char] = &[
    '\u{7f}', '\u{80}', '\u{9f}', '\u{a0}', '\u{df}', '\u{7ff}', '\u{800}', '\u{fff}', '\u{1000}', '\u{d7ff}',
    '\u{e000}', '\u{fffd}', '\u{ffff}', '\u{fb01}', '\u{2028}', '\u{feff}',
];
const ASTRAL: &[char] = &['\u{10000}', '\u{1f600}', '\u{10ffff}', '\u{1d15e}', '\u{2f800}', '\u{e0001}'];
/// sequences whose NFC differs from themselves or that exercise composition
const COMPOSING: &[&[char]] = &[
    &['e', '\u{301}'],
    &['\u{e9}'],
    &['a', '\u{30a}'],
    &['\u{212b}'],
    &['\u{2126}'],
    &['\u{1100}', '\u{1161}'],
    &['\u{1100}', '\u{1161}', '\u{11a8}'],
    &['\u{ac00}', '\u{11a8}'],
    &['\u{958}'],
    &['q', '\u{323}', '\u{307}'],
    &['q', '\u{307}', '\u{323}'],
    &['\u{1e0b}', '\u{323}'],
    &['\u{344}'],
    &['\u{301}'],
    &['\u{1d15e}'],
    &['\u{3d3}'],
    &['\u{3d2}', '\u{301}'],
    &['=', '\u{338}'],
    &['<', '\u{338}'],
    &['\u{f900}'],
];

pub fn gen_unit(r: &mut Rng, out: &mut Vec<char>) {
    let w = r.below(100);
    if w < 34 {
        out.push(*r.pick(PLAIN));
    } else if w < 42 {
        out.push(*r.pick(NEAR_QUOTE));
    } else if w < 47 {
        out.push(*r.pick(&['"', '\\']));
    } else if w < 55 {
        out.push(char::from_u32(r.below(32) as u32).unwrap());
    } else if w < 78 {
        let seq: &[char] = *r.pick(COMPOSING);
        out.extend_from_slice(seq);
    } else if w < 88 {
        out.push(*r.pick(ODD_BMP));
    } else if w < 93 {
        out.push(*r.pick(ASTRAL));
    } else {
        // any scalar value
        loop {
            let c = r.below(0x110000) as u32;
            if let Some(c) = char::from_u32(c) {
                out.push(c);
                break;
            }
        }
    }
}

pub fn gen_string(r: &mut Rng) -> Vec<char> {
    let n = match r.below(10) {
        0 => 0,
        1..=5 => 1,
        6..=7 => 2,
        8 => 3,
        _ => r.range(4, 7),
    };
    let mut out = vec![];
    for _ in 0..n {
        gen_unit(r, &mut out);
    }
    out
}

pub fn gen_int(r: &mut Rng) -> i128 {
    match r.below(12) {
        0 => 0,
        1 => -1,
        2 => i64::MIN as i128,
        3 => i64::MAX as i128,
        4 => u64::MAX as i128,
        5 => i64::MAX as i128 + 1,
        6 => 10i128.pow(r.below(20) as u32),
        7 => -(10i128.pow(r.below(19) as u32)),
        8 => r.next() as i128,
        9 => (r.next() as i64) as i128,
        _ => r.below(2000) as i128 - 1000,
    }
}

/// Derive a key that is related to an existing one: same after NFC, an
/// extension by a character around '"' (0x22), or an escaped variant.
fn related_key(r: &mut Rng, k: &[char]) -> Vec<char> {
    let mut out = k.to_vec();
    match r.below(7) {
        0 => s(k).nfd().collect(),
        1 => s(k).nfc().collect(),
        2 => {
            out.push(*r.pick(&[' ', '!', '#', 'a', '\u{7f}']));
            out
        }
        3 => {
            out.push(*r.pick(&['"', '\\', '\n', '\u{1}', '\u{1f}']));
            out
        }
        4 => {
            out.pop();
            out
        }
        5 => {
            if let Some(c) = out.last_mut() {
                *c = if c.is_ascii_lowercase() { c.to_ascii_uppercase() } else { 'a' };
            }
            out
        }
        _ => {
            out.insert(0, *r.pick(&['\u{8}', '\t', 'A', '"', '!']));
            out
        }
    }
}

pub fn gen_obj_keys(r: &mut Rng, n: usize) -> Vec<Vec<char>> {
    let mut keys: Vec<Vec<char>> = vec![];
    let mut tries = 0;
    while keys.len() < n && tries < 50 {
        tries += 1;
        let k = if !keys.is_empty() && r.chance(1, 2) {
            let base = r.pick(&keys).clone();
            related_key(r, &base)
        } else {
            gen_string(r)
        };
        if !keys.contains(&k) {
            keys.push(k);
        }
    }
    keys
}

pub struct GenCfg {
    pub floats: bool,
    pub max_depth: usize,
}

pub fn gen_value(r: &mut Rng, cfg: &GenCfg, depth: usize) -> J {
    let w = r.below(100);
    let leaf_only = depth >= cfg.max_depth;
    if w < 7 {
        J::Null
    } else if w < 14 {
        J::Bool(r.bool())
    } else if w < 34 {
        J::Int(gen_int(r))
    } else if w < 40 {
        if cfg.floats {
            let f = match r.below(5) {
                0 => 0.5,
                1 => -0.0,
                2 => 1e300,
                3 => 8.0,
                _ => (r.below(1000) as f64) / 7.0,
            };
            J::Float(f)
        } else {
            J::Int(gen_int(r))
        }
    } else if w < 62 || leaf_only {
        J::Str(gen_string(r))
    } else if w < 76 {
        let n = r.below(4) as usize;
        J::Arr((0..n).map(|_| gen_value(r, cfg, depth + 1)).collect())
    } else {
        let n = r.below(6) as usize;
        let keys = gen_obj_keys(r, n);
        J::Obj(keys.into_iter().map(|k| (k, gen_value(r, cfg, depth + 1))).collect())
    }
}
