//! C18: canonical JSON — correspondence with coq/model/CanonJson.v and the
//! direct oracle on the real encoder (`radicle::cob::store::encoding::encode`,
//! i.e. `serde_json::Serializer::with_formatter(.., CanonicalFormatter::new())`,
//! the same call `Doc::encode` makes).
mod jval;
use hw_common::*;
use jval::*;
use unicode_normalization::{is_nfc, UnicodeNormalization};

/// The real encoder.
fn real_encode(v: &Value) -> Result<Vec<u8>, String> {
    radicle::cob::store::encoding::encode(v).map_err(|e| e.to_string())
}

/// Position of the first whitespace byte outside a string literal.
fn ws_outside_string(bs: &[u8]) -> Option<usize> {
    let (mut in_str, mut esc) = (false, false);
    for (i, b) in bs.iter().enumerate() {
        if in_str {
            if esc {
                esc = false;
            } else if *b == b'\\' {
                esc = true;
            } else if *b == b'"' {
                in_str = false;
            }
        } else if matches!(*b, b' ' | b'\t' | b'\n' | b'\r') {
            return Some(i);
        } else if *b == b'"' {
            in_str = true;
        }
    }
    None
}

/// Independent re-statement of the JSON escaping rule, used only to compute
/// the order "by encoded key".
fn encoded_key(k: &str) -> Vec<u8> {
    let mut out = vec![b'"'];
    for c in k.chars() {
        match c {
            '"' => out.extend_from_slice(b"\\\""),
            '\\' => out.extend_from_slice(b"\\\\"),
            '\u{8}' => out.extend_from_slice(b"\\b"),
            '\t' => out.extend_from_slice(b"\\t"),
            '\n' => out.extend_from_slice(b"\\n"),
            '\u{c}' => out.extend_from_slice(b"\\f"),
            '\r' => out.extend_from_slice(b"\\r"),
            c if (c as u32) < 0x20 => out.extend_from_slice(format!("\\u{:04x}", c as u32).as_bytes()),
            c => out.extend_from_slice(c.encode_utf8(&mut [0; 4]).as_bytes()),
        }
    }
    out.push(b'"');
    out
}

/// A key whose encoded form does not compare like its raw bytes: it contains a
/// character below '#' (space, '!', '"', C0 controls) or a backslash.
fn key_in_known_class(k: &str) -> bool {
    k.chars().any(|c| (c as u32) < 0x23 || c == '\\')
}

struct OrderReport {
    objects: usize,
    raw_violation: Option<(Vec<String>, bool)>, // keys, in known class
    enc_violation: Option<Vec<String>>,
}

fn check_orders(v: &Value, rep: &mut OrderReport) {
    match v {
        Value::Array(l) => l.iter().for_each(|x| check_orders(x, rep)),
        Value::Object(m) => {
            rep.objects += 1;
            let keys: Vec<&String> = m.keys().collect();
            for w in keys.windows(2) {
                if w[0].as_bytes() >= w[1].as_bytes() && rep.raw_violation.is_none() {
                    let known = keys.iter().any(|k| key_in_known_class(k));
                    rep.raw_violation = Some((keys.iter().map(|k| k.to_string()).collect(), known));
                }
                if encoded_key(w[0]) >= encoded_key(w[1]) && rep.enc_violation.is_none() {
                    rep.enc_violation = Some(keys.iter().map(|k| k.to_string()).collect());
                }
            }
            m.values().for_each(|x| check_orders(x, rep));
        }
        _ => {}
    }
}

fn all_strings_nfc(v: &Value) -> Option<String> {
    match v {
        Value::String(s) => (!is_nfc(s)).then(|| s.clone()),
        Value::Array(l) => l.iter().find_map(all_strings_nfc),
        Value::Object(m) => m.iter().find_map(|(k, x)| (!is_nfc(k)).then(|| k.clone()).or_else(|| all_strings_nfc(x))),
        _ => None,
    }
}

fn escapes_of(j: &J) -> (bool, bool, bool, bool) {
    // (control char, quote/backslash, non-NFC string, escaped char in a key)
    let mut strs = vec![];
    j.strings(&mut strs);
    let ctl = strs.iter().any(|s| s.iter().any(|c| (*c as u32) < 0x20));
    let qb = strs.iter().any(|s| s.iter().any(|c| *c == '"' || *c == '\\'));
    let non_nfc = strs.iter().any(|st| !is_nfc(&s(st)));
    fn key_esc(j: &J) -> bool {
        match j {
            J::Arr(l) => l.iter().any(key_esc),
            J::Obj(m) => m.iter().any(|(k, v)| k.iter().any(|c| is_esc(*c)) || key_esc(v)),
            _ => false,
        }
    }
    (ctl, qb, non_nfc, key_esc(j))
}

fn has_nfc_collision(j: &J) -> bool {
    match j {
        J::Arr(l) => l.iter().any(has_nfc_collision),
        J::Obj(m) => {
            let mut seen = std::collections::BTreeSet::new();
            m.iter().any(|(k, _)| !seen.insert(s(k).nfc().collect::<String>())) || m.iter().any(|(_, v)| has_nfc_collision(v))
        }
        _ => false,
    }
}

/// Hypotheses the proofs make about NFC, tested on every fragment.
fn check_nfc_hypotheses(run: &mut Run, id: &str, j: &J) {
    let mut strs = vec![];
    j.strings(&mut strs);
    for st in strs {
        for f in fragments(st) {
            let img = nfc_chars(&f);
            if nfc_chars(&img) != img {
                run.fail(id, "nfc-hypothesis-idempotent", format!("nfc(nfc(f)) != nfc(f) for {:?}", f), json!({"fragment": s(&f)}));
            }
            if img.iter().any(|c| is_esc(*c)) {
                run.fail(id, "nfc-hypothesis-no-escape", format!("nfc creates an escaped character from {:?}", f), json!({"fragment": s(&f)}));
            }
            if img.is_empty() {
                run.fail(id, "nfc-hypothesis-nonempty", format!("nfc maps non-empty {:?} to empty", f), json!({"fragment": s(&f)}));
            }
        }
        // per-fragment normalisation (what the code does) against whole-string NFC
        let whole: Vec<char> = s(st).nfc().collect();
        let mut per: Vec<char> = vec![];
        let mut cur: Vec<char> = vec![];
        for c in st.iter() {
            if is_esc(*c) {
                per.extend(nfc_chars(&cur));
                cur.clear();
                per.push(*c);
            } else {
                cur.push(*c);
            }
        }
        per.extend(nfc_chars(&cur));
        if per != whole {
            run.tally("per-fragment-nfc-differs-from-whole-string-nfc");
        }
    }
}

fn encode_case(run: &mut Run, id: &str, j: &J, stream: &str) {
    run.eval();
    let v = j.to_value();
    let real = match catch(std::panic::AssertUnwindSafe(|| real_encode(&v))) {
        Ok(r) => r,
        Err(p) => {
            run.fail(id, "encode-panics", format!("canonical encoder panicked: {}", p), json!({"value": v}));
            return;
        }
    };
    let table = nfc_table(&[j]);
    let obs: Option<Vec<u8>> = real.as_ref().ok().cloned();
    run.case(id, format!("CEnc {} {}", table_term(&table), j.coq()), format!("OEnc {}", obs.coq()));
    check_nfc_hypotheses(run, id, j);

    // ---- distribution
    run.tally(&format!("{}:encode", stream));
    let (ctl, qb, non_nfc, key_esc) = escapes_of(j);
    if ctl { run.tally("has-control-char"); }
    if qb { run.tally("has-quote-or-backslash"); }
    if non_nfc { run.tally("has-non-nfc-string"); }
    if key_esc { run.tally("has-escaped-char-in-key"); }
    if has_nfc_collision(j) { run.tally("has-key-collision-after-nfc"); }
    if j.has_float() { run.tally("has-float"); }
    run.tally(&format!("depth-{}", j.depth().min(4)));
    if !table.is_empty() { run.tally("nfc-table-nonempty"); }

    // ---- direct oracle
    let input = json!({"value": v, "value_debug": format!("{:?}", j)});
    match (&real, j.has_float()) {
        (Ok(_), true) => {
            run.fail(id, "float-accepted", "a value containing a floating-point number was encoded".into(), input.clone());
        }
        (Err(e), false) => {
            run.fail(id, "encode-rejects-float-free-value", format!("encoder failed on a float-free value: {}", e), input.clone());
        }
        _ => {}
    }
    let Ok(bytes) = real else { return };
    if let Some(i) = ws_outside_string(&bytes) {
        run.fail(id, "whitespace-outside-string", format!("insignificant whitespace at byte {}", i), input.clone());
    }
    if let Some(i) = bytes.iter().position(|b| *b < 0x20) {
        run.fail(id, "raw-control-byte", format!("unescaped control byte {:#x} at {}", bytes[i], i), input.clone());
    }
    let decoded: Value = match serde_json::from_slice(&bytes) {
        Ok(d) => d,
        Err(e) => {
            run.fail(id, "output-not-json", format!("serde_json cannot parse the canonical output: {}", e), input.clone());
            return;
        }
    };
    match real_encode(&decoded) {
        Ok(again) if again == bytes => {}
        other => {
            run.fail(id, "reencode-differs", format!("decode-then-encode gives {:?}, first encoding {:?}",
                other.map(|b| String::from_utf8_lossy(&b).to_string()), String::from_utf8_lossy(&bytes)), input.clone());
        }
    }
    if let Some(st) = all_strings_nfc(&decoded) {
        run.fail(id, "string-not-nfc", format!("emitted string {:?} is not NFC", st), input.clone());
    }
    if decoded != j.nfc_spec() {
        run.fail(id, "decode-not-nfc-of-input", format!("decoded {} but the NFC image of the input is {}", decoded, j.nfc_spec()), input.clone());
    }
    let mut rep = OrderReport { objects: 0, raw_violation: None, enc_violation: None };
    check_orders(&decoded, &mut rep);
    if let Some(keys) = rep.enc_violation {
        run.fail(id, "keys-not-sorted", format!("object keys are not strictly increasing in encoded byte order: {:?}", keys), input.clone());
    }
    if let Some((keys, known)) = rep.raw_violation {
        if known {
            run.tally("key-order-deviates-from-raw-byte-order");
            run.fail(id, "key-order-by-encoded-bytes",
                format!("keys emitted as {:?}: ordered by the bytes of the quoted/escaped key, not by the bytes of the key", keys), input.clone());
        } else {
            run.fail(id, "keys-not-sorted", format!("object keys are not in byte order: {:?}", keys), input.clone());
        }
    }
    if rep.objects > 0 { run.tally("has-object"); }
    run.nontrivial(String::from_utf8_lossy(&bytes).to_string());

    // ---- decode correspondence on the real output
    let did = format!("{}d", id);
    run.case(&did, format!("CDec true {}", coq_bytes(&bytes)), format!("ODec (Some {})", J::from_value(&decoded).coq()));
}

fn mutate(r: &mut Rng, bytes: &mut Vec<u8>) -> &'static str {
    const INTERESTING: &[u8] = b"\"\\,:0-.eE{}[]A1 \n\tu";
    let n = bytes.len();
    match r.below(9) {
        0 => {
            let i = r.below(n as u64 + 1) as usize;
            bytes.insert(i, *r.pick(&[b' ', b'\n', b'\t', b'\r']));
            "insert-ws"
        }
        1 if n > 0 => {
            let i = r.below(n as u64) as usize;
            bytes[i] = *r.pick(INTERESTING);
            "replace-interesting"
        }
        2 if n > 0 => {
            let i = r.below(n as u64) as usize;
            bytes[i] = *r.pick(&[0x80u8, 0xbf, 0xc0, 0xc2, 0xe0, 0xed, 0xf0, 0xf4, 0xf5, 0xff, 0x7f, 0x1f]);
            "replace-highbyte"
        }
        3 if n > 0 => {
            let i = r.below(n as u64) as usize;
            bytes.remove(i);
            "delete"
        }
        4 if n > 0 => {
            let i = r.below(n as u64) as usize;
            let b = bytes[i];
            bytes.insert(i, b);
            "duplicate-byte"
        }
        5 => {
            let i = r.below(n as u64 + 1) as usize;
            const TOKENS: &[&str] = &["0", "-", ".5", "e1", "\\u0041", "\\u00e9", "\\ud83d\\ude00", "\\/", "\\u001F", "18446744073709551616", "-9223372036854775809", "-0", "\"a\":1,"];
            let ins: &[u8] = r.pick(TOKENS).as_bytes();
            for (k, b) in ins.iter().enumerate() {
                bytes.insert(i + k, *b);
            }
            "insert-token"
        }
        6 if n > 0 => {
            bytes.truncate(r.below(n as u64) as usize);
            "truncate"
        }
        7 if n > 0 => {
            for b in bytes.iter_mut() {
                if b.is_ascii_lowercase() && r.chance(1, 4) {
                    *b = b.to_ascii_uppercase();
                }
            }
            "uppercase"
        }
        _ => {
            bytes.push(*r.pick(INTERESTING));
            "append"
        }
    }
}

fn decode_case(run: &mut Run, id: &str, r: &mut Rng) {
    run.eval();
    let cfg = GenCfg { floats: false, max_depth: 2 };
    let j = gen_value(r, &cfg, 0);
    let Ok(mut bytes) = real_encode(&j.to_value()) else { return };
    let mut kinds = vec![];
    for _ in 0..r.range(1, 2) {
        kinds.push(mutate(r, &mut bytes));
    }
    let parsed: Option<Value> = serde_json::from_slice(&bytes).ok();
    run.tally("2:decode-mutated");
    run.tally(if parsed.is_some() { "mutated-still-parses" } else { "mutated-rejected" });
    for k in kinds {
        run.tally(&format!("mutation-{}", k));
    }
    let obs = parsed.as_ref().map(J::from_value);
    run.case(id, format!("CDec false {}", coq_bytes(&bytes)), format!("ODec {}", obs.coq()));
    // oracle: whatever still parses must re-encode to a fixed point of decode/encode
    if let Some(p) = parsed {
        if let Ok(b1) = real_encode(&p) {
            match serde_json::from_slice::<Value>(&b1).ok().and_then(|d| real_encode(&d).ok()) {
                Some(b2) if b2 == b1 => {}
                _ => run.fail(id, "reencode-differs", "decode-then-encode is not stable".into(),
                    json!({"bytes": String::from_utf8_lossy(&bytes)})),
            }
        }
    }
}

/// Targeted values: every escaped character alone and in a key, the quote
/// boundary in key ordering, NFC collisions, integer bounds.
fn boundary_value(i: u64, r: &mut Rng) -> J {
    let ch = |c: u32| char::from_u32(c).unwrap();
    match i {
        0..=0x22 => J::Str(vec![ch(i as u32)]),
        0x23..=0x45 => {
            let c = ch((i - 0x23) as u32);
            J::Obj(vec![(vec![c], J::Int(1)), (vec!['A'], J::Int(2)), (vec!['a'], J::Int(3)), (vec![c, 'x'], J::Null)])
        }
        0x46 => J::Obj(vec![(vec!['a'], J::Int(1)), (vec!['a', '!'], J::Int(2)), (vec!['a', ' '], J::Int(3)), (vec!['a', '#'], J::Int(4))]),
        0x47 => J::Obj(vec![(vec!['e', '\u{301}'], J::Int(1)), (vec!['\u{e9}'], J::Int(2))]),
        0x48 => J::Obj(vec![(vec!['\u{e9}'], J::Int(2)), (vec!['e', '\u{301}'], J::Int(1))]),
        0x49 => J::Obj(vec![(vec!['"'], J::Int(1)), (vec!['#'], J::Int(2)), (vec!['\\'], J::Int(3)), (vec![']'], J::Int(4)), (vec!['['], J::Int(5))]),
        0x4a => J::Arr(vec![J::Int(i64::MIN as i128), J::Int(i64::MAX as i128), J::Int(u64::MAX as i128), J::Int(0), J::Int(-1)]),
        0x4b => J::Float(8.0),
        0x4c => J::Obj(vec![(vec!['x'], J::Float(8.0))]),
        0x4d => J::Obj(vec![]),
        0x4e => J::Arr(vec![]),
        0x4f => J::Str(vec!['e', '"', '\u{301}']),
        0x50 => J::Str(vec!['e', '\n', '\u{301}', 'e', '\u{301}']),
        0x51 => J::Obj(vec![(vec![], J::Int(1)), (vec![' '], J::Int(2)), (vec!['\u{0}'], J::Int(3))]),
        0x52 => J::Obj(vec![(vec!['\u{7f}'], J::Int(1)), (vec!['\u{80}'], J::Int(2)), (vec!['\u{10ffff}'], J::Int(3)), (vec!['\u{ffff}'], J::Int(4))]),
        _ => {
            // an object whose keys are related to each other
            let n = r.range(2, 6) as usize;
            let keys = gen_obj_keys(r, n);
            J::Obj(keys.into_iter().enumerate().map(|(k, key)| (key, J::Int(k as i128))).collect())
        }
    }
}

fn wants(run: &Run, id: &str) -> bool {
    run.args.wants(id) || run.args.wants(&format!("{}d", id))
}

fn main() {
    quiet_panics();
    let mut run = Run::new(
        "C18",
        "model.CanonJson",
        "stream 0: random JSON values (depth<=3; strings mix ASCII, characters around '\"', escapes, C0 controls, composing/\
         decomposed sequences, Hangul jamo, singletons, astral; keys derived from each other so that they collide after NFC or \
         are prefixes of each other; integers at the i64/u64 bounds; floats in 1/5 of the cases). stream 1: targeted boundary \
         values (every escaped character alone / as key, quote boundary in key order, NFC collisions). stream 2: byte-level \
         mutations of real canonical output, decoded by serde_json and by the model parser. Every real output is also a \
         decode case. Non-trivial = distinct successful canonical outputs.",
    );
    run.shard_size(300);
    let seed = run.args.seed;
    let n0 = run.args.count(900, 20000);
    for i in 0..n0 {
        let id = format!("0:{}", i);
        if !wants(&run, &id) { continue; }
        let mut r = Rng::for_case(seed, 0, i);
        let cfg = GenCfg { floats: i % 5 == 4, max_depth: 3 };
        let j = gen_value(&mut r, &cfg, 0);
        if i < 3 { run.sample(json!({"case_id": id, "value": j.to_value()})); }
        encode_case(&mut run, &id, &j, "0");
    }
    let n1 = run.args.count(300, 5000);
    for i in 0..n1 {
        let id = format!("1:{}", i);
        if !wants(&run, &id) { continue; }
        let mut r = Rng::for_case(seed, 1, i);
        let j = boundary_value(i, &mut r);
        encode_case(&mut run, &id, &j, "1");
    }
    let n2 = run.args.count(600, 15000);
    for i in 0..n2 {
        let id = format!("2:{}", i);
        if !run.args.wants(&id) { continue; }
        let mut r = Rng::for_case(seed, 2, i);
        decode_case(&mut run, &id, &mut r);
    }
    run.finish();
}
