//! C16: at most one fetch per repository, attributed to the right peer.
//!
//! Drives the REAL `radicle_node::service::Service` (through the `test::peer::Peer`
//! wrapper, in-memory mock storage, SQLite in a temp dir) with interleavings of
//! connect / connected / disconnected / reconnect, `Command::Fetch`, refs
//! announcements, worker results (including late ones) and wake-ups, and
//!  (a) evaluates a direct oracle on what the service did (independent of the Coq
//!      model): no panic, `Service::fetching` and the sessions' fetching sets
//!      agree, per-session and per-peer limits, every worker result completes
//!      exactly the fetch it belongs to, subscribers get the result of their fetch;
//!  (b) records every step (event + observed state / Io / subscriber results) as a
//!      correspondence case for coq/model/FetchSched.v.
//! The harness plays the wire's forwarding rules itself: a worker result is
//! handed to `Service::fetched` only if a peer with that node id is connected at
//! the wire level; `Service::attempted` follows an `Io::Connect` unless the wire
//! already holds a connected peer with that id.
use std::collections::{BTreeMap, BTreeSet, HashMap};
use std::panic::AssertUnwindSafe;
use std::str::FromStr;
use std::{io, net};

use crossbeam_channel as chan;
use hw_common::*;
use localtime::{LocalDuration, LocalTime};

use radicle::crypto::test::signer::MockSigner;
use radicle::node::address::Store as _;
use radicle::node::config::PeerConfig;
use radicle::node::device::Device;
use radicle::node::policy::{Scope, SeedingPolicy};
use radicle::node::refs::Store as _;
use radicle::node::{address, Alias, ConnectOptions, Features, KnownAddress, UserAgent};
use radicle::storage::refs::{RefsAt, SIGREFS_BRANCH};
use radicle::storage::RefUpdate;
use radicle::test::arbitrary;
use radicle::test::storage::{MockRepository, MockStorage};
use radicle_node::prelude::*;
use radicle_node::service::io::Io;
use radicle_node::service::message::{AnnouncementMessage, Ping, RefsAnnouncement};
use radicle_node::service::session::{State, MAX_FETCH_QUEUE_SIZE};
use radicle_node::service::{self, Command, ServiceState as _};
use radicle_node::test::peer::{self, Peer};
use radicle_node::worker::{fetch, FetchError};
use radicle_node::{Link, PROTOCOL_VERSION};

/// Known finding: same-peer late result (cannot be fixed without a fetch/stream id in the result).
const KC: &str = "a worker result is delivered after its peer's session was re-established and a newer fetch of the same repository from that same peer is in flight";

#[derive(Clone, Copy, Debug, PartialEq, Eq)]
enum Res {
    Ok,
    Err,
    Timeout,
}
#[derive(Clone, Copy, Debug, PartialEq, Eq)]
enum Lk {
    In,
    Out,
}
impl Lk {
    fn link(self) -> Link {
        match self {
            Lk::In => Link::Inbound,
            Lk::Out => Link::Outbound,
        }
    }
    fn coq(self) -> &'static str {
        match self {
            Lk::In => "Inbound",
            Lk::Out => "Outbound",
        }
    }
    fn tag(self) -> u64 {
        match self {
            Lk::In => 0,
            Lk::Out => 1,
        }
    }
}

/// Generator-level symbol; resolved against the running world.
#[derive(Clone, Debug)]
enum Sym {
    Connect(usize, bool),
    Connected(usize, Lk),
    Disconnected(usize, Lk),
    /// disconnection with the link the session currently has (outbound if none)
    DisconnectedCur(usize),
    Recv(usize),
    Refs(usize, usize, usize, Vec<usize>),
    Fetch(usize, usize),
    ResultOldest(Res),
    ResultNewest(Res),
    ResultNth(usize, Res),
    Wake(u64),
    Seed(usize, bool),
    Store(usize, usize),
}

/// Concrete event, as given to the model (ids are the model's N values).
#[derive(Clone, Debug)]
enum Ev {
    Connect { n: u64, pers: bool, att: bool },
    Connected { n: u64, l: Lk },
    Disconnected { n: u64, l: Lk },
    Recv { n: u64 },
    Refs { relayer: u64, announcer: u64, rid: u64, refs: Vec<u64> },
    Fetch { rid: u64, n: u64, sub: u64 },
    Result { inst: u64, res: Res, fwd: bool },
    Wake { idle: bool, due: Vec<(u64, bool)> },
    Seed { rid: u64, on: bool },
    Store { rid: u64, tok: u64 },
}

impl Coq for Ev {
    fn coq(&self) -> String {
        match self {
            Ev::Connect { n, pers, att } => format!("EConnect {} {} {}", n, pers.coq(), att.coq()),
            Ev::Connected { n, l } => format!("EConnected {} {}", n, l.coq()),
            Ev::Disconnected { n, l } => format!("EDisconnected {} {} []", n, l.coq()),
            Ev::Recv { n } => format!("ERecv {}", n),
            Ev::Refs { relayer, announcer, rid, refs } => {
                format!("ERefs {} {} {} {}", relayer, announcer, rid, refs.coq())
            }
            Ev::Fetch { rid, n, sub } => format!("EFetch {} {} (Some {})", rid, n, sub),
            Ev::Result { inst, res, fwd } => format!(
                "EResult {} {} {} []",
                inst,
                match res {
                    Res::Ok => "ROk",
                    Res::Err => "RErr",
                    Res::Timeout => "RTimeout",
                },
                fwd.coq()
            ),
            Ev::Wake { idle, due } => format!("EWake {} {} []", idle.coq(), due.coq()),
            Ev::Seed { rid, on } => format!("ESeed {} {}", rid, on.coq()),
            Ev::Store { rid, tok } => format!("EStore {} {}", rid, tok),
        }
    }
}

#[derive(Clone, Debug, PartialEq, Eq)]
enum IoObs {
    Fetch { rid: u64, nid: u64, refs: Vec<u64>, inst: u64 },
    Connect(u64),
    Disconnect(u64),
}
impl Coq for IoObs {
    fn coq(&self) -> String {
        match self {
            IoObs::Fetch { rid, nid, refs, inst } => format!("IoFetch {} {} {} {}", rid, nid, refs.coq(), inst),
            IoObs::Connect(n) => format!("IoConnect {}", n),
            IoObs::Disconnect(n) => format!("IoDisconnect {}", n),
        }
    }
}

#[derive(Clone, Debug, PartialEq, Eq)]
enum Notif {
    Result(u64, Res),
    /// a success/failure whose payload carries no instance tag
    Untagged,
    Disconnected,
    Failed,
}
impl Coq for Notif {
    fn coq(&self) -> String {
        match self {
            Notif::Result(i, r) => format!(
                "NoResult {} {}",
                i,
                match r {
                    Res::Ok => 0,
                    Res::Err => 1,
                    Res::Timeout => 2,
                }
            ),
            Notif::Untagged => "NoResult 999999 9".into(),
            Notif::Disconnected => "NoDisconnected".into(),
            Notif::Failed => "NoFailed".into(),
        }
    }
}

#[derive(Clone, Debug, Default)]
struct SessObs {
    link: u64,
    tag: u64,
    fetching: Vec<u64>,
    queue: Vec<(u64, Vec<u64>, Option<u64>)>,
    queue_from_ok: bool,
    retry_at: Option<LocalTime>,
}
#[derive(Clone, Debug, Default)]
struct FetchObs {
    from: u64,
    refs: Vec<u64>,
    subs: Vec<u64>,
}
#[derive(Clone, Debug, Default)]
struct Snap {
    sessions: BTreeMap<u64, SessObs>,
    fetching: BTreeMap<u64, FetchObs>,
}

impl Snap {
    fn coq(&self, ios: &[IoObs], notifs: &[(u64, Notif)]) -> String {
        let ss: Vec<String> = self
            .sessions
            .iter()
            .map(|(n, s)| {
                let q: Vec<String> = s
                    .queue
                    .iter()
                    .map(|(r, refs, sub)| format!("({}, {}, {})", r, refs.coq(), sub.coq()))
                    .collect();
                format!("({}, {}, {}, {}, [{}])", n, s.link, s.tag, s.fetching.coq(), q.join("; "))
            })
            .collect();
        let fs: Vec<String> = self
            .fetching
            .iter()
            .map(|(r, f)| format!("({}, {}, {}, {})", r, f.from, f.refs.coq(), f.subs.coq()))
            .collect();
        let ns: Vec<String> = notifs.iter().map(|(s, n)| format!("({}, {})", s, n.coq())).collect();
        format!("SOk {} [{}] [{}] [{}]", ios.coq(), ns.join("; "), ss.join("; "), fs.join("; "))
    }
}

struct Remote {
    signer: Device<MockSigner>,
    nid: NodeId,
    addr: Address,
}

struct Inst {
    rid: u64,
    nid: u64,
    epoch: u64,
    resolved: bool,
}

struct World {
    alice: Peer<MockStorage, MockSigner>,
    peers: Vec<Remote>,
    rids: Vec<RepoId>,
    toks: Vec<RefsAt>,
    nid_ix: HashMap<NodeId, u64>,
    rid_ix: HashMap<RepoId, u64>,
    subs: Vec<(chan::Sender<radicle::node::FetchResult>, chan::Receiver<radicle::node::FetchResult>)>,
    conc: usize,
    // the harness' wire: node ids with a connected peer at the wire level
    wire: BTreeSet<u64>,
    last_idle: Option<LocalTime>,
    ann_ts: u64,
    // oracle ghost state
    insts: Vec<Inst>,
    cur: BTreeMap<u64, u64>,
    epoch: BTreeMap<u64, u64>,
    attached: HashMap<u64, u64>,
    kc_seen: bool,
    snap: Snap,
    // statistics of this case
    stats: BTreeMap<&'static str, u64>,
}

const IPS: [[u8; 4]; 4] = [[8, 8, 8, 8], [9, 9, 9, 9], [10, 10, 10, 10], [11, 11, 11, 11]];

fn oid_of(b: u8) -> radicle::git::Oid {
    radicle::git::Oid::try_from([b; 20].as_slice()).unwrap()
}

impl World {
    fn new(seed: u64, conc: usize, npeers: usize, nrids: usize, ntoks: usize) -> World {
        let mut rng = fastrand::Rng::with_seed(seed);
        let signer = Device::mock_rng(&mut rng);
        let mut config = service::Config::test(Alias::from_str("alice").unwrap());
        config.peers = PeerConfig::Static;
        config.limits.fetch_concurrency = conc;
        config.limits.rate.inbound.capacity = 1 << 20;
        config.limits.rate.outbound.capacity = 1 << 20;
        let local_time = LocalTime::from_secs(1_700_000_000);
        let cfg = peer::Config {
            config,
            local_time,
            policy: SeedingPolicy::default(),
            signer,
            rng: rng.clone(),
            // sqlite database of the node: keep it off the disk when possible
            tmp: if std::path::Path::new("/dev/shm").is_dir() {
                tempfile::TempDir::new_in("/dev/shm").unwrap()
            } else {
                tempfile::TempDir::new().unwrap()
            },
        };
        let mut alice = Peer::config("alice", [7, 7, 7, 7], MockStorage::empty(), cfg).initialized();
        let mut peers = vec![];
        let mut nid_ix = HashMap::new();
        for k in 0..npeers {
            let signer = Device::mock_rng(&mut rng);
            let nid = *signer.public_key();
            let addr = Address::from(net::SocketAddr::from((IPS[k], 8776)));
            nid_ix.insert(nid, k as u64 + 1);
            // make the node known (announcements of unknown nodes are ignored)
            alice
                .database_mut()
                .addresses_mut()
                .insert(
                    &nid,
                    PROTOCOL_VERSION,
                    Features::default(),
                    &Alias::from_str(&format!("peer{k}")).unwrap(),
                    0,
                    &UserAgent::default(),
                    Timestamp::from(local_time),
                    Some(KnownAddress::new(addr.clone(), address::Source::Peer)),
                )
                .unwrap();
            peers.push(Remote { signer, nid, addr });
        }
        let mut rids = vec![];
        let mut rid_ix = HashMap::new();
        for k in 0..nrids {
            let rid = RepoId::from(oid_of(0x10 + k as u8));
            rid_ix.insert(rid, k as u64 + 1);
            // present in storage, so that the periodic "fetch missing repositories" task
            // (not part of the model) has nothing to do
            alice.storage_mut().repos.insert(
                rid,
                MockRepository { id: rid, doc: arbitrary::gen(1), remotes: HashMap::new() },
            );
            rids.push(rid);
        }
        let mut toks = vec![];
        for k in 0..ntoks {
            let remote = *Device::mock_rng(&mut rng).public_key();
            toks.push(RefsAt { remote, at: oid_of(0x40 + k as u8) });
        }
        // drain whatever initialisation put in the outbox
        let _ = alice.outbox().count();
        let mut w = World {
            alice,
            peers,
            rids,
            toks,
            nid_ix,
            rid_ix,
            subs: vec![],
            conc,
            wire: BTreeSet::new(),
            last_idle: None,
            ann_ts: 0,
            insts: vec![],
            cur: BTreeMap::new(),
            epoch: BTreeMap::new(),
            attached: HashMap::new(),
            kc_seen: false,
            snap: Snap::default(),
            stats: BTreeMap::new(),
        };
        w.snap = w.snapshot();
        w
    }

    fn stat(&mut self, k: &'static str) {
        *self.stats.entry(k).or_insert(0) += 1;
    }

    fn toks_of(&self, refs: &[RefsAt]) -> Vec<u64> {
        refs.iter()
            .map(|r| self.toks.iter().position(|t| t == r).map(|p| p as u64 + 1).unwrap_or(9999))
            .collect()
    }

    fn sub_of(&self, c: &chan::Sender<radicle::node::FetchResult>) -> u64 {
        self.subs.iter().position(|(s, _)| s.same_channel(c)).map(|p| p as u64).unwrap_or(9999)
    }

    fn snapshot(&self) -> Snap {
        let mut snap = Snap::default();
        for (nid, s) in self.alice.sessions().iter() {
            let n = *self.nid_ix.get(nid).unwrap_or(&9999);
            let (tag, fetching, retry_at) = match &s.state {
                State::Initial => (0, vec![], None),
                State::Attempted => (1, vec![], None),
                State::Connected { fetching, .. } => {
                    let mut f: Vec<u64> = fetching.iter().map(|r| *self.rid_ix.get(r).unwrap_or(&9999)).collect();
                    f.sort();
                    (2, f, None)
                }
                State::Disconnected { retry_at, .. } => (3, vec![], Some(*retry_at)),
            };
            let queue = s
                .queue
                .iter()
                .map(|q| {
                    (
                        *self.rid_ix.get(&q.rid).unwrap_or(&9999),
                        self.toks_of(&q.refs_at),
                        q.channel.as_ref().map(|c| self.sub_of(c)),
                    )
                })
                .collect();
            let queue_from_ok = s.queue.iter().all(|q| q.from == *nid) && s.id == *nid;
            snap.sessions.insert(
                n,
                SessObs { link: if s.link.is_inbound() { 0 } else { 1 }, tag, fetching, queue, queue_from_ok, retry_at },
            );
        }
        for (rid, f) in self.alice.fetching().iter() {
            let r = *self.rid_ix.get(rid).unwrap_or(&9999);
            snap.fetching.insert(
                r,
                FetchObs {
                    from: *self.nid_ix.get(&f.from).unwrap_or(&9999),
                    refs: self.toks_of(&f.refs_at),
                    subs: f.subscribers.iter().map(|c| self.sub_of(c)).collect(),
                },
            );
        }
        snap
    }

    fn unresolved(&self) -> Vec<usize> {
        (0..self.insts.len()).filter(|i| !self.insts[*i].resolved).collect()
    }

    /// Resolve a symbol into a concrete event (None: not applicable now).
    fn resolve(&mut self, sym: &Sym) -> Option<Ev> {
        Some(match sym {
            Sym::Connect(p, pers) => {
                let n = *p as u64 + 1;
                Ev::Connect { n, pers: *pers, att: !self.wire.contains(&n) }
            }
            Sym::Connected(p, l) => Ev::Connected { n: *p as u64 + 1, l: *l },
            Sym::Disconnected(p, l) => Ev::Disconnected { n: *p as u64 + 1, l: *l },
            Sym::DisconnectedCur(p) => {
                let n = *p as u64 + 1;
                let l = match self.snap.sessions.get(&n) {
                    Some(s) if s.link == 0 => Lk::In,
                    _ => Lk::Out,
                };
                Ev::Disconnected { n, l }
            }
            Sym::Recv(p) => Ev::Recv { n: *p as u64 + 1 },
            Sym::Refs(a, b, r, toks) => Ev::Refs {
                relayer: *a as u64 + 1,
                announcer: *b as u64 + 1,
                rid: *r as u64 + 1,
                refs: toks.iter().map(|t| *t as u64 + 1).collect(),
            },
            Sym::Fetch(r, p) => {
                let sub = self.subs.len() as u64;
                Ev::Fetch { rid: *r as u64 + 1, n: *p as u64 + 1, sub }
            }
            Sym::ResultOldest(res) | Sym::ResultNewest(res) | Sym::ResultNth(_, res) => {
                let un = self.unresolved();
                if un.is_empty() {
                    return None;
                }
                let i = match sym {
                    Sym::ResultOldest(_) => un[0],
                    Sym::ResultNewest(_) => *un.last().unwrap(),
                    Sym::ResultNth(k, _) => un[*k % un.len()],
                    _ => unreachable!(),
                };
                let fwd = self.wire.contains(&self.insts[i].nid);
                Ev::Result { inst: i as u64, res: *res, fwd }
            }
            Sym::Wake(secs) => {
                let now = *self.alice.clock() + LocalDuration::from_secs(*secs);
                let idle = match self.last_idle {
                    None => true,
                    Some(t) => now - t >= service::IDLE_INTERVAL,
                };
                let due = self
                    .snap
                    .sessions
                    .iter()
                    .filter(|(_, s)| s.retry_at.map(|t| now >= t).unwrap_or(false))
                    .map(|(n, _)| (*n, !self.wire.contains(n)))
                    .collect();
                Ev::Wake { idle, due }
            }
            Sym::Seed(r, on) => Ev::Seed { rid: *r as u64 + 1, on: *on },
            Sym::Store(r, t) => Ev::Store { rid: *r as u64 + 1, tok: *t as u64 + 1 },
        })
    }

    /// Apply a concrete event to the real service (may panic: caller catches).
    fn apply(&mut self, ev: &Ev, secs: u64) {
        match ev {
            Ev::Connect { n, pers, .. } => {
                let p = &self.peers[*n as usize - 1];
                let opts = ConnectOptions { persistent: *pers, ..ConnectOptions::default() };
                self.alice.command(Command::Connect(p.nid, p.addr.clone(), opts));
            }
            Ev::Connected { n, l } => {
                let p = &self.peers[*n as usize - 1];
                self.alice.connected(p.nid, p.addr.clone(), l.link());
            }
            Ev::Disconnected { n, l } => {
                let nid = self.peers[*n as usize - 1].nid;
                self.alice.disconnected(nid, l.link(), &DisconnectReason::connection());
            }
            Ev::Recv { n } => {
                let nid = self.peers[*n as usize - 1].nid;
                let mut rng = fastrand::Rng::with_seed(7);
                self.alice.receive(nid, Message::Ping(Ping::new(&mut rng)));
            }
            Ev::Refs { relayer, announcer, rid, refs } => {
                self.ann_ts += 1;
                let ts = self.alice.timestamp() + self.ann_ts;
                let refs: Vec<RefsAt> = refs.iter().map(|t| self.toks[*t as usize - 1]).collect();
                let ann = AnnouncementMessage::from(RefsAnnouncement {
                    rid: self.rids[*rid as usize - 1],
                    refs: BoundedVec::try_from(refs).unwrap(),
                    timestamp: ts,
                })
                .signed(&self.peers[*announcer as usize - 1].signer);
                let from = self.peers[*relayer as usize - 1].nid;
                self.alice.receive(from, Message::Announcement(ann));
            }
            Ev::Fetch { rid, n, sub } => {
                let (s, r) = chan::unbounded();
                assert_eq!(*sub as usize, self.subs.len());
                self.subs.push((s.clone(), r));
                let nid = self.peers[*n as usize - 1].nid;
                self.alice.command(Command::Fetch(
                    self.rids[*rid as usize - 1],
                    nid,
                    std::time::Duration::from_secs(9),
                    s,
                ));
            }
            Ev::Result { inst, res, fwd } => {
                let i = &self.insts[*inst as usize];
                if *fwd {
                    let rid = self.rids[i.rid as usize - 1];
                    let nid = self.peers[i.nid as usize - 1].nid;
                    // the payload carries the instance id, so that a subscriber result can
                    // be attributed to the worker instance it came from
                    let result = match res {
                        Res::Ok => {
                            let mut r = fetch::FetchResult::new(arbitrary::gen(1));
                            r.updated = vec![RefUpdate::Skipped {
                                name: radicle::git::RefString::try_from(format!("refs/verif/inst-{}", inst)).unwrap(),
                                oid: oid_of(0),
                            }];
                            Ok(r)
                        }
                        Res::Err => Err(FetchError::Io(io::Error::new(io::ErrorKind::Other, format!("inst-{}-err", inst)))),
                        Res::Timeout => {
                            Err(FetchError::Io(io::Error::new(io::ErrorKind::TimedOut, format!("inst-{}-timeout", inst))))
                        }
                    };
                    self.alice.fetched(rid, nid, result);
                }
            }
            Ev::Wake { .. } => {
                self.alice.elapse(LocalDuration::from_secs(secs));
            }
            Ev::Seed { rid, on } => {
                let rid = self.rids[*rid as usize - 1];
                if *on {
                    self.alice.seed(&rid, Scope::All).unwrap();
                } else {
                    self.alice.unseed(&rid).unwrap();
                }
            }
            Ev::Store { rid, tok } => {
                let rid = self.rids[*rid as usize - 1];
                let t = self.toks[*tok as usize - 1];
                self.alice
                    .database_mut()
                    .refs_mut()
                    .set(&rid, &t.remote, &SIGREFS_BRANCH, t.at, LocalTime::from_secs(1_700_000_000))
                    .unwrap();
            }
        }
    }

    /// Drain the outbox; returns the projection the model talks about and the node
    /// ids of `Io::Connect`s.
    fn drain(&mut self) -> (Vec<IoObs>, Vec<u64>) {
        let all: Vec<Io> = self.alice.outbox().collect();
        let mut ios = vec![];
        let mut connects = vec![];
        for io in all {
            match io {
                Io::Fetch { rid, remote, refs_at, .. } => {
                    let inst = (self.insts.len() + ios.iter().filter(|x| matches!(x, IoObs::Fetch { .. })).count()) as u64;
                    ios.push(IoObs::Fetch {
                        rid: *self.rid_ix.get(&rid).unwrap_or(&9999),
                        nid: *self.nid_ix.get(&remote).unwrap_or(&9999),
                        refs: self.toks_of(&refs_at.unwrap_or_default()),
                        inst,
                    });
                }
                Io::Connect(nid, _) => {
                    let n = *self.nid_ix.get(&nid).unwrap_or(&9999);
                    ios.push(IoObs::Connect(n));
                    connects.push(n);
                }
                Io::Disconnect(nid, DisconnectReason::Fetch(_)) => {
                    ios.push(IoObs::Disconnect(*self.nid_ix.get(&nid).unwrap_or(&9999)));
                }
                _ => {}
            }
        }
        (ios, connects)
    }

    fn notifications(&mut self) -> Vec<(u64, Notif)> {
        let mut out = vec![];
        for (k, (_, rx)) in self.subs.iter().enumerate() {
            while let Ok(r) = rx.try_recv() {
                let n = match r {
                    radicle::node::FetchResult::Success { updated, .. } => {
                        let tag = updated.iter().find_map(|u| match u {
                            RefUpdate::Skipped { name, .. } => {
                                name.as_str().strip_prefix("refs/verif/inst-").and_then(|s| s.parse::<u64>().ok())
                            }
                            _ => None,
                        });
                        match tag {
                            Some(i) => Notif::Result(i, Res::Ok),
                            None => Notif::Untagged,
                        }
                    }
                    radicle::node::FetchResult::Failed { reason } => {
                        if let Some(rest) = reason.strip_prefix("inst-") {
                            let mut it = rest.splitn(2, '-');
                            let i = it.next().and_then(|s| s.parse::<u64>().ok());
                            let kind = it.next();
                            match (i, kind) {
                                (Some(i), Some("err")) => Notif::Result(i, Res::Err),
                                (Some(i), Some("timeout")) => Notif::Result(i, Res::Timeout),
                                _ => Notif::Untagged,
                            }
                        } else if reason.starts_with("disconnected") {
                            Notif::Disconnected
                        } else {
                            Notif::Failed
                        }
                    }
                };
                out.push((k as u64, n));
            }
        }
        out
    }
}

struct StepOut {
    ev: Ev,
    /// None = the step panicked
    obs: Option<(Vec<IoObs>, Vec<(u64, Notif)>, Snap)>,
    panic: Option<String>,
}

/// One oracle failure: (class, what).
type Fail = (String, String);

impl World {
    /// Execute one symbol on the real service, observe, and run the oracle.
    fn step(&mut self, sym: &Sym, fails: &mut Vec<Fail>) -> Option<StepOut> {
        let mut ev = self.resolve(sym)?;
        let secs = if let Sym::Wake(s) = sym { *s } else { 0 };
        let pre = self.snap.clone();
        let precur = self.cur.clone();

        // more than one session able to dequeue: the visiting order of
        // `sessions.shuffled()` can matter in this step
        if matches!(ev, Ev::Result { fwd: true, .. } | Ev::Disconnected { .. } | Ev::Wake { idle: true, .. }) {
            let able = pre.sessions.values().filter(|s| s.tag == 2 && !s.queue.is_empty()).count();
            if able >= 2 {
                self.stat("order-dependent-step(>=2 sessions with queued fetches)");
            }
        }

        let att_all: BTreeSet<u64> = match &ev {
            Ev::Connect { n, att: true, .. } => [*n].into_iter().collect(),
            Ev::Wake { due, .. } => due.iter().filter(|d| d.1).map(|d| d.0).collect(),
            _ => BTreeSet::new(),
        };
        let evc = ev.clone();
        let w = &mut *self;
        let r = catch(AssertUnwindSafe(move || {
            w.apply(&evc, secs);
            let (ios, connects) = w.drain();
            // the wire processes Io::Connect: service.attempted unless already connected
            for n in &connects {
                if att_all.contains(n) {
                    let p = &w.peers[*n as usize - 1];
                    let (nid, addr) = (p.nid, p.addr.clone());
                    w.alice.attempted(nid, addr);
                }
            }
            (ios, connects)
        }));
        let (ios, connects) = match r {
            Ok(x) => x,
            Err(msg) => {
                fails.push((
                    "panic-while-scheduling".into(),
                    format!("the service panicked on {:?}: {}", ev, msg.lines().next().unwrap_or("")),
                ));
                return Some(StepOut { ev, obs: None, panic: Some(msg) });
            }
        };
        // bookkeeping of the harness' wire / clock
        match &mut ev {
            Ev::Connected { n, .. } => {
                self.wire.insert(*n);
            }
            Ev::Disconnected { n, .. } => {
                self.wire.remove(n);
            }
            Ev::Wake { idle, due } => {
                if *idle {
                    self.last_idle = Some(*self.alice.clock());
                }
                // pass the due list in the order the service visited it (observable through
                // the order of the Io::Connect it emitted)
                let mut ordered: Vec<(u64, bool)> = vec![];
                for n in &connects {
                    if let Some(d) = due.iter().find(|d| d.0 == *n) {
                        ordered.push(*d);
                    }
                }
                for d in due.iter() {
                    if !ordered.iter().any(|o| o.0 == d.0) {
                        ordered.push(*d);
                    }
                }
                *due = ordered;
            }
            _ => {}
        }
        if !connects.is_empty() && !matches!(ev, Ev::Connect { .. } | Ev::Wake { .. }) {
            fails.push(("unmodelled-io-connect".into(), format!("Io::Connect emitted on {:?}", ev)));
        }
        let mut notifs = self.notifications();
        notifs.sort_by_key(|x| x.0);
        let post = self.snapshot();

        self.oracle(&ev, &pre, &precur, &post, &ios, &notifs, fails);
        self.snap = post.clone();
        Some(StepOut { ev, obs: Some((ios, notifs, post)), panic: None })
    }

    #[allow(clippy::too_many_arguments)]
    fn oracle(
        &mut self,
        ev: &Ev,
        pre: &Snap,
        precur: &BTreeMap<u64, u64>,
        post: &Snap,
        ios: &[IoObs],
        notifs: &[(u64, Notif)],
        fails: &mut Vec<Fail>,
    ) {
        // ---- history tracking that does not depend on the service's answers
        if let Ev::Disconnected { n, l } = ev {
            if pre.sessions.get(n).map(|s| s.link == l.tag()).unwrap_or(false) {
                *self.epoch.entry(*n).or_insert(0) += 1;
                self.stat("effective-disconnection");
            } else {
                self.stat("ignored-disconnection(no session / other link)");
            }
        }
        if let Ev::Connected { n, .. } = ev {
            if pre.sessions.get(n).map(|s| s.tag == 2).unwrap_or(false) {
                self.stat("connected-while-connected");
                let hit: Vec<u64> =
                    pre.fetching.iter().filter(|(_, f)| f.from == *n).filter_map(|(r, _)| precur.get(r).copied()).collect();
                if !hit.is_empty() {
                    self.stat("connected-while-connected-with-fetches-in-flight");
                }
            }
        }
        match ev {
            Ev::Wake { due, idle } => {
                if !due.is_empty() {
                    self.stat("wake-reconnects-persistent-peer");
                }
                if *idle {
                    self.stat("wake-runs-idle-task(dequeue)");
                }
            }
            Ev::Recv { n } | Ev::Refs { relayer: n, .. } => {
                if pre.sessions.get(n).map(|s| s.tag < 2).unwrap_or(false)
                    && post.sessions.get(n).map(|s| s.tag == 2).unwrap_or(false)
                {
                    self.stat("message-forces-session-to-connected");
                }
                if pre.sessions.get(n).map(|s| s.tag == 3).unwrap_or(false) {
                    self.stat("message-from-disconnected-session-ignored");
                }
            }
            _ => {}
        }
        if let Ev::Refs { .. } = ev {
            if ios.iter().any(|io| matches!(io, IoObs::Fetch { refs, .. } if !refs.is_empty())) {
                self.stat("refs-announcement-starts-fetch");
            }
        }
        if ios.iter().any(|io| matches!(io, IoObs::Disconnect(_))) {
            self.stat("io-disconnect-after-fetch-timeout");
        }
        let mut kc_now = false;
        if let Ev::Result { inst, fwd, .. } = ev {
            let i = &self.insts[*inst as usize];
            let (irid, inid, iep) = (i.rid, i.nid, i.epoch);
            let stale = iep < *self.epoch.get(&inid).unwrap_or(&0);
            let entry_from = pre.fetching.get(&irid).map(|f| f.from);
            if *fwd {
                if stale {
                    self.stat("late-result-delivered");
                    match entry_from {
                        Some(f) if f == inid => {
                            kc_now = true;
                            self.stat("known-class-hit(late result, newer fetch from same peer)");
                        }
                        Some(_) => self.stat("late-result-while-fetching-from-another-peer"),
                        None => self.stat("late-result-no-fetch-in-flight"),
                    }
                } else {
                    self.stat("result-delivered-in-time");
                }
            } else {
                self.stat("result-dropped-by-wire(peer not connected)");
            }
            self.insts[*inst as usize].resolved = true;
        }
        self.kc_seen |= kc_now;
        let attr_class = |kc_seen: bool, other: &str| if kc_seen { KC.to_string() } else { other.to_string() };

        // ---- 1. instances: every Io::Fetch is a new instance
        let mut started: BTreeMap<u64, Vec<u64>> = BTreeMap::new();
        for io in ios {
            if let IoObs::Fetch { rid, nid, inst, .. } = io {
                assert_eq!(*inst as usize, self.insts.len());
                self.insts.push(Inst { rid: *rid, nid: *nid, epoch: *self.epoch.get(nid).unwrap_or(&0), resolved: false });
                started.entry(*rid).or_default().push(*inst);
                self.stat("io-fetch");
                if matches!(ev, Ev::Result { .. } | Ev::Disconnected { .. } | Ev::Wake { .. }) {
                    self.stat("io-fetch-from-dequeue");
                }
            }
        }
        for (rid, v) in &started {
            if v.len() > 1 {
                fails.push((
                    "two-fetches-of-one-repository".into(),
                    format!("{} Io::Fetch for repository {} emitted in one step", v.len(), rid),
                ));
            }
            if let Some(p) = pre.fetching.get(rid) {
                let ok = match ev {
                    Ev::Result { inst, fwd: true, .. } => self.insts[*inst as usize].rid == *rid,
                    Ev::Disconnected { n, .. } => p.from == *n,
                    _ => false,
                };
                if !ok {
                    fails.push((
                        "two-fetches-of-one-repository".into(),
                        format!("Io::Fetch for repository {} emitted while a fetch of it from {} is in flight", rid, p.from),
                    ));
                }
            }
            if !post.fetching.contains_key(rid) {
                fails.push(("io-fetch-without-fetching-entry".into(), format!("repository {}", rid)));
            }
        }
        let mut newcur = BTreeMap::new();
        for (rid, f) in &post.fetching {
            if let Some(v) = started.get(rid) {
                let k = *v.last().unwrap();
                if self.insts[k as usize].nid != f.from {
                    fails.push((
                        "fetching-entry-disagrees-with-io-fetch".into(),
                        format!("repository {}: entry from {}, Io::Fetch to {}", rid, f.from, self.insts[k as usize].nid),
                    ));
                }
                newcur.insert(*rid, k);
            } else if let Some(k) = precur.get(rid) {
                if pre.fetching.get(rid).map(|p| p.from) != Some(f.from) {
                    fails.push(("fetching-entry-changed-peer-without-io-fetch".into(), format!("repository {}", rid)));
                }
                newcur.insert(*rid, *k);
            } else {
                fails.push(("fetching-entry-without-io-fetch".into(), format!("repository {}", rid)));
            }
        }

        // ---- 2. structure: Service::fetching vs the sessions
        for (rid, f) in &post.fetching {
            match post.sessions.get(&f.from) {
                Some(s) if s.tag == 2 => {
                    if !s.fetching.contains(rid) {
                        fails.push((
                            "fetching-entry-not-in-session-set".into(),
                            format!("repository {} is being fetched from {} but is not in that session's fetching set", rid, f.from),
                        ));
                    }
                }
                _ => fails.push((
                    "fetching-entry-peer-not-connected".into(),
                    format!("repository {} is being fetched from {} which has no connected session", rid, f.from),
                )),
            }
        }
        for (n, s) in &post.sessions {
            for rid in &s.fetching {
                if post.fetching.get(rid).map(|f| f.from) != Some(*n) {
                    fails.push((
                        "session-fetching-without-entry".into(),
                        format!("session {} holds repository {} in its fetching set but Service::fetching has {:?}", n, rid, post.fetching.get(rid).map(|f| f.from)),
                    ));
                }
            }
            if s.fetching.len() > self.conc {
                fails.push(("session-over-fetch-concurrency".into(), format!("session {}: {} > {}", n, s.fetching.len(), self.conc)));
            }
            if s.queue.len() > MAX_FETCH_QUEUE_SIZE {
                fails.push(("queue-over-capacity".into(), format!("session {}: {} queued", n, s.queue.len())));
            }
            if s.queue.len() == MAX_FETCH_QUEUE_SIZE {
                self.stat("queue-at-capacity");
            }
            if !s.queue_from_ok {
                fails.push(("queued-fetch-in-wrong-session".into(), format!("session {}", n)));
            }
            let from_n: Vec<&u64> = post.fetching.iter().filter(|(_, f)| f.from == *n).map(|(r, _)| r).collect();
            if from_n.len() > self.conc {
                fails.push((
                    "peer-over-fetch-concurrency".into(),
                    format!("{} fetches in flight from peer {} (limit {})", from_n.len(), n, self.conc),
                ));
            }
        }

        // ---- 3. attribution
        let mut expect_result_notifs: BTreeSet<u64> = BTreeSet::new();
        if let Ev::Result { inst, fwd: true, .. } = ev {
            let irid = self.insts[*inst as usize].rid;
            let j = precur.get(&irid).copied();
            let consumed = pre.fetching.contains_key(&irid) && (!post.fetching.contains_key(&irid) || started.contains_key(&irid));
            if consumed {
                self.stat("result-applied");
                if j != Some(*inst) {
                    fails.push((
                        attr_class(self.kc_seen, "fetch-result-applied-to-another-fetch"),
                        format!(
                            "the result of fetch #{} (repository {} from {}) completed fetch #{:?} (from {:?})",
                            inst,
                            irid,
                            self.insts[*inst as usize].nid,
                            j,
                            pre.fetching.get(&irid).map(|f| f.from)
                        ),
                    ));
                }
                expect_result_notifs = pre.fetching[&irid].subs.iter().copied().collect();
            } else {
                self.stat("result-not-applied");
                if j == Some(*inst) {
                    fails.push((
                        "fetch-result-not-applied-to-its-fetch".into(),
                        format!("the result of fetch #{} was forwarded but its fetching entry was not completed", inst),
                    ));
                }
            }
        }
        let mut expect_disc: BTreeSet<u64> = BTreeSet::new();
        if let Ev::Disconnected { n, l } = ev {
            if pre.sessions.get(n).map(|s| s.link == l.tag()).unwrap_or(false) {
                for f in pre.fetching.values().filter(|f| f.from == *n) {
                    expect_disc.extend(f.subs.iter().copied());
                }
            }
        }
        for (sub, n) in notifs {
            match n {
                Notif::Result(tag, _) => {
                    self.stat("subscriber-notified-result");
                    let att = self.attached.get(sub).copied();
                    if att != Some(*tag) {
                        fails.push((
                            attr_class(self.kc_seen, "subscriber-notified-with-another-fetch-result"),
                            format!("subscriber {} of fetch #{:?} received the result of fetch #{}", sub, att, tag),
                        ));
                    }
                    if !expect_result_notifs.remove(sub) {
                        fails.push(("unexpected-subscriber-result".into(), format!("subscriber {} on {:?}", sub, ev)));
                    }
                }
                Notif::Untagged => fails.push(("untagged-subscriber-result".into(), format!("subscriber {}", sub))),
                Notif::Disconnected => {
                    self.stat("subscriber-notified-disconnected");
                    if !expect_disc.remove(sub) {
                        fails.push(("unexpected-disconnect-notification".into(), format!("subscriber {} on {:?}", sub, ev)));
                    }
                }
                Notif::Failed => {
                    self.stat("subscriber-notified-failed(not connected)");
                }
            }
        }
        for sub in expect_result_notifs {
            fails.push(("subscriber-not-notified".into(), format!("subscriber {} of the completed fetch got no result", sub)));
        }
        for sub in expect_disc {
            fails.push(("subscriber-not-notified".into(), format!("subscriber {} of a fetch dropped by disconnection got no result", sub)));
        }

        // ---- bookkeeping
        self.cur = newcur;
        for (rid, f) in &post.fetching {
            for sub in &f.subs {
                if let Some(k) = self.cur.get(rid) {
                    self.attached.entry(*sub).or_insert(*k);
                }
            }
        }
        let q_before: usize = pre.sessions.values().map(|s| s.queue.len()).sum();
        let q_after: usize = post.sessions.values().map(|s| s.queue.len()).sum();
        if q_after > q_before {
            self.stat("fetch-queued");
        }
    }
}

// ---------------------------------------------------------------- generators

fn res_of(r: &mut Rng) -> Res {
    match r.below(5) {
        0 | 1 => Res::Ok,
        2 | 3 => Res::Err,
        _ => Res::Timeout,
    }
}

/// Mostly-valid random walk; looks at the world to prefer productive events.
fn gen_sym(r: &mut Rng, w: &World, np: usize, nr: usize, nt: usize) -> Sym {
    let p = r.below(np as u64) as usize;
    let with_session: Vec<usize> = (0..np).filter(|k| w.snap.sessions.contains_key(&(*k as u64 + 1))).collect();
    let connecting: Vec<usize> =
        (0..np).filter(|k| w.snap.sessions.get(&(*k as u64 + 1)).map(|s| s.tag < 2).unwrap_or(false)).collect();
    let connected: Vec<usize> =
        (0..np).filter(|k| w.snap.sessions.get(&(*k as u64 + 1)).map(|s| s.tag == 2).unwrap_or(false)).collect();
    let pick_conn = |r: &mut Rng| if !connected.is_empty() && r.chance(4, 5) { *r.pick(&connected) } else { r.below(np as u64) as usize };
    match r.below(100) {
        0..=11 => Sym::Connect(p, r.chance(1, 4)),
        12..=25 => {
            let q = if !connecting.is_empty() && r.chance(4, 5) { *r.pick(&connecting) } else { p };
            Sym::Connected(q, if r.chance(3, 4) { Lk::Out } else { Lk::In })
        }
        26..=35 => {
            let q = if !with_session.is_empty() && r.chance(5, 6) { *r.pick(&with_session) } else { p };
            if r.chance(5, 6) {
                Sym::DisconnectedCur(q)
            } else {
                Sym::Disconnected(q, if r.bool() { Lk::In } else { Lk::Out })
            }
        }
        36..=38 => Sym::Recv(p),
        39..=52 => {
            let a = pick_conn(r);
            let b = if r.chance(3, 4) { a } else { r.below(np as u64) as usize };
            let n = if r.chance(1, 12) { 0 } else { 1 + r.below(2) };
            let mut toks: Vec<usize> = (0..nt).collect();
            r.shuffle(&mut toks);
            toks.truncate((n as usize).min(nt));
            Sym::Refs(a, b, r.below(nr as u64) as usize, toks)
        }
        53..=70 => Sym::Fetch(r.below(nr as u64) as usize, pick_conn(r)),
        71..=88 => match r.below(3) {
            0 => Sym::ResultOldest(res_of(r)),
            1 => Sym::ResultNewest(res_of(r)),
            _ => Sym::ResultNth(r.below(8) as usize, res_of(r)),
        },
        89..=94 => Sym::Wake(*r.pick(&[1, 5, 30, 31, 70])),
        95..=97 => Sym::Seed(r.below(nr as u64) as usize, r.chance(4, 5)),
        _ => Sym::Store(r.below(nr as u64) as usize, r.below(nt as u64) as usize),
    }
}

/// Scripted "late result" scenarios with random noise in between.
fn late_result_script(r: &mut Rng, np: usize, nr: usize) -> Vec<Sym> {
    let a = r.below(np as u64) as usize;
    let b = if r.chance(1, 2) { a } else { (a + 1 + r.below(np as u64 - 1) as usize) % np };
    let rid = r.below(nr as u64) as usize;
    let pers = r.chance(1, 3);
    let mut s = vec![Sym::Connect(a, pers), Sym::Connected(a, Lk::Out)];
    if b != a {
        s.push(Sym::Connect(b, false));
        s.push(Sym::Connected(b, Lk::Out));
    }
    s.push(Sym::Fetch(rid, a));
    if r.chance(1, 3) {
        s.push(Sym::Fetch(rid, b)); // queued behind / redundant
    }
    s.push(Sym::DisconnectedCur(a));
    if pers {
        s.push(Sym::Wake(70)); // reconnection of the persistent peer becomes due
    } else {
        s.push(Sym::Connect(a, false));
    }
    s.push(Sym::Connected(a, Lk::Out));
    s.push(Sym::Fetch(rid, b));
    s.push(Sym::ResultOldest(res_of(r)));
    s.push(Sym::ResultOldest(res_of(r)));
    s.push(Sym::Fetch(rid, if r.bool() { a } else { b }));
    s.push(Sym::ResultNewest(res_of(r)));
    s.push(Sym::ResultOldest(res_of(r)));
    s
}

struct CaseOut {
    events: Vec<String>,
    obs: Vec<String>,
    fails: Vec<Fail>,
    stats: BTreeMap<&'static str, u64>,
    trace: Vec<String>,
    panicked: bool,
}

/// Run one case. `next` produces the next symbol given the world (None = stop).
fn run_case(seed: u64, conc: usize, np: usize, nr: usize, nt: usize, mut next: impl FnMut(&World, usize) -> Option<Sym>) -> CaseOut {
    let mut w = World::new(seed, conc, np, nr, nt);
    let mut out = CaseOut { events: vec![], obs: vec![], fails: vec![], stats: BTreeMap::new(), trace: vec![], panicked: false };
    let mut k = 0;
    while let Some(sym) = next(&w, k) {
        k += 1;
        let mut fails = vec![];
        let Some(step) = w.step(&sym, &mut fails) else { continue };
        out.trace.push(format!("{:?}", step.ev));
        out.events.push(step.ev.coq());
        for f in fails {
            out.fails.push((f.0, format!("step {} ({:?}): {}", out.events.len() - 1, step.ev, f.1)));
        }
        match step.obs {
            Some((ios, notifs, snap)) => out.obs.push(snap.coq(&ios, &notifs)),
            None => {
                out.obs.push("SPanic".into());
                out.panicked = true;
                let _ = step.panic;
                break;
            }
        }
        if k > 400 {
            break;
        }
    }
    out.stats = w.stats.clone();
    // the service owns a temp dir + sqlite handle; dropping it is part of the case
    out
}

fn record(run: &mut Run, id: &str, conc: usize, c: CaseOut, kind: &str) {
    run.eval();
    run.tally(kind);
    for (k, v) in &c.stats {
        *run.distribution.entry(k.to_string()).or_insert(0) += *v;
    }
    for line in &c.trace {
        let kind = line.split(|ch| ch == ' ' || ch == '{').next().unwrap_or("?");
        run.tally(&format!("event:{}", kind));
    }
    let started = c.stats.get("io-fetch").copied().unwrap_or(0) > 0;
    let deep = ["fetch-queued", "io-fetch-from-dequeue", "late-result-delivered", "result-applied"]
        .iter()
        .filter(|k| c.stats.get(**k).copied().unwrap_or(0) > 0)
        .count();
    if started && deep >= 2 {
        run.nontrivial(c.trace.join(";"));
    }
    let mut seen = BTreeSet::new();
    for (class, what) in &c.fails {
        if seen.insert(class.clone()) {
            run.fail(id, class, what.clone(), json!({"fetch_concurrency": conc, "events": c.trace}));
        }
    }
    run.case(
        id,
        format!("(mkCfg {} {}, [{}])", conc, MAX_FETCH_QUEUE_SIZE, c.events.join("; ")),
        format!("[{}]", c.obs.join("; ")),
    );
    if c.panicked {
        run.tally("case-ended-by-panic");
    }
}

// exhaustive sweep alphabet (2 peers, 1 repository, fetch_concurrency 1)
fn sweep_alphabet() -> Vec<Vec<Sym>> {
    vec![
        vec![Sym::Connect(0, false), Sym::Connected(0, Lk::Out)],
        vec![Sym::Connect(1, false), Sym::Connected(1, Lk::Out)],
        vec![Sym::DisconnectedCur(0)],
        vec![Sym::DisconnectedCur(1)],
        vec![Sym::Fetch(0, 0)],
        vec![Sym::Fetch(0, 1)],
        vec![Sym::ResultOldest(Res::Err)],
        vec![Sym::ResultNewest(Res::Ok)],
        vec![Sym::Refs(0, 0, 0, vec![0])],
    ]
}

fn main() {
    quiet_panics();
    let mut run = Run::new(
        "C16",
        "model.FetchSched",
        "stream 0: state-aware random walk over connect/connected/disconnected/recv/refs-announcement/fetch-command/worker-result/wake/seed/store \
         for 3 peers, 2 repositories, 3 refs, fetch_concurrency 1 or 2; stream 1: scripted late-result scenarios (fetch, disconnect, reconnect, \
         second fetch of the same repository from the same or another peer, late results) followed by a random tail; stream 2: fetch-queue overflow \
         (MAX_FETCH_QUEUE_SIZE+ commands against one busy peer); stream 9 (thorough): exhaustive enumeration of all sequences over a 9-symbol \
         alphabet (2 peers, 1 repository). Non-trivial = a fetch was started and at least two of {a fetch was queued, a queued fetch was started by \
         dequeue_fetches, a late result was delivered, a result completed a fetch} happened; distinct by event sequence.",
    );
    // a coqc process costs ~9 s before it reads the first case: use large shards
    let shard = if run.args.thorough { 1000 } else { 400 };
    run.shard_size(shard);
    let seed = run.args.seed;
    let n = run.args.count(600, 4000);
    for i in 0..n {
        // stream 0: random walk
        let id = format!("0:{}", i);
        if run.args.wants(&id) {
            let mut r = Rng::for_case(seed, 0, i);
            let conc = 1 + (i % 2) as usize;
            let len = 8 + r.below(30) as usize;
            let seed_rids = r.chance(4, 5);
            let c = run_case(seed ^ i, conc, 3, 2, 3, |w, k| {
                if k >= len + 2 {
                    None
                } else if k < 2 && seed_rids {
                    Some(Sym::Seed(k, true))
                } else {
                    Some(gen_sym(&mut r, w, 3, 2, 3))
                }
            });
            if i < 2 {
                run.sample(json!({"case_id": id, "events": c.trace}));
            }
            record(&mut run, &id, conc, c, "stream0-random-walk");
        }
        // stream 1: late-result scripts (a third of the count)
        let id = format!("1:{}", i);
        if i % 3 == 0 && run.args.wants(&id) {
            let mut r = Rng::for_case(seed, 1, i);
            let conc = 1 + ((i / 3) % 2) as usize;
            let script = late_result_script(&mut r, 3, 2);
            let tail = r.below(8) as usize;
            let noise = r.chance(1, 2);
            let mut pos = 0;
            let c = run_case(seed ^ i ^ 0x5555, conc, 3, 2, 3, |w, k| {
                if k == 0 {
                    return Some(Sym::Seed(0, true));
                }
                if pos < script.len() {
                    if noise && r.chance(1, 5) {
                        return Some(gen_sym(&mut r, w, 3, 2, 3));
                    }
                    pos += 1;
                    Some(script[pos - 1].clone())
                } else if pos < script.len() + tail {
                    pos += 1;
                    Some(gen_sym(&mut r, w, 3, 2, 3))
                } else {
                    None
                }
            });
            if i < 3 {
                run.sample(json!({"case_id": id, "events": c.trace}));
            }
            record(&mut run, &id, conc, c, "stream1-late-result-script");
        }
    }
    // stream 3: the Coq witness of KnownClass (proofs/FetchSchedProofs.v kc_witness), replayed
    // literally on the implementation
    {
        let id = "3:0".to_string();
        if run.args.wants(&id) {
            let script = vec![
                Sym::Connect(0, false),
                Sym::Connected(0, Lk::Out),
                Sym::Fetch(0, 0),
                Sym::Disconnected(0, Lk::Out),
                Sym::Connect(0, false),
                Sym::Connected(0, Lk::Out),
                Sym::Fetch(0, 0),
                Sym::ResultOldest(Res::Err),
            ];
            let c = run_case(seed, 1, 1, 1, 1, |_, k| script.get(k).cloned());
            if !c.fails.iter().any(|f| f.0 == KC) {
                run.note("the KnownClass witness no longer misattributes the late result on the implementation".into());
            }
            run.sample(json!({"case_id": id, "events": c.trace, "oracle": c.fails.iter().map(|f| f.1.clone()).collect::<Vec<_>>()}));
            record(&mut run, &id, 1, c, "stream3-known-class-witness");
        }
    }
    // stream 2: queue overflow (boundary)
    let nq = run.args.count(2, 8);
    for i in 0..nq {
        let id = format!("2:{}", i);
        if !run.args.wants(&id) {
            continue;
        }
        let mut r = Rng::for_case(seed, 2, i);
        let total = MAX_FETCH_QUEUE_SIZE + 3 + r.below(4) as usize;
        let with_refs = i % 2 == 1;
        let c = run_case(seed ^ i ^ 0xAAAA, 1, 2, 2, 3, |_, k| {
            let pre = [Sym::Seed(0, true), Sym::Seed(1, true), Sym::Connect(0, false), Sym::Connected(0, Lk::Out), Sym::Fetch(0, 0)];
            if k < pre.len() {
                Some(pre[k].clone())
            } else if k < pre.len() + total {
                if with_refs && k % 7 == 0 {
                    // duplicates of a channel-less queued fetch are refused
                    Some(Sym::Refs(0, 0, 1, vec![0]))
                } else {
                    Some(Sym::Fetch(1, 0))
                }
            } else if k < pre.len() + total + 6 {
                Some(if k % 2 == 0 { Sym::ResultOldest(Res::Ok) } else { Sym::Fetch(1, 0) })
            } else {
                None
            }
        });
        record(&mut run, &id, 1, c, "stream2-queue-overflow");
    }
    // stream 9: exhaustive sweep (model validation), thorough tier only
    if run.args.thorough || run.args.only.as_deref().map(|o| o.starts_with("9:")).unwrap_or(false) {
        let alpha = sweep_alphabet();
        let a = alpha.len() as u64;
        let depth = 5u32;
        let total = a.pow(depth);
        let mut pruned = 0u64;
        for idx in 0..total {
            let id = format!("9:{}", idx);
            if !run.args.wants(&id) {
                continue;
            }
            let mut digits = vec![];
            let mut x = idx;
            for _ in 0..depth {
                digits.push((x % a) as usize);
                x /= a;
            }
            let mut syms: Vec<Sym> = vec![Sym::Seed(0, true)];
            for d in &digits {
                syms.extend(alpha[*d].iter().cloned());
            }
            // prune sequences containing a symbol that cannot apply (a result with no fetch in
            // flight): the same behaviour is covered by the sequence without it
            let mut inapplicable = false;
            let mut pos = 0;
            let c = run_case(seed, 1, 2, 1, 1, |w, _| {
                if pos >= syms.len() || inapplicable {
                    return None;
                }
                let s = syms[pos].clone();
                pos += 1;
                if matches!(s, Sym::ResultOldest(_) | Sym::ResultNewest(_)) && w.unresolved().is_empty() {
                    inapplicable = true;
                    return None;
                }
                Some(s)
            });
            if inapplicable {
                pruned += 1;
                continue;
            }
            record(&mut run, &id, 1, c, "stream9-exhaustive-sweep");
        }
        run.exhaustive = true;
        run.note(format!(
            "exhaustive sweep: all {} sequences of length {} over a {}-symbol alphabet; {} pruned because they contain a worker result with no fetch in flight (covered by the shorter sequence)",
            total, depth, a, pruned
        ));
    }
    run.note(format!(
        "fetch_concurrency is set per case (1 or 2); MAX_FETCH_QUEUE_SIZE = {} is read from the compiled crate and passed to the model",
        MAX_FETCH_QUEUE_SIZE
    ));
    run.finish();
}
