//! C19: identity documents — correspondence with coq/model/Doc.v and the
//! direct oracle on the real `RawDoc::from_json(..).verified()` /
//! `Doc::from_blob` / `serde_json::from_slice::<Doc>` / `Doc::encode` /
//! `Repository::init`.
#[path = "../../c18/src/jval.rs"]
mod jval;
use hw_common::*;
use jval::*;
use radicle::crypto::test::signer::MockSigner;
use radicle::crypto::{PublicKey, Signer as _};
use radicle::identity::doc::{Doc, DocError, RawDoc, Visibility};
use radicle::identity::{Did, RepoId};
use radicle::node::device::Device;
use radicle::storage::git::{Repository, Storage};
use radicle::storage::ReadRepository;
use std::collections::BTreeMap;
use unicode_normalization::is_nfc;

// ------------------------------------------------------------------ DID universe

struct Dids {
    /// sorted by PublicKey's Ord; the index is the model id
    keys: Vec<PublicKey>,
    index: std::collections::HashMap<String, usize>,
}

impl Dids {
    fn new(n: usize) -> Self {
        let mut keys: Vec<PublicKey> = (0..n)
            .map(|i| {
                let mut seed = [0u8; 32];
                seed[..8].copy_from_slice(&(i as u64 + 1).to_le_bytes());
                *MockSigner::from_seed(seed).public_key()
            })
            .collect();
        keys.sort();
        keys.dedup();
        let index = keys.iter().enumerate().map(|(i, k)| (Did::from(*k).to_string(), i)).collect();
        Dids { keys, index }
    }
    fn id_of(&self, did: &Did) -> u64 {
        self.keys.binary_search(did.as_key()).map(|i| i as u64).unwrap_or_else(|_| {
            // not in the universe: give it an id beyond (never generated)
            10_000
        })
    }
    fn text(&self, i: usize) -> String {
        Did::from(self.keys[i]).to_string()
    }
}

/// Gallina term of a string: DID texts of the universe are printed as `(D i)`
/// (the table `didtab` is defined once per cases file).
fn str_term(cs: &[char], dids: &Dids) -> String {
    if cs.len() > 40 {
        if let Some(i) = dids.index.get(&s(cs)) {
            return format!("(D {})", i);
        }
    }
    cps(cs)
}

fn j_term(j: &J, dids: &Dids) -> String {
    match j {
        J::Str(cs) => format!("(Str {})", str_term(cs, dids)),
        J::Arr(l) => {
            let items: Vec<String> = l.iter().map(|x| j_term(x, dids)).collect();
            format!("(Arr [{}])", items.join("; "))
        }
        J::Obj(m) => {
            let items: Vec<String> = m.iter().map(|(k, v)| format!("({}, {})", cps(k), j_term(v, dids))).collect();
            format!("(Obj [{}])", items.join("; "))
        }
        other => other.coq(),
    }
}

// ------------------------------------------------------------------ JSON text with duplicates

fn write_json(j: &J, out: &mut String) {
    match j {
        J::Null => out.push_str("null"),
        J::Bool(b) => out.push_str(if *b { "true" } else { "false" }),
        J::Int(i) => out.push_str(&i.to_string()),
        J::Float(_) => out.push_str(&j.to_value().to_string()),
        J::Str(cs) => out.push_str(&serde_json::to_string(&s(cs)).unwrap()),
        J::Arr(l) => {
            out.push('[');
            for (i, x) in l.iter().enumerate() {
                if i > 0 { out.push(','); }
                write_json(x, out);
            }
            out.push(']');
        }
        J::Obj(m) => {
            out.push('{');
            for (i, (k, x)) in m.iter().enumerate() {
                if i > 0 { out.push_str(", "); }
                out.push_str(&serde_json::to_string(&s(k)).unwrap());
                out.push(':');
                write_json(x, out);
            }
            out.push('}');
        }
    }
}

fn st(x: &str) -> Vec<char> {
    x.chars().collect()
}
fn jstr(x: &str) -> J {
    J::Str(st(x))
}

// ------------------------------------------------------------------ observations

#[derive(Clone, Debug, PartialEq)]
enum Vis {
    Public,
    Private(Vec<u64>),
}

#[derive(Clone, Debug, PartialEq)]
struct MDoc {
    version: u64,
    payload: Vec<(Vec<char>, J)>,
    delegates: Vec<u64>,
    threshold: u64,
    vis: Vis,
}

impl Coq for MDoc {
    fn coq(&self) -> String {
        let payload: Vec<String> = self.payload.iter().map(|(k, v)| format!("({}, {})", cps(k), v.coq())).collect();
        let vis = match &self.vis {
            Vis::Public => "Public".to_string(),
            Vis::Private(a) => format!("(Private {})", a.coq()),
        };
        format!("(mkDoc {} [{}] {} {} {})", self.version, payload.join("; "), self.delegates.coq(), self.threshold, vis)
    }
}

fn observe(doc: &Doc, dids: &Dids) -> MDoc {
    MDoc {
        version: u32::from(*doc.version()) as u64,
        payload: doc.payload().iter().map(|(k, v)| (st(&k.to_string()), J::from_value(v))).collect(),
        delegates: doc.delegates().iter().map(|d| dids.id_of(d)).collect(),
        threshold: doc.threshold() as u64,
        vis: match doc.visibility() {
            Visibility::Public => Vis::Public,
            Visibility::Private { allow } => Vis::Private(allow.iter().map(|d| dids.id_of(d)).collect()),
        },
    }
}

fn res_term(r: &Result<Doc, DocError>, dids: &Dids) -> String {
    match r {
        Ok(d) => format!("DRes (DOk {})", observe(d, dids).coq()),
        Err(DocError::Json(_)) => "DRes DErrJson".into(),
        Err(DocError::Delegates(_)) => "DRes DErrDelegates".into(),
        Err(DocError::Threshold(_)) => "DRes DErrThreshold".into(),
        Err(e) => format!("DRes DErrOther (* {} *)", e),
    }
}

/// The property's invariants, checked on a document the implementation accepted.
fn check_valid(run: &mut Run, id: &str, doc: &Doc, how: &str, input: &Value) {
    let n = doc.delegates().len();
    if n < 1 || n > 255 {
        run.fail(id, "accepted-doc-delegates-out-of-range", format!("{}: accepted a document with {} delegates", how, n), input.clone());
    }
    let mut seen = std::collections::BTreeSet::new();
    if !doc.delegates().iter().all(|d| seen.insert(*d)) {
        run.fail(id, "accepted-doc-duplicate-delegates", format!("{}: accepted document lists a delegate twice", how), input.clone());
    }
    if doc.threshold() < 1 || doc.threshold() > n {
        run.fail(id, "accepted-doc-threshold-out-of-range", format!("{}: accepted threshold {} with {} delegates", how, doc.threshold(), n), input.clone());
    }
    let v = u32::from(*doc.version());
    if v != 1 {
        run.fail(id, "accepted-doc-unsupported-version", format!("{}: accepted version {}", how, v), input.clone());
    }
}

fn git_blob_hash(bytes: &[u8]) -> String {
    let mut h = sha1_smol::Sha1::new();
    h.update(format!("blob {}\0", bytes.len()).as_bytes());
    h.update(bytes);
    h.digest().to_string()
}

fn value_all_nfc(v: &Value) -> bool {
    match v {
        Value::String(s) => is_nfc(s),
        Value::Array(l) => l.iter().all(value_all_nfc),
        Value::Object(m) => m.iter().all(|(k, x)| is_nfc(k) && value_all_nfc(x)),
        _ => true,
    }
}
fn value_has_float(v: &Value) -> bool {
    match v {
        Value::Number(n) => !(n.is_u64() || n.is_i64()),
        Value::Array(l) => l.iter().any(value_has_float),
        Value::Object(m) => m.values().any(value_has_float),
        _ => false,
    }
}

// ------------------------------------------------------------------ generators

struct Gen<'a> {
    dids: &'a Dids,
    /// suppress junk (bad DIDs, wrong types) inside components
    clean: bool,
}

impl<'a> Gen<'a> {
    fn did_string(&self, r: &mut Rng, pool: usize) -> Vec<char> {
        match r.below(if self.clean { 1_000_000 } else { 40 }) {
            0 => st("did:key:z6Mk"),
            1 => st("did:web:example.com"),
            2 => st(""),
            3 => {
                let mut t = self.dids.text(r.below(pool as u64) as usize);
                t.pop();
                st(&t)
            }
            4 => st(&self.dids.text(r.below(pool as u64) as usize).replace("did:key:", "")),
            _ => st(&self.dids.text(r.below(pool as u64) as usize)),
        }
    }

    fn delegates(&self, r: &mut Rng) -> J {
        // count of entries and size of the pool they are drawn from
        let (n, pool) = match r.below(60) {
            0 => (0, 1),
            1 => (255, 255),
            2 => (256, 256),
            3 => (300, 300),
            4 => (300, 255),  // many entries, at most 255 distinct
            5 => (270, 100),
            6..=25 => (r.range(1, 3) as usize, 3),
            26..=45 => (r.range(1, 6) as usize, 8),
            _ => (r.range(1, 12) as usize, 5), // duplicates likely
        };
        if n >= 255 && pool >= 255 && r.chance(2, 3) {
            // distinct prefix so that the limit itself is reached
            let mut l: Vec<J> = (0..pool.min(n)).map(|i| J::Str(st(&self.dids.text(i)))).collect();
            while l.len() < n {
                l.push(J::Str(st(&self.dids.text(r.below(pool as u64) as usize))));
            }
            return J::Arr(l);
        }
        match r.below(if self.clean { 1_000_000 } else { 30 }) {
            0 => J::Null,
            1 => jstr("did:key:z6Mk"),
            2 => J::Arr(vec![J::Int(1)]),
            _ => J::Arr((0..n).map(|_| J::Str(self.did_string(r, pool))).collect()),
        }
    }

    fn threshold(&self, r: &mut Rng, n: usize) -> J {
        match r.below(24) {
            0 => J::Int(0),
            1 => J::Int(255),
            2 => J::Int(256),
            3 => J::Int(300),
            4 => J::Int(n as i128 + 1),
            5 => J::Int(-1),
            6 => J::Float(1.0),
            7 => jstr("1"),
            8 => J::Int(u64::MAX as i128),
            9 => J::Null,
            10..=14 => J::Int(n as i128),
            15..=17 => J::Int(1),
            _ => J::Int(r.range(0, n as u64 + 1) as i128),
        }
    }

    fn version(&self, r: &mut Rng) -> Option<J> {
        match r.below(20) {
            0 => Some(J::Int(0)),
            1 => Some(J::Int(2)),
            2 => Some(J::Int(4294967296)),
            3 => Some(J::Int(-1)),
            4 => Some(jstr("1")),
            5 => Some(J::Float(1.0)),
            6 => Some(J::Int(4294967295)),
            7 => Some(J::Null),
            8..=11 => Some(J::Int(1)),
            _ => None,
        }
    }

    fn visibility(&self, r: &mut Rng) -> Option<J> {
        let ty = |t: &str| (st("type"), jstr(t));
        let allow = |r: &mut Rng, g: &Gen| {
            let n = r.below(4) as usize;
            (st("allow"), J::Arr((0..n).map(|_| J::Str(g.did_string(r, 6))).collect()))
        };
        match r.below(30) {
            0..=13 => None,
            14..=16 => Some(J::Obj(vec![ty("public")])),
            17..=18 => Some(J::Obj(vec![ty("private")])),
            19..=22 => Some(J::Obj(vec![ty("private"), allow(r, self)])),
            23 => Some(J::Obj(vec![allow(r, self), ty("private"), (st("x"), J::Int(1))])),
            24 => Some(J::Obj(vec![ty("public"), allow(r, self), allow(r, self)])),
            25 => Some(J::Obj(vec![ty("private"), allow(r, self), allow(r, self)])),
            26 => Some(J::Obj(vec![ty("bogus")])),
            27 => Some(J::Obj(vec![ty("public"), ty("public")])),
            28 => Some(match r.below(4) {
                0 => J::Null,
                1 => jstr("public"),
                2 => J::Obj(vec![]),
                _ => J::Obj(vec![(st("type"), J::Int(1))]),
            }),
            _ => Some(J::Obj(vec![ty("private"), (st("allow"), jstr("did:key:z6Mk"))])),
        }
    }

    fn payload(&self, r: &mut Rng) -> J {
        match r.below(if self.clean { 1_000_000 } else { 30 }) {
            0 => return J::Null,
            1 => return J::Arr(vec![]),
            2 => return jstr("payload"),
            _ => {}
        }
        let n = r.below(4) as usize;
        let mut m: Vec<(Vec<char>, J)> = vec![];
        for _ in 0..n {
            let key = match r.below(10) {
                0..=4 => st("xyz.radicle.project"),
                5 => st("xyz.radicle.crate"),
                6 => st("com.example.a"),
                _ => gen_string(r),
            };
            let cfg = GenCfg { floats: r.chance(1, 6), max_depth: 2 };
            let val = if r.chance(1, 3) {
                J::Obj(vec![
                    (st("name"), J::Str(gen_string(r))),
                    (st("description"), J::Str(gen_string(r))),
                    (st("defaultBranch"), jstr("master")),
                ])
            } else {
                gen_value(r, &cfg, 0)
            };
            m.push((key, val)); // duplicate ids are possible (BTreeMap: last wins)
        }
        J::Obj(m)
    }

    /// A document as JSON text members (duplicates / omissions / junk included).
    fn document(&self, r: &mut Rng, valid_bias: bool) -> J {
        let clean = Gen { dids: self.dids, clean: valid_bias && r.chance(5, 6) };
        let this = self;
        let self_ = if valid_bias { &clean } else { this };
        return self_.document_inner(r, valid_bias);
    }
    fn document_inner(&self, r: &mut Rng, valid_bias: bool) -> J {
        let delegates = self.delegates(r);
        let distinct = match &delegates {
            J::Arr(l) => {
                let mut v: Vec<&J> = vec![];
                for x in l { if !v.contains(&x) { v.push(x); } }
                v.len()
            }
            _ => 0,
        };
        let threshold = if valid_bias && distinct > 0 && r.chance(3, 4) {
            J::Int(r.range(1, distinct.min(255) as u64) as i128)
        } else {
            self.threshold(r, distinct)
        };
        let mut m: Vec<(Vec<char>, J)> = vec![];
        if let Some(v) = if valid_bias && r.chance(3, 4) { None } else { self.version(r) } { m.push((st("version"), v)); }
        m.push((st("payload"), self.payload(r)));
        m.push((st("delegates"), delegates));
        m.push((st("threshold"), threshold));
        if let Some(v) = self.visibility(r) {
            let junk = match &v { J::Obj(vm) => !(vm.len() <= 2 && vm.iter().any(|(k, t)| s(k) == "type" && (*t == jstr("public") || *t == jstr("private")))), _ => true };
            if !(self.clean && junk) { m.push((st("visibility"), v)); }
        }
        // perturbations
        if !valid_bias || r.chance(1, 5) {
            match r.below(8) {
                0 => { let i = r.below(m.len() as u64) as usize; m.remove(i); }
                1 => { let i = r.below(m.len() as u64) as usize; let e = m[i].clone(); m.push(e); }
                2 => { m.push((st("unknown"), gen_value(r, &GenCfg { floats: true, max_depth: 2 }, 0))); }
                3 => { m.insert(0, (st("Payload"), J::Int(1))); }
                4 => { let i = r.below(m.len() as u64) as usize; m[i].1 = gen_value(r, &GenCfg { floats: true, max_depth: 1 }, 0); }
                5 => { m.push((st("unknown"), J::Int(1))); m.push((st("unknown"), J::Int(2))); }
                _ => {}
            }
        }
        r.shuffle(&mut m);
        J::Obj(m)
    }
}

fn has_array_visibility_or_top(j: &J) -> bool {
    match j {
        J::Arr(_) => true,
        J::Obj(m) => m.iter().any(|(k, v)| s(k) == "visibility" && matches!(v, J::Arr(_))),
        _ => false,
    }
}

/// Table of every string that occurs where a DID is expected.
fn did_table(j: &J, dids: &Dids) -> String {
    let mut strs: Vec<Vec<char>> = vec![];
    fn collect(j: &J, out: &mut Vec<Vec<char>>) {
        if let J::Arr(l) = j {
            for x in l {
                if let J::Str(cs) = x {
                    if !out.contains(cs) { out.push(cs.clone()); }
                }
            }
        }
    }
    if let J::Obj(m) = j {
        for (k, v) in m {
            if s(k) == "delegates" { collect(v, &mut strs); }
            if s(k) == "visibility" {
                if let J::Obj(vm) = v {
                    for (k2, v2) in vm {
                        if s(k2) == "allow" { collect(v2, &mut strs); }
                    }
                }
            }
        }
    }
    let items: Vec<String> = strs
        .iter()
        .map(|cs| {
            let r: Option<u64> = Did::decode(&s(cs)).ok().map(|d| dids.id_of(&d));
            format!("({}, {})", str_term(cs, dids), r.coq())
        })
        .collect();
    format!("[{}]", items.join("; "))
}

struct Ctx {
    dids: Dids,
    gitrepo: radicle::git::raw::Repository,
    _tmp: tempfile::TempDir,
}

fn from_json_case(run: &mut Run, id: &str, ctx: &Ctx, j: &J, stream: &str) -> Option<Doc> {
    run.eval();
    let mut text = String::new();
    write_json(j, &mut text);
    let bytes = text.as_bytes();
    let input = json!({"json": text});

    let a: Result<Doc, DocError> = match catch(std::panic::AssertUnwindSafe(|| RawDoc::from_json(bytes).and_then(|r| r.verified()))) {
        Ok(r) => r,
        Err(p) => {
            run.fail(id, "from-json-panics", format!("RawDoc::from_json/verified panicked: {}", p), input);
            return None;
        }
    };
    let b: Result<Doc, serde_json::Error> = serde_json::from_slice::<Doc>(bytes);
    let c: Result<Doc, DocError> = ctx
        .gitrepo
        .blob(bytes)
        .and_then(|oid| ctx.gitrepo.find_blob(oid))
        .map_err(DocError::from)
        .and_then(|blob| Doc::from_blob(&blob));

    run.tally(&format!("{}:from-json", stream));
    run.tally(match &a {
        Ok(_) => "accepted",
        Err(DocError::Json(_)) => "rejected-json",
        Err(DocError::Delegates(_)) => "rejected-delegates",
        Err(DocError::Threshold(_)) => "rejected-threshold",
        Err(_) => "rejected-other",
    });
    if let Err(e) = &a {
        let msg = e.to_string();
        for (pat, key) in [("duplicate field", "err-duplicate-field"), ("missing field", "err-missing-field"),
            ("version", "err-version"), ("cannot exceed 255", "err-255"), ("cannot be empty", "err-empty-delegates"),
            ("cannot be zero", "err-threshold-zero"), ("exceed number of delegates", "err-threshold-gt-delegates"),
            ("invalid type", "err-invalid-type"), ("invalid did", "err-bad-did"), ("invalid public key", "err-bad-did"),
            ("unknown variant", "err-unknown-visibility")] {
            if msg.contains(pat) { run.tally(key); }
        }
    }
    // every accepted document satisfies the invariants, whatever the entry point
    if let Ok(d) = &a { check_valid(run, id, d, "RawDoc::from_json+verified", &input); }
    if let Ok(d) = &b { check_valid(run, id, d, "Deserialize for Doc", &input); }
    if let Ok(d) = &c { check_valid(run, id, d, "Doc::from_blob", &input); }
    // the three entry points agree
    match (&a, &b) {
        (Ok(x), Ok(y)) if x == y => {}
        (Err(_), Err(_)) => {}
        _ => run.fail(id, "deserialize-paths-disagree", format!("RawDoc::from_json+verified gives {:?} but Deserialize for Doc gives {:?}", a.as_ref().map(|_| "Ok").map_err(|e| e.to_string()), b.as_ref().map(|_| "Ok").map_err(|e| e.to_string())), input.clone()),
    }
    match (&a, &c) {
        (Ok(x), Ok(y)) if x == y => {}
        (Err(_), Err(_)) => {}
        _ => run.fail(id, "deserialize-paths-disagree", "Doc::from_blob disagrees with RawDoc::from_json+verified".into(), input.clone()),
    }

    if has_array_visibility_or_top(j) {
        run.tally("seq-form-oracle-only");
    } else {
        run.case(id, format!("DFromJson {} {}", did_table(j, &ctx.dids), j_term(j, &ctx.dids)), res_term(&a, &ctx.dids));
    }
    if let Ok(d) = &a {
        if d.delegates().len() >= 255 { run.tally("accepted-255-delegates"); }
        let raw_count = match j { J::Obj(m) => m.iter().find(|(k, _)| s(k) == "delegates").map(|(_, v)| if let J::Arr(l) = v { l.len() } else { 0 }).unwrap_or(0), _ => 0 };
        if raw_count > d.delegates().len() { run.tally("accepted-after-dedup"); }
    }
    a.ok()
}

fn encode_case(run: &mut Run, id: &str, ctx: &Ctx, doc: &Doc) {
    let eid = format!("{}e", id);
    run.eval();
    let m = observe(doc, &ctx.dids);
    let input = json!({"doc": format!("{:?}", doc)});
    let enc = match catch(std::panic::AssertUnwindSafe(|| doc.encode())) {
        Ok(r) => r,
        Err(p) => {
            run.fail(&eid, "encode-panics", format!("Doc::encode panicked: {}", p), input);
            return;
        }
    };
    // tables for the model
    let payload_j = J::Obj(m.payload.clone());
    let nfct = nfc_table(&[&payload_j]);
    let obs: Option<Vec<u8>> = enc.as_ref().ok().map(|(_, b)| b.clone());
    run.case(&eid, format!("DEncode {} didtab {}", table_term(&nfct), m.coq()), format!("DEnc {}", obs.coq()));

    // hypotheses of the round-trip theorem, tested: DID text is clean ASCII, NFC is the identity on ASCII
    for d in doc.delegates().iter() {
        let t = d.to_string();
        if !t.chars().all(|c| (c as u32) >= 35 && (c as u32) < 128 && c != '\\') {
            run.fail(&eid, "did-text-not-clean-ascii", format!("DID text {:?} contains a character outside the assumed alphabet", t), input.clone());
        }
        if Did::decode(&t).ok() != Some(*d) {
            run.fail(&eid, "did-text-does-not-parse-back", format!("Did::decode(Did::encode(d)) != d for {:?}", t), input.clone());
        }
    }
    {
        let mut strs = vec![];
        payload_j.strings(&mut strs);
        for st_ in strs {
            if st_.iter().all(|c| (*c as u32) < 128) && nfc_chars(st_) != st_.to_vec() {
                run.fail(&eid, "nfc-hypothesis-ascii-identity", format!("NFC changes the ASCII string {:?}", st_), input.clone());
            }
        }
    }
    let has_float = doc.payload().values().any(|p| value_has_float(p));
    let all_nfc = doc.payload().iter().all(|(k, p)| is_nfc(&k.to_string()) && value_all_nfc(p));
    run.tally("encode");
    if has_float { run.tally("encode-payload-has-float"); }
    if !all_nfc { run.tally("encode-payload-not-nfc"); }
    if matches!(doc.visibility(), Visibility::Private { .. }) { run.tally("encode-private"); }
    match (&enc, has_float) {
        (Err(e), false) => { run.fail(&eid, "doc-encode-fails", format!("Doc::encode failed on a float-free document: {}", e), input.clone()); return; }
        (Ok(_), true) => { run.fail(&eid, "float-accepted", "Doc::encode accepted a payload containing a float".into(), input.clone()); }
        _ => {}
    }
    let Ok((oid, bytes)) = enc else { return };
    // the id is the git blob hash of the canonical bytes
    let want = git_blob_hash(&bytes);
    if oid.to_string() != want {
        run.fail(&eid, "encode-oid-not-blob-hash", format!("Doc::encode returned oid {} but sha1(blob header + bytes) = {}", oid, want), input.clone());
    }
    // decode what was encoded
    match RawDoc::from_json(&bytes).and_then(|r| r.verified()) {
        Ok(back) => {
            check_valid(run, &eid, &back, "decode of Doc::encode", &input);
            if back != *doc {
                if !all_nfc {
                    run.tally("roundtrip-differs-non-nfc-payload");
                    run.fail(&eid, "doc-roundtrip-non-nfc-payload",
                        "encode-then-decode yields a different document: payload strings/keys are NFC-normalised by the canonical encoder".into(), input.clone());
                } else {
                    run.fail(&eid, "doc-roundtrip-differs", format!("encode-then-decode yields a different document: {:?}", back), input.clone());
                }
            } else {
                run.tally("roundtrip-equal");
            }
            match back.encode() {
                Ok((oid2, bytes2)) if oid2 == oid && bytes2 == bytes => {}
                _ => run.fail(&eid, "doc-reencode-differs", "decode-then-encode does not reproduce the bytes/oid".into(), input.clone()),
            }
        }
        Err(e) => run.fail(&eid, "doc-roundtrip-decode-fails", format!("cannot decode Doc::encode output: {}", e), input.clone()),
    }
    run.nontrivial(String::from_utf8_lossy(&bytes).to_string());
}

/// Repository::init on a real storage: the RepoId is the blob hash of the
/// canonical encoding, and that blob is what the repository stores.
fn init_case(run: &mut Run, id: &str, r: &mut Rng, ctx: &Ctx, gen: &Gen) {
    run.eval();
    let mut seed = [0u8; 32];
    seed[..8].copy_from_slice(&(r.below(6) + 1).to_le_bytes());
    let signer = Device::from(MockSigner::from_seed(seed));
    let me = Did::from(*signer.public_key());
    // a valid document in which the signer is a delegate
    let n = r.range(0, 3) as usize;
    let mut delegates: Vec<J> = vec![J::Str(st(&me.to_string()))];
    for _ in 0..n { delegates.push(J::Str(st(&ctx.dids.text(r.below(8) as usize)))); }
    let distinct = { let mut v: Vec<&J> = vec![]; for x in &delegates { if !v.contains(&x) { v.push(x); } } v.len() };
    let payload = loop {
        let p = gen.payload(r);
        if matches!(p, J::Obj(_)) && !p.has_float() { break p; }
    };
    let mut m = vec![
        (st("payload"), payload),
        (st("delegates"), J::Arr(delegates)),
        (st("threshold"), J::Int(r.range(1, distinct as u64) as i128)),
    ];
    if let Some(v) = gen.visibility(r) { if !matches!(v, J::Arr(_)) { m.push((st("visibility"), v)); } }
    let mut text = String::new();
    write_json(&J::Obj(m), &mut text);
    let Ok(doc) = RawDoc::from_json(text.as_bytes()).and_then(|d| d.verified()) else { run.tally("init-doc-rejected"); return };
    let input = json!({"json": text});
    let tmp = tempfile::tempdir().unwrap();
    let storage = match Storage::open(tmp.path().join("storage"), radicle::git::UserInfo { alias: radicle::node::Alias::new("hw"), key: *signer.public_key() }) {
        Ok(s) => s,
        Err(e) => { run.note(format!("storage open failed: {}", e)); return; }
    };
    let (oid, bytes) = match doc.encode() { Ok(x) => x, Err(_) => return };
    match catch(std::panic::AssertUnwindSafe(|| Repository::init(&doc, &storage, &signer))) {
        Ok(Ok((repo, commit))) => {
            run.tally("init-ok");
            let want = git_blob_hash(&bytes);
            let rid: RepoId = repo.id;
            if (*rid).to_string() != want || RepoId::from(oid) != rid {
                run.fail(id, "rid-not-blob-hash", format!("Repository::init produced {} but the blob hash of the canonical encoding is {}", *rid, want), input.clone());
            }
            match repo.backend.find_blob(radicle::git::raw::Oid::from_str(&want).unwrap()) {
                Ok(b) if b.content() == bytes.as_slice() => {}
                _ => run.fail(id, "rid-blob-not-stored", "the repository does not contain the canonical document blob under its id".into(), input.clone()),
            }
            match Doc::load_at(commit, &repo) {
                Ok(at) => {
                    check_valid(run, id, &at.doc, "Doc::load_at(initial commit)", &input);
                    if at.blob.to_string() != want {
                        run.fail(id, "rid-initial-doc-mismatch", format!("initial identity blob {} differs from the repository id {}", at.blob, want), input.clone());
                    }
                }
                Err(e) => run.fail(id, "rid-identity-doc-unreadable", format!("Doc::load_at(initial commit) failed after init: {}", e), input.clone()),
            }
        }
        Ok(Err(e)) => { run.tally("init-error"); run.note(format!("Repository::init error: {}", e)); }
        Err(p) => run.fail(id, "init-panics", format!("Repository::init panicked: {}", p), input),
    }
}

fn wants(run: &Run, id: &str) -> bool {
    run.args.wants(id) || run.args.wants(&format!("{}e", id))
}

fn main() {
    quiet_panics();
    let mut run = Run::new(
        "C19",
        "model.Doc",
        "stream 0: mostly valid identity documents as JSON text (1..12 delegates with duplicates; rarely 0/255/256/300; thresholds \
         around 0, n, n+1, 255, 256; versions absent/0/1/2/2^32/strings/floats; visibility absent/public/private with allow lists, \
         duplicate and unknown tags; payloads with arbitrary JSON incl. non-NFC strings, floats, duplicate ids; unknown/duplicate/\
         missing fields; shuffled member order). stream 1: the same generator without the validity bias. Every accepted document is \
         also an encode case (Doc::encode vs model, blob hash, encode/decode round trip). stream 2: Repository::init on a real \
         storage. Non-trivial = distinct canonical encodings of accepted documents.",
    );
    run.check_fn = "dcheck_case".into();
    run.case_ty = "(dcase * dobs)".into();
    run.shard_size(if run.args.thorough { 200 } else { 100 });
    run.preamble = "From HW Require Import model.CanonJson.".into();
    let seed = run.args.seed;
    let tmp = tempfile::tempdir().unwrap();
    let gitrepo = radicle::git::raw::Repository::init_bare(tmp.path().join("blobs")).unwrap();
    let ctx = Ctx { dids: Dids::new(300), gitrepo, _tmp: tmp };
    let gen = Gen { dids: &ctx.dids, clean: false };
    {
        let entries: Vec<String> = (0..ctx.dids.keys.len()).map(|i| format!("({}, {})", i, cps(&st(&ctx.dids.text(i))))).collect();
        run.preamble = format!(
            "From HW Require Import model.CanonJson.\nDefinition didtab : list (N * list N) := [{}].\nDefinition D (i : N) : list N := table_did_str didtab i.",
            entries.join(";\n  "));
    }

    for (stream, quick, thorough, bias) in [(0u64, 500u64, 4000u64, true), (1, 300, 2500, false)] {
        let n = run.args.count(quick, thorough);
        for i in 0..n {
            let id = format!("{}:{}", stream, i);
            if !wants(&run, &id) { continue; }
            let mut r = Rng::for_case(seed, stream, i);
            let j = if stream == 1 && i % 50 == 0 {
                // top level that is not an object
                match (i / 50) % 5 { 0 => J::Null, 1 => J::Int(1), 2 => jstr("doc"), 3 => J::Arr(vec![]), _ => J::Bool(true) }
            } else {
                gen.document(&mut r, bias)
            };
            if i < 2 && stream == 0 { let mut t = String::new(); write_json(&j, &mut t); run.sample(json!({"case_id": id, "json": t})); }
            if let Some(doc) = from_json_case(&mut run, &id, &ctx, &j, &stream.to_string()) {
                encode_case(&mut run, &id, &ctx, &doc);
            }
        }
    }
    let n2 = run.args.count(25, 300);
    for i in 0..n2 {
        let id = format!("2:{}", i);
        if !run.args.wants(&id) { continue; }
        let mut r = Rng::for_case(seed, 2, i);
        init_case(&mut run, &id, &mut r, &ctx, &gen);
    }
    let _: BTreeMap<u8, u8> = BTreeMap::new();
    run.finish();
}
