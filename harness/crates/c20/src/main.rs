//! C20: signed refs text round-trips and signatures bind exactly what is
//! accepted — correspondence with coq/model/SigRefs.v and the direct oracle on
//! the real `Refs::{canonical, from_canonical}` and `SignedRefs::{verify, verified}`
//! with real Ed25519 keys.
use std::collections::BTreeMap;
use std::str::FromStr;

use hw_common::*;
use radicle::crypto::{PublicKey, Signature};
use radicle::git::{Oid, RefString};
use radicle::identity::{Doc, RepoId};
use radicle::node::device::Device;
use radicle::storage::refs::{self, canonical, Refs, SignedRefs};
use radicle::test::storage::MockRepository;
use radicle_crypto::test::signer::MockSigner;

// ------------------------------------------------------------ terms

type Pairs = Vec<(Vec<u8>, Vec<u8>)>;

fn pairs_of(r: &Refs) -> Pairs {
    r.iter().map(|(n, o)| (n.as_str().as_bytes().to_vec(), o.as_bytes().to_vec())).collect()
}
fn cerr(e: &canonical::Error) -> &'static str {
    match e {
        canonical::Error::InvalidRef(_) => "ERef",
        canonical::Error::InvalidFormat => "EFormat",
        canonical::Error::Io(_) => "EIo",
        canonical::Error::Git(_) => "EGit",
    }
}
fn orefs(r: &Result<Refs, canonical::Error>) -> String {
    match r {
        Ok(r) => format!("ORefs (Ok {})", pairs_of(r).coq()),
        Err(e) => format!("ORefs (Err {})", cerr(e)),
    }
}

// ------------------------------------------------------------ generators

const WORDS: &[&str] = &[
    "master", "main", "dev", "feature", "fix", "v1.0", "v2.0.1", "a", "b", "z", "release-1", "x_y", "patch", "1", "42",
    "h\u{e9}llo", "\u{65e5}\u{672c}", "\u{1F680}", "a.b", "a@b", "@", "{", "}", "a{b", "lock", "x.lockx", "-", "+", "=", "%",
    "\u{a0}", "\u{2028}", "\u{85}",
];
const PREFIXES: &[&str] = &[
    "refs/heads", "refs/tags", "refs/notes", "refs/cobs/xyz.radicle.issue", "refs/cobs/xyz.radicle.patch", "refs/rad", "refs/drafts", "heads", "refs",
];

fn valid_name(r: &mut Rng) -> String {
    match r.below(14) {
        0 => "refs/rad/root".into(),
        1 => "refs/rad/id".into(),
        2 => "refs/rad/sigrefs".into(),
        3 if r.chance(1, 6) => {
            // long name (git's own limit for a path component is 255, a ref ~ 4096)
            let n = *r.pick(&[200usize, 255, 256, 255, 1000, 4000]);
            format!("refs/heads/{}", "n".repeat(n))
        }
        4 => {
            // many components
            let n = 2 + r.below(30);
            format!("refs/{}", (0..n).map(|_| *r.pick(WORDS)).collect::<Vec<_>>().join("/"))
        }
        5 => (*r.pick(WORDS)).to_string(), // one-level
        _ => {
            let depth = 1 + r.below(3);
            let mut s = (*r.pick(PREFIXES)).to_string();
            for _ in 0..depth {
                s.push('/');
                s.push_str(*r.pick(WORDS));
                if r.chance(1, 4) {
                    s.push_str(&format!("{}", r.below(1000)));
                }
            }
            s
        }
    }
}

/// A name that RefString may or may not accept.
fn any_name(r: &mut Rng) -> String {
    let mut s = valid_name(r);
    if s.len() > 300 {
        s.truncate(40);
    }
    let cs: Vec<char> = s.chars().collect();
    let pos = r.below(cs.len() as u64 + 1) as usize;
    let ins: &str = match r.below(30) {
        0 => "..",
        1 => "@{",
        2 => ".lock",
        3 => "/",
        4 => "//",
        5 => ".",
        6 => "/.",
        7 => "./",
        8 => *r.pick(&["~", "^", ":", "?", "[", "*", "\\", " "]),
        9 => *r.pick(&["\0", "\t", "\n", "\r", "\u{1f}", "\u{7f}"]),
        10 => *r.pick(&["\u{80}", "\u{9f}", "\u{a0}", "\u{2028}", "\u{3000}"]),
        11 => "{",
        12 => "@",
        13 => "/{x@", // cyclic pairing quirk: component "{x@" pairs '@' with its first char '{'
        14 => "/{@/",
        15 => ".lock/",
        16 => "/x.lock",
        17 | 18 | 19 => "",
        _ => *r.pick(WORDS),
    };
    let mut out: String = cs[..pos].iter().collect();
    out.push_str(ins);
    out.extend(cs[pos..].iter());
    match r.below(40) {
        0 => String::new(),
        1 => "@".into(),
        2 => ".".into(),
        3 => format!("/{}", out),
        4 => format!("{}/", out),
        5 => format!(".{}", out),
        6 => format!("{}.", out),
        7 => format!("{}.lock", out),
        _ => out,
    }
}

fn rand_oid_bytes(r: &mut Rng) -> Vec<u8> {
    match r.below(12) {
        0 => vec![0; 20],
        1 => vec![0xFF; 20],
        2 => {
            let mut v = vec![0; 20];
            v[r.below(20) as usize] = 1 << r.below(8);
            v
        }
        3 => {
            let mut v = vec![0; 20];
            v[19] = r.next() as u8;
            v
        }
        _ => r.bytes(20),
    }
}
fn oid_of(b: &[u8]) -> Oid {
    Oid::try_from(b).unwrap()
}

fn rand_refs(r: &mut Rng, allow_zero: bool, allow_root: bool) -> Vec<(RefString, Oid)> {
    let n = match r.below(10) {
        0 => 0,
        1 => 1,
        2 if r.chance(1, 3) => 20 + r.below(30),
        _ => 1 + r.below(8),
    };
    let mut v = vec![];
    for _ in 0..n {
        let name = loop {
            let s = valid_name(r);
            if !allow_root && s == "refs/rad/root" {
                continue;
            }
            if let Ok(n) = RefString::try_from(s.as_str()) {
                break n;
            }
        };
        let mut o = rand_oid_bytes(r);
        if !allow_zero && o.iter().all(|b| *b == 0) {
            o[7] = 9;
        }
        v.push((name, oid_of(&o)));
        if r.chance(1, 8) {
            // duplicate name, other oid (later insert wins)
            let (n, _) = v[r.below(v.len() as u64) as usize].clone();
            let mut o = rand_oid_bytes(r);
            if !allow_zero && o.iter().all(|b| *b == 0) {
                o[3] = 1;
            }
            v.push((n, oid_of(&o)));
        }
    }
    v
}
fn list_term(l: &[(RefString, Oid)]) -> String {
    l.iter().map(|(n, o)| (n.as_str().as_bytes().to_vec(), o.as_bytes().to_vec())).collect::<Pairs>().coq()
}

/// A blob derived from canonical text by a structural or byte-level change.
fn mutate_blob(r: &mut Rng, text: &[u8]) -> (&'static str, Vec<u8>) {
    let mut t = text.to_vec();
    let lines: Vec<&[u8]> = text.split_inclusive(|b| *b == b'\n').collect();
    match r.below(20) {
        0 => ("identity", t),
        1 => {
            if !t.is_empty() {
                t.pop();
            }
            ("no-final-newline", t)
        }
        2 => {
            let v: Vec<u8> = text.iter().flat_map(|b| if *b == b'\n' { vec![b'\r', b'\n'] } else { vec![*b] }).collect();
            ("crlf", v)
        }
        3 => {
            if !lines.is_empty() {
                let l = lines[r.below(lines.len() as u64) as usize];
                let at = r.below(lines.len() as u64 + 1) as usize;
                let mut v = vec![];
                for (i, x) in lines.iter().enumerate() {
                    if i == at {
                        v.extend_from_slice(l);
                    }
                    v.extend_from_slice(x);
                }
                if at == lines.len() {
                    v.extend_from_slice(l);
                }
                t = v;
            }
            ("duplicate-line", t)
        }
        4 => {
            // same name, different oid, appended (later duplicate overwrites)
            if !lines.is_empty() {
                let l = lines[r.below(lines.len() as u64) as usize];
                let mut l2 = l.to_vec();
                let i = r.below(40) as usize;
                l2[i] = if l2[i] == b'0' { b'1' } else { b'0' };
                if r.bool() {
                    t.extend(l2);
                } else {
                    let mut v = l2;
                    v.extend(t);
                    t = v;
                }
            }
            ("duplicate-name-other-oid", t)
        }
        5 => {
            let z = format!("{} refs/heads/zero{}\n", "0".repeat(40), r.below(10));
            let at = if lines.is_empty() { 0 } else { r.below(lines.len() as u64 + 1) as usize };
            let off: usize = lines[..at].iter().map(|l| l.len()).sum();
            let mut v = t[..off].to_vec();
            v.extend(z.as_bytes());
            v.extend(&t[off..]);
            ("zero-oid-line", v)
        }
        6 => {
            // make an existing line's oid all zeros
            if !lines.is_empty() {
                let at = r.below(lines.len() as u64) as usize;
                let off: usize = lines[..at].iter().map(|l| l.len()).sum();
                for b in &mut t[off..off + 40] {
                    *b = b'0';
                }
            }
            ("zero-existing-oid", t)
        }
        7 => {
            // shorten an oid (git pads short hex with zeros)
            if !lines.is_empty() {
                let at = r.below(lines.len() as u64) as usize;
                let off: usize = lines[..at].iter().map(|l| l.len()).sum();
                let k = 1 + r.below(39) as usize;
                t.drain(off + 40 - k..off + 40);
            }
            ("short-oid", t)
        }
        8 => {
            let v: Vec<u8> = text.to_ascii_uppercase();
            ("uppercase", v)
        }
        9 => {
            // upper-case only hex digits of one line's oid
            if !lines.is_empty() {
                let at = r.below(lines.len() as u64) as usize;
                let off: usize = lines[..at].iter().map(|l| l.len()).sum();
                for b in &mut t[off..off + 40] {
                    *b = b.to_ascii_uppercase();
                }
            }
            ("uppercase-oid", t)
        }
        10 => {
            if let Some(i) = t.iter().position(|b| *b == b' ') {
                if r.bool() {
                    t.remove(i);
                } else {
                    t.insert(i, b' ');
                }
            }
            ("space-removed-or-doubled", t)
        }
        11 => {
            let at = r.below(t.len() as u64 + 1) as usize;
            t.insert(at, *r.pick(&[0xFFu8, 0xC0, 0x80, 0xED, 0xF5, 0xE0]));
            ("invalid-utf8", t)
        }
        12 => {
            let at = r.below(t.len() as u64 + 1) as usize;
            t.insert(at, b'\n');
            ("extra-newline", t)
        }
        13 => ("empty", vec![]),
        14 => ("only-newline", vec![b'\n']),
        15 => {
            if !t.is_empty() {
                let at = r.below(t.len() as u64) as usize;
                t.remove(at);
            }
            ("delete-byte", t)
        }
        16 => {
            let at = r.below(t.len() as u64 + 1) as usize;
            t.insert(at, *r.pick(&[b'a', b'0', b' ', b'/', b'.', b'\r', b'\t', b'~', b'g']));
            ("insert-byte", t)
        }
        17 => {
            // reorder lines (parse is order-insensitive, canonical is sorted)
            let mut ls: Vec<Vec<u8>> = lines.iter().map(|l| l.to_vec()).collect();
            r.shuffle(&mut ls);
            ("shuffled-lines", ls.concat())
        }
        _ => {
            if !t.is_empty() {
                let at = r.below(t.len() as u64) as usize;
                t[at] ^= 1 << r.below(7);
            }
            ("flip-bit", t)
        }
    }
}

// ------------------------------------------------------------ the real load path

struct World {
    repo_ok: MockRepository,  // local id == id of the identity doc
    repo_bad: MockRepository, // local id differs
}

#[derive(Debug, PartialEq)]
enum Loaded {
    Accepted(Refs),
    Parse(&'static str),
    Sig,
    Identity,
    Other(String),
}

/// What `SignedRefs::load_at` does after reading the two blobs.
fn load(w: &World, pk: &PublicKey, blob: &[u8], sig: &[u8], root_ok: bool) -> Loaded {
    let signature: Signature = match Signature::try_from(sig) {
        Ok(s) => s,
        Err(_) => {
            // load_at converts the signature blob first; refs errors come second
            return Loaded::Sig;
        }
    };
    let refs = match Refs::from_canonical(blob) {
        Ok(r) => r,
        Err(e) => return Loaded::Parse(cerr(&e)),
    };
    let repo = if root_ok { &w.repo_ok } else { &w.repo_bad };
    let sr = SignedRefs::new(refs, *pk, signature);
    let v = sr.verify(repo);
    match sr.verified(repo) {
        Ok(v2) => {
            if v.is_err() {
                return Loaded::Other("verify() failed but verified() succeeded".into());
            }
            Loaded::Accepted(v2.refs.clone())
        }
        Err(refs::Error::InvalidSignature(_)) => Loaded::Sig,
        Err(refs::Error::MismatchedIdentity { .. }) | Err(refs::Error::MissingIdentity(_)) => Loaded::Identity,
        Err(e) => Loaded::Other(e.to_string()),
    }
}
fn oload(l: &Loaded) -> String {
    match l {
        Loaded::Accepted(r) => format!("OLoad (Accepted {})", pairs_of(r).coq()),
        Loaded::Parse(e) => format!("OLoad (RejectedParse {})", e),
        Loaded::Sig => "OLoad RejectedSig".into(),
        Loaded::Identity => "OLoad RejectedIdentity".into(),
        Loaded::Other(_) => "OLoad RejectedOther".into(),
    }
}

// ------------------------------------------------------------ streams

/// stream 0: canonical text and its round trip for arbitrary ref sets.
fn roundtrip(run: &mut Run, id: &str, r: &mut Rng) {
    let allow_zero = r.chance(1, 5);
    let l = rand_refs(r, allow_zero, true);
    let map: BTreeMap<RefString, Oid> = l.iter().cloned().collect();
    let refs = Refs::from(map.clone());
    let text = refs.canonical();
    run.case(id, format!("CCanonical {}", list_term(&l)), format!("OBytes {}", text.coq()));
    let back = Refs::from_canonical(&text);
    run.case(id, format!("CFromCanonical {}", text.coq()), orefs(&back));
    let nonzero: BTreeMap<RefString, Oid> = map.iter().filter(|(_, o)| !o.is_zero()).map(|(n, o)| (n.clone(), *o)).collect();
    let has_zero = nonzero.len() != map.len();
    match &back {
        Ok(b) if **b == nonzero => {}
        other => run.fail(id, "refs-roundtrip",
            format!("from_canonical(canonical(refs)) = {:?}, expected the {} non-zero refs", other.as_ref().map(|r| r.len()).map_err(|e| e.to_string()), nonzero.len()),
            json!({"refs": l.iter().map(|(n, o)| (n.to_string(), o.to_string())).collect::<Vec<_>>()})),
    }
    // canonical form: sorted by name, "<40 lowercase hex> <name>\n"
    let mut expect: Vec<u8> = Vec::new();
    for (n, o) in &map {
        expect.extend(format!("{} {}\n", o, n).as_bytes());
    }
    let names: Vec<&RefString> = map.keys().collect();
    if expect != text || names.windows(2).any(|w| w[0].as_str().as_bytes() >= w[1].as_str().as_bytes()) {
        run.fail(id, "refs-canonical-form", "canonical() is not the sorted '<oid> <name>\\n' text".into(), json!({"text": String::from_utf8_lossy(&text)}));
    }
    run.tally(&format!("refs/{}", match map.len() { 0 => "0", 1 => "1", 2..=9 => "2-9", _ => "10+" }));
    if l.len() != map.len() {
        run.tally("refs/with-duplicate-names");
    }
    if has_zero {
        run.tally("refs/with-zero-oid");
    }
    if map.keys().any(|n| n.len() >= 255) {
        run.tally("refs/with-long-name");
    }
    if map.keys().any(|n| !n.is_ascii()) {
        run.tally("refs/with-non-ascii-name");
    }
    run.nontrivial(format!("{:?}", l));
}

/// stream 1: names and object-id strings.
fn names_and_oids(run: &mut Run, id: &str, r: &mut Rng) {
    let n = any_name(r);
    let ok = RefString::try_from(n.as_str()).is_ok();
    run.case(id, format!("CNameOk {}", n.as_bytes().coq()), format!("OBool {}", ok.coq()));
    run.tally(if ok { "name/accepted" } else { "name/rejected" });
    if ok {
        // an accepted name on a line of its own parses back
        let text = format!("{} {}\n", "1".repeat(40), n);
        match Refs::from_canonical(text.as_bytes()) {
            Ok(rf) if rf.len() == 1 && rf.keys().next().map(|k| k.as_str()) == Some(n.as_str()) => {}
            other => run.fail(id, "refs-roundtrip", format!("accepted name {:?} does not survive a canonical line: {:?}", n, other.map(|r| r.len()).map_err(|e| e.to_string())), json!({"name": n})),
        }
    }
    let s: String = match r.below(12) {
        0 => String::new(),
        1 => "0".repeat(40),
        2 => {
            let k = 1 + r.below(39) as usize;
            (0..k).map(|_| *r.pick(&['0', '1', '9', 'a', 'f', 'A', 'F', 'c'])).collect()
        }
        3 => (0..41 + r.below(3)).map(|_| 'a').collect(),
        4 => {
            let mut s: Vec<char> = (0..40).map(|_| *r.pick(&['0', '5', 'b', 'e'])).collect();
            s[r.below(40) as usize] = *r.pick(&['g', 'G', ' ', 'x', '-', '\u{e9}', '/', ':', '@', '`']);
            s.into_iter().collect()
        }
        5 => (0..40).map(|_| *r.pick(&['A', 'B', 'C', 'D', 'E', 'F', '0', '7'])).collect(),
        _ => oid_of(&rand_oid_bytes(r)).to_string(),
    };
    let o = Oid::from_str(&s).ok();
    run.case(id, format!("COidFromStr {}", s.as_bytes().coq()), format!("OOid {}", o.map(|o| o.as_bytes().to_vec()).coq()));
    run.tally(match (&o, s.len()) { (Some(_), 40) => "oid/full", (Some(_), _) => "oid/short-accepted", (None, _) => "oid/rejected" });
    if let Some(o) = o {
        if s.len() == 40 && o.to_string() != s.to_ascii_lowercase() {
            run.fail(id, "oid-hex-roundtrip", format!("Oid::from_str({:?}) prints as {}", s, o), json!({"text": s}));
        }
    }
    run.nontrivial(format!("{}|{}", n, s));
}

/// stream 2: arbitrary / mutated blobs through from_canonical.
fn blobs(run: &mut Run, id: &str, r: &mut Rng) {
    let l = rand_refs(r, false, true);
    let refs = Refs::from(l.iter().cloned().collect::<BTreeMap<_, _>>());
    let (kind, blob) = mutate_blob(r, &refs.canonical());
    let parsed = Refs::from_canonical(&blob);
    run.case(id, format!("CFromCanonical {}", blob.coq()), orefs(&parsed));
    run.tally(&format!("blob/{}/{}", kind, match &parsed { Ok(p) if *p == refs => "same-refs", Ok(_) => "other-refs", Err(e) => cerr(e) }));
    if let Ok(p) = &parsed {
        // whatever is accepted re-canonicalises to a text that parses to itself, has no zero oid
        let again = Refs::from_canonical(&p.canonical());
        if again.as_ref().ok() != Some(p) || p.values().any(|o| o.is_zero()) {
            run.fail(id, "refs-roundtrip", "accepted refs do not round-trip through their canonical text".into(), json!({"blob": String::from_utf8_lossy(&blob)}));
        }
    }
    run.nontrivial(format!("{:?}", blob));
}

struct Signed {
    signer_pk: PublicKey,
    refs: Refs,
    text: Vec<u8>,
    sig: Vec<u8>,
}

fn one_load(run: &mut Run, w: &World, id: &str, kind: &str, base: &Signed, pk: &PublicKey, blob: &[u8], sig: &[u8], root_ok: bool, record: bool) {
    let got = load(w, pk, blob, sig, root_ok);
    // ---- direct oracle (ground truth known to the generator): accepted iff the
    // signature is the signer's untouched signature, the claimed key is the
    // signer, the blob parses to exactly the signed refs and the identity root
    // (if present) checks out.
    let parsed = Refs::from_canonical(blob).ok();
    let same_sig = sig == base.sig.as_slice();
    let same_key = *pk == base.signer_pk;
    let same_refs = parsed.as_ref() == Some(&base.refs);
    let has_root = parsed.as_ref().map(|p| p.contains_key(&RefString::try_from("refs/rad/root").unwrap())).unwrap_or(false);
    let should_accept = same_sig && same_key && same_refs && (!has_root || root_ok);
    let input = || json!({"kind": kind, "signed_text": String::from_utf8_lossy(&base.text), "blob": String::from_utf8_lossy(blob),
        "same_sig": same_sig, "same_key": same_key, "root_ok": root_ok});
    match (&got, should_accept) {
        (Loaded::Accepted(r), true) if *r == base.refs => {}
        (Loaded::Accepted(r), _) => run.fail(id, "sigrefs-accepted-unsigned",
            format!("{}: verification accepted {} refs although (sig untouched: {}, key is signer: {}, blob parses to the signed refs: {}, root ok: {})",
                kind, r.len(), same_sig, same_key, same_refs, !has_root || root_ok), input()),
        (Loaded::Other(e), _) => run.fail(id, "sigrefs-unexpected-error", format!("{}: {}", kind, e), input()),
        (_, true) => run.fail(id, "sigrefs-rejected-signed", format!("{}: honest signed refs rejected: {:?}", kind, got), input()),
        (_, false) => {}
    }
    run.tally(&format!("load/{}/{}", kind, match &got { Loaded::Accepted(_) => "accepted", Loaded::Parse(_) => "parse-error", Loaded::Sig => "bad-signature", Loaded::Identity => "identity", Loaded::Other(_) => "other" }));
    if record {
        let s = if same_sig {
            format!("(Some (SigOf {} {}))", base.signer_pk.as_ref().to_vec().coq(), base.text.coq())
        } else if sig.len() != 64 {
            "None".to_string()
        } else {
            "(Some SigForged)".to_string()
        };
        run.case(id, format!("CLoad {} {} {} {}", pk.as_ref().to_vec().coq(), blob.coq(), s, root_ok.coq()), oload(&got));
    }
}

/// stream 3: sign with a real key, then load honest / tampered triples.
fn signed(run: &mut Run, w: &World, id: &str, r: &mut Rng, exhaustive: bool) {
    let mut seed = [0u8; 32];
    seed.copy_from_slice(&r.bytes(32));
    let device = Device::<MockSigner>::mock_from_seed(seed);
    let with_root = r.chance(1, 4);
    let mut l = rand_refs(r, false, false);
    if exhaustive {
        l.truncate(2);
    } else if l.len() > 6 {
        l.truncate(6);
    }
    l.retain(|(n, _)| n.len() < 120);
    if with_root {
        l.push((RefString::try_from("refs/rad/root").unwrap(), oid_of(&r.bytes(20))));
    }
    let refs = Refs::from(l.iter().cloned().collect::<BTreeMap<_, _>>());
    let sr = refs.clone().signed(&device).unwrap();
    let base = Signed { signer_pk: *device.public_key(), refs: refs.clone(), text: refs.canonical(), sig: sr.signature.as_ref().to_vec() };
    let pk = base.signer_pk;
    let mut seed2 = [0u8; 32];
    seed2.copy_from_slice(&r.bytes(32));
    let other = Device::<MockSigner>::mock_from_seed(seed2);

    // honest
    one_load(run, w, id, "honest", &base, &pk, &base.text, &base.sig, true, true);
    if with_root {
        one_load(run, w, id, "honest-root-mismatch", &base, &pk, &base.text, &base.sig, false, true);
    }
    // benign re-spellings of the same refs (signature is over the re-canonicalised refs)
    let (kind, blob) = mutate_blob(r, &base.text);
    one_load(run, w, id, &format!("blob:{}", kind), &base, &pk, &blob, &base.sig, true, true);

    // key: other claimed key; single-bit changes of the key
    one_load(run, w, id, "other-key", &base, other.public_key(), &base.text, &base.sig, true, true);
    let key_positions: Vec<usize> = if exhaustive { (0..256).collect() } else { (0..3).map(|_| r.below(256) as usize).collect() };
    for (j, p) in key_positions.iter().enumerate() {
        let mut kb = [0u8; 32];
        kb.copy_from_slice(pk.as_ref());
        kb[p / 8] ^= 1 << (p % 8);
        one_load(run, w, id, "key-bit-flip", &base, &PublicKey::from(kb), &base.text, &base.sig, true, j < 1);
    }
    // signature: by another key over the same text; bit flips; truncation
    let sig_other = refs.clone().signed(&other).unwrap().signature.as_ref().to_vec();
    one_load(run, w, id, "sig-by-other-key", &base, &pk, &base.text, &sig_other, true, true);
    let sig_positions: Vec<usize> = if exhaustive { (0..512).collect() } else { (0..4).map(|_| r.below(512) as usize).collect() };
    for (j, p) in sig_positions.iter().enumerate() {
        let mut s = base.sig.clone();
        s[p / 8] ^= 1 << (p % 8);
        one_load(run, w, id, "sig-bit-flip", &base, &pk, &base.text, &s, true, j < 1);
    }
    one_load(run, w, id, "sig-truncated", &base, &pk, &base.text, &base.sig[..63], true, true);

    // refs: every / some single-point changes of the text under the untouched signature
    let text_positions: Vec<usize> = if exhaustive { (0..base.text.len()).collect() } else { (0..6).map(|_| r.below(base.text.len().max(1) as u64) as usize).collect() };
    for (j, p) in text_positions.iter().enumerate() {
        if base.text.is_empty() {
            break;
        }
        let mut t = base.text.clone();
        let old = t[*p];
        t[*p] = match r.below(4) {
            0 => old ^ 0x20, // case flip for letters
            1 => old ^ 1,
            2 => *r.pick(&[b'0', b'a', b'f', b'/', b' ', b'\n']),
            _ => r.next() as u8,
        };
        if t[*p] == old {
            t[*p] = old ^ 2;
        }
        one_load(run, w, id, "text-byte-change", &base, &pk, &t, &base.sig, true, j < 2);
    }
    // semantic single changes: one oid, one name, one ref added / removed
    if !l.is_empty() {
        let mut m: BTreeMap<RefString, Oid> = refs.iter().map(|(n, o)| (n.clone(), *o)).collect();
        let k = m.keys().nth(r.below(m.len() as u64) as usize).unwrap().clone();
        let mut ob = m[&k].as_bytes().to_vec();
        ob[r.below(20) as usize] ^= 1 << r.below(8);
        if ob.iter().all(|b| *b == 0) {
            ob[0] = 1;
        }
        m.insert(k.clone(), oid_of(&ob));
        one_load(run, w, id, "oid-changed", &base, &pk, &Refs::from(m.clone()).canonical(), &base.sig, true, true);
        m.remove(&k);
        one_load(run, w, id, "ref-removed", &base, &pk, &Refs::from(m.clone()).canonical(), &base.sig, true, true);
        m.insert(RefString::try_from(format!("{}x", k)).unwrap(), oid_of(&[0x5a; 20]));
        one_load(run, w, id, "ref-renamed", &base, &pk, &Refs::from(m).canonical(), &base.sig, true, true);
    }
    let mut m: BTreeMap<RefString, Oid> = refs.iter().map(|(n, o)| (n.clone(), *o)).collect();
    m.insert(RefString::try_from("refs/heads/injected").unwrap(), oid_of(&[7u8; 20]));
    one_load(run, w, id, "ref-added", &base, &pk, &Refs::from(m).canonical(), &base.sig, true, true);
    // a zero-oid line added is ignored by the parser: same refs, still accepted
    let mut t = base.text.clone();
    t.extend(format!("{} refs/heads/ghost\n", "0".repeat(40)).as_bytes());
    one_load(run, w, id, "zero-oid-line-added", &base, &pk, &t, &base.sig, true, true);
    // signature over the *blob* of a non-canonical spelling must not be what is checked:
    // sign the CRLF spelling's bytes directly and present it
    let crlf: Vec<u8> = base.text.iter().flat_map(|b| if *b == b'\n' { vec![b'\r', b'\n'] } else { vec![*b] }).collect();
    if crlf != base.text {
        use radicle_crypto::signature::Signer as _;
        let s: Signature = device.sign(&crlf);
        let fake = Signed { signer_pk: pk, refs: refs.clone(), text: crlf.clone(), sig: s.as_ref().to_vec() };
        // ground truth: this signature is over other bytes than canonical(refs) => must be rejected
        let got = load(w, &pk, &crlf, &fake.sig, true);
        if matches!(got, Loaded::Accepted(_)) {
            run.fail(id, "sigrefs-accepted-unsigned", "signature over the non-canonical blob bytes accepted".into(), json!({"blob": String::from_utf8_lossy(&crlf)}));
        }
        run.tally(&format!("load/sig-over-noncanonical-blob/{}", if matches!(got, Loaded::Accepted(_)) { "accepted" } else { "rejected" }));
    }
    run.nontrivial(format!("{:?}{:?}", base.text, base.sig));
}

// ------------------------------------------------------------ stream 4: a real git storage

/// `SignedRefs::load` / `SignedRefsAt::load` on a real repository in a real
/// storage: the signed refs written by `rad::init` load and verify; every
/// tampering of the stored `refs` / `signature` blobs is rejected unless the
/// blob still parses to exactly the signed refs.
fn real_repo(run: &mut Run, n: u64) {
    use radicle::git::raw as git2;
    use radicle::storage::git::transport;
    use radicle::storage::refs::SignedRefsAt;
    use radicle::storage::{ReadStorage, RemoteId};
    use radicle::test::fixtures;
    use radicle::Storage;

    let seed = run.args.seed;
    if !(0..n).any(|i| run.args.wants(&format!("4:{}", i))) {
        return;
    }
    let tmp = tempfile::tempdir().unwrap();
    let alice = Device::<MockSigner>::mock_from_seed([0xA1; 32]);
    let bob = Device::<MockSigner>::mock_from_seed([0xB0; 32]);
    let storage = Storage::open(tmp.path().join("storage"), fixtures::user()).unwrap();
    transport::local::register(storage.clone());
    let (working, _head) = fixtures::repository(tmp.path().join("working"));
    let (rid, _doc, signed) = radicle::rad::init(
        &working,
        "acme".try_into().unwrap(),
        "Acme",
        RefString::try_from("master").unwrap(),
        Default::default(),
        &alice,
        &storage,
    )
    .unwrap();
    let repo = storage.repository(rid).unwrap();
    let apk: RemoteId = *alice.public_key();
    let refname = format!("refs/namespaces/{}/refs/rad/sigrefs", apk);
    let raw = &repo.backend;
    let orig_commit = raw.find_reference(&refname).unwrap().peel_to_commit().unwrap();
    let tree = orig_commit.tree().unwrap();
    let refs_blob = raw.find_blob(tree.get_name("refs").unwrap().id()).unwrap().content().to_vec();
    let sig_blob = raw.find_blob(tree.get_name("signature").unwrap().id()).unwrap().content().to_vec();
    let orig_refs = Refs::from_canonical(&refs_blob).unwrap();
    let base = Signed { signer_pk: apk, refs: orig_refs.clone(), text: orig_refs.canonical(), sig: sig_blob.clone() };
    if refs_blob != base.text || signed.refs != orig_refs || sig_blob != signed.signature.as_ref().to_vec() {
        run.fail("4:setup", "sigrefs-stored-not-canonical", "stored refs blob is not the canonical text of the signed refs".into(), json!({"blob": String::from_utf8_lossy(&refs_blob)}));
    }
    let write = |target: &str, refs: &[u8], sig: &[u8]| {
        let rb = raw.blob(refs).unwrap();
        let sb = raw.blob(sig).unwrap();
        let mut tb = raw.treebuilder(None).unwrap();
        tb.insert("refs", rb, 0o100_644).unwrap();
        tb.insert("signature", sb, 0o100_644).unwrap();
        let t = raw.find_tree(tb.write().unwrap()).unwrap();
        let who = git2::Signature::new("radicle", "x@radicle.xyz", &git2::Time::new(0, 0)).unwrap();
        let c = raw.commit(None, &who, &who, "Update signed refs\n", &t, &[&orig_commit]).unwrap();
        raw.reference(target, c, true, "tamper").unwrap();
    };
    let observe = |remote: &RemoteId| -> Loaded {
        let a = SignedRefs::load(*remote, &repo);
        let b = SignedRefsAt::load(*remote, &repo);
        let la = match a {
            Ok(sr) => Loaded::Accepted(sr.refs.clone()),
            Err(refs::Error::Canonical(e)) => Loaded::Parse(cerr(&e)),
            Err(refs::Error::InvalidSignature(_)) => Loaded::Sig,
            Err(refs::Error::MismatchedIdentity { .. }) | Err(refs::Error::MissingIdentity(_)) => Loaded::Identity,
            Err(e) => Loaded::Other(e.to_string()),
        };
        let agree = match (&la, &b) {
            (Loaded::Accepted(r), Ok(Some(at))) => at.sigrefs.refs == *r,
            (Loaded::Accepted(_), _) => false,
            (_, Ok(_)) => false,
            (_, Err(_)) => true,
        };
        if agree { la } else { Loaded::Other("SignedRefs::load and SignedRefsAt::load disagree".into()) }
    };

    for i in 0..n {
        let id = format!("4:{}", i);
        if !run.args.wants(&id) {
            continue;
        }
        run.eval();
        let mut r = Rng::for_case(seed, 4, i);
        let (kind, blob, sig): (String, Vec<u8>, Vec<u8>) = match i % 6 {
            0 => ("stored".into(), refs_blob.clone(), sig_blob.clone()),
            1 | 2 => {
                let (k, b) = mutate_blob(&mut r, &base.text);
                (format!("blob:{}", k), b, sig_blob.clone())
            }
            3 => {
                let mut s = sig_blob.clone();
                let p = r.below(512) as usize;
                s[p / 8] ^= 1 << (p % 8);
                ("sig-bit-flip".into(), refs_blob.clone(), s)
            }
            4 => {
                let s = if r.bool() { sig_blob[..63].to_vec() } else { [sig_blob.clone(), vec![0]].concat() };
                ("sig-wrong-length".into(), refs_blob.clone(), s)
            }
            _ => {
                // one semantic change
                let mut m: BTreeMap<RefString, Oid> = orig_refs.iter().map(|(n, o)| (n.clone(), *o)).collect();
                match r.below(3) {
                    0 => { m.insert(RefString::try_from("refs/heads/injected").unwrap(), oid_of(&r.bytes(20))); }
                    1 => { let k = m.keys().next().unwrap().clone(); m.remove(&k); }
                    _ => { let k = m.keys().last().unwrap().clone(); m.insert(k, oid_of(&r.bytes(20))); }
                }
                ("refs-changed".into(), Refs::from(m).canonical(), sig_blob.clone())
            }
        };
        write(&refname, &blob, &sig);
        let got = observe(&apk);
        let parsed = Refs::from_canonical(&blob).ok();
        let should_accept = sig == sig_blob && parsed.as_ref() == Some(&orig_refs);
        let input = || json!({"kind": kind, "blob": String::from_utf8_lossy(&blob), "sig_untouched": sig == sig_blob});
        match (&got, should_accept) {
            (Loaded::Accepted(rf), true) if *rf == orig_refs => {}
            (Loaded::Accepted(rf), _) => run.fail(&id, "sigrefs-accepted-unsigned", format!("real repo, {}: load accepted {} refs that were not signed", kind, rf.len()), input()),
            (Loaded::Other(e), _) => run.fail(&id, "sigrefs-unexpected-error", format!("real repo, {}: {}", kind, e), input()),
            (_, true) => run.fail(&id, "sigrefs-rejected-signed", format!("real repo, {}: signed refs rejected: {:?}", kind, got), input()),
            (_, false) => {}
        }
        run.tally(&format!("real-repo/{}/{}", kind.split(':').next().unwrap(), match &got { Loaded::Accepted(_) => "accepted", Loaded::Parse(_) => "parse-error", Loaded::Sig => "bad-signature", Loaded::Identity => "identity", Loaded::Other(_) => "other" }));
        let s = if sig == sig_blob {
            format!("(Some (SigOf {} {}))", apk.as_ref().to_vec().coq(), base.text.coq())
        } else if sig.len() != 64 {
            "None".to_string()
        } else {
            "(Some SigForged)".to_string()
        };
        run.case(&id, format!("CLoad {} {} {} true", apk.as_ref().to_vec().coq(), blob.coq(), s), oload(&got));

        // the same commit presented under another key's namespace must not verify
        if i % 6 == 0 {
            let bpk: RemoteId = *bob.public_key();
            let bref = format!("refs/namespaces/{}/refs/rad/sigrefs", bpk);
            write(&bref, &refs_blob, &sig_blob);
            let got = observe(&bpk);
            if matches!(got, Loaded::Accepted(_)) {
                run.fail(&id, "sigrefs-accepted-unsigned", "real repo: alice's signed refs accepted under bob's namespace".into(), json!({"kind": "other-namespace"}));
            }
            run.tally(&format!("real-repo/other-namespace/{}", if matches!(got, Loaded::Sig) { "bad-signature" } else { "other" }));
            run.case(&id, format!("CLoad {} {} (Some (SigOf {} {})) true", bpk.as_ref().to_vec().coq(), refs_blob.coq(), apk.as_ref().to_vec().coq(), base.text.coq()), oload(&got));
            raw.find_reference(&bref).unwrap().delete().unwrap();
        }
    }
    // restore
    raw.reference(&refname, orig_commit.id(), true, "restore").unwrap();
}

fn main() {
    quiet_panics();
    let mut run = Run::new(
        "C20",
        "model.SigRefs",
        "stream 0: arbitrary ref sets (0..50 refs, duplicate names, zero oids, names of 255..4000 bytes, non-ASCII) canonical + parse; \
         stream 1: ref names (valid and 22 kinds of invalid insertions) and oid strings (short, long, upper-case, non-hex); \
         stream 2: 20 kinds of mutated canonical blobs through from_canonical; stream 3: refs signed with a real Ed25519 key then \
         honest / tampered (text byte, signature bit, key bit, other signer, refs added/removed/renamed/oid changed, identity root) loads; \
         stream 4: a real git storage (rad::init), SignedRefs::load / SignedRefsAt::load after rewriting the stored refs / signature blobs. \
         Non-trivial = distinct generated input.",
    );
    run.shard_size(150);
    let seed = run.args.seed;
    let doc = radicle::test::arbitrary::gen::<Doc>(1);
    let (blob_oid, _) = doc.encode().unwrap();
    let w = World {
        repo_ok: MockRepository::new(RepoId::from(blob_oid), doc.clone()),
        repo_bad: MockRepository::new(RepoId::from(oid_of(&[0x42; 20])), doc),
    };
    let n = run.args.count(80, 400);
    for i in 0..n {
        for stream in 0u64..4 {
            let id = format!("{}:{}", stream, i);
            if !run.args.wants(&id) {
                continue;
            }
            let mut r = Rng::for_case(seed, stream, i);
            run.eval();
            match stream {
                0 => roundtrip(&mut run, &id, &mut r),
                1 => {
                    for _ in 0..4 {
                        names_and_oids(&mut run, &id, &mut r)
                    }
                }
                2 => {
                    for _ in 0..2 {
                        blobs(&mut run, &id, &mut r)
                    }
                }
                _ => {
                    // every 25th signed case mutates every byte of the text, every bit of signature and key
                    let exhaustive = i % 25 == 7;
                    if exhaustive {
                        run.tally("load/exhaustive-single-point-bases");
                    }
                    signed(&mut run, &w, &id, &mut r, exhaustive)
                }
            }
        }
    }
    let n4 = run.args.count(18, 120);
    real_repo(&mut run, n4);
    run.finish();
}
